//! Shared machinery of all checks: verdict collection (violations, known
//! findings, replay files), evidence writer, panic containment, scratch
//! directories and a deterministic parallel work distributor.
//!
//! Exit codes: 0 = held (possibly KNOWN-FINDING lines), 1 = VIOLATION,
//! 2 = machinery failure.

use serde_json::{Value, json};
use std::collections::BTreeMap;
use std::path::{Path, PathBuf};
use std::sync::Mutex;
use std::sync::atomic::{AtomicU64, AtomicUsize, Ordering};
use std::time::Instant;

pub const VERIF_ROOT: &str = "/verif";

/// where evidence/ and replays/ are written: /verif, or $VERIF_OUT when a check is
/// run against a scratch copy of the repository (seeded-change experiments)
pub fn out_root() -> String {
    std::env::var("VERIF_OUT").unwrap_or_else(|_| VERIF_ROOT.to_string())
}

#[derive(Clone, Copy, Debug, PartialEq, Eq)]
pub enum Tier {
    Quick,
    Thorough,
}

impl Tier {
    pub fn as_str(&self) -> &'static str {
        match self {
            Tier::Quick => "quick",
            Tier::Thorough => "thorough",
        }
    }
    pub fn pick<T>(&self, quick: T, thorough: T) -> T {
        match self {
            Tier::Quick => quick,
            Tier::Thorough => thorough,
        }
    }
}

pub struct Args {
    pub property: String,
    pub tier: Tier,
    pub replay: Option<String>,
    pub seed: i64,
    pub extra: Vec<String>,
}

/// `<bin> <Cxx> [--tier quick|thorough] [--replay file] [extra...]`
pub fn parse_args() -> Args {
    let mut it = std::env::args().skip(1);
    let property = it.next().unwrap_or_else(|| machinery_failure("usage: <bin> <Cxx> [--tier quick|thorough] [--replay file]"));
    let mut tier = match std::env::var("VERIF_TIER").as_deref() {
        Ok("thorough") => Tier::Thorough,
        _ => Tier::Quick,
    };
    let mut replay = None;
    let mut extra = vec![];
    while let Some(a) = it.next() {
        match a.as_str() {
            "--tier" => {
                tier = match it.next().as_deref() {
                    Some("thorough") => Tier::Thorough,
                    Some("quick") => Tier::Quick,
                    _ => machinery_failure("bad --tier"),
                }
            }
            "--replay" => replay = Some(it.next().unwrap_or_else(|| machinery_failure("--replay needs a file"))),
            _ => extra.push(a),
        }
    }
    let seed = std::env::var("VERIF_SEED").ok().and_then(|s| s.parse().ok()).unwrap_or(0);
    Args { property, tier, replay, seed, extra }
}

pub fn machinery_failure(msg: &str) -> ! {
    eprintln!("MACHINERY-FAILURE: {msg}");
    std::process::exit(2)
}

// ---------------------------------------------------------------------------
// known findings

#[derive(Debug, Clone)]
pub struct Finding {
    pub property: String,
    pub status: String, // "open" | "fixed"
    pub signature: String,
    pub what: String,
}

pub fn load_findings(property: &str) -> Vec<Finding> {
    // VERIF_FINDINGS: alternative file, used only while developing a check
    let path = std::env::var("VERIF_FINDINGS").unwrap_or_else(|_| format!("{VERIF_ROOT}/known_findings.json"));
    let Ok(text) = std::fs::read_to_string(&path) else {
        return vec![];
    };
    let v: Value = serde_json::from_str(&text).unwrap_or_else(|e| machinery_failure(&format!("known_findings.json: {e}")));
    let mut out = vec![];
    for f in v["findings"].as_array().cloned().unwrap_or_default() {
        if f["property"].as_str() == Some(property) {
            out.push(Finding {
                property: property.to_string(),
                status: f["status"].as_str().unwrap_or("open").to_string(),
                signature: f["signature"].as_str().unwrap_or("").to_string(),
                what: f["what"].as_str().unwrap_or("").to_string(),
            });
        }
    }
    out
}

/// glob with `*` only
pub fn glob_match(pat: &str, s: &str) -> bool {
    let parts: Vec<&str> = pat.split('*').collect();
    if parts.len() == 1 {
        return pat == s;
    }
    let mut pos = 0usize;
    for (i, p) in parts.iter().enumerate() {
        if i == 0 {
            if !s.starts_with(p) {
                return false;
            }
            pos = p.len();
        } else if i == parts.len() - 1 {
            return s.len() >= pos + p.len() && s[pos..].ends_with(p);
        } else {
            match s[pos..].find(p) {
                Some(k) => pos += k + p.len(),
                None => return false,
            }
        }
    }
    true
}

// ---------------------------------------------------------------------------
// report

struct Viol {
    signature: String,
    what: String,
    replay: Value,
    count: u64,
}

pub struct Report {
    pub property: String,
    pub tier: Tier,
    pub seed: i64,
    start: Instant,
    viols: Mutex<BTreeMap<String, Viol>>,
    findings: Vec<Finding>,
    pub coverage: Mutex<serde_json::Map<String, Value>>,
    pub assumptions: Mutex<Vec<String>>,
    level: &'static str,
    samples: Mutex<Vec<Value>>,
}

impl Report {
    pub fn new(args: &Args, level: &'static str) -> Self {
        Report {
            property: args.property.clone(),
            tier: args.tier,
            seed: args.seed,
            start: Instant::now(),
            viols: Mutex::new(BTreeMap::new()),
            findings: load_findings(&args.property),
            coverage: Mutex::new(serde_json::Map::new()),
            assumptions: Mutex::new(vec![]),
            level,
            samples: Mutex::new(vec![]),
        }
    }

    /// Record a violating case. `signature` classifies it (known findings are
    /// matched on it); the first case per signature is kept as the replay.
    pub fn violation(&self, signature: &str, what: &str, replay: Value) {
        let mut v = self.viols.lock().unwrap();
        let e = v.entry(signature.to_string()).or_insert_with(|| Viol {
            signature: signature.to_string(),
            what: what.to_string(),
            replay,
            count: 0,
        });
        e.count += 1;
    }

    pub fn violation_count(&self) -> u64 {
        self.viols.lock().unwrap().values().map(|v| v.count).sum()
    }

    pub fn sample(&self, v: Value) {
        let mut s = self.samples.lock().unwrap();
        if s.len() < 6 {
            s.push(v);
        }
    }

    pub fn set(&self, key: &str, v: Value) {
        self.coverage.lock().unwrap().insert(key.to_string(), v);
    }

    pub fn add(&self, key: &str, n: u64) {
        let mut c = self.coverage.lock().unwrap();
        let cur = c.get(key).and_then(|v| v.as_u64()).unwrap_or(0);
        c.insert(key.to_string(), json!(cur + n));
    }

    pub fn assume(&self, s: &str) {
        self.assumptions.lock().unwrap().push(s.to_string());
    }

    /// Write evidence, print verdict lines, return the exit code.
    pub fn finish(&self) -> i32 {
        let viols = self.viols.lock().unwrap();
        let mut new_viols = 0;
        let mut known = 0;
        let mut lines = vec![];
        let _ = std::fs::create_dir_all(format!("{}/replays", out_root()));
        for v in viols.values() {
            let open = self
                .findings
                .iter()
                .find(|f| f.status == "open" && glob_match(&f.signature, &v.signature));
            if let Some(f) = open {
                known += 1;
                lines.push(format!(
                    "KNOWN-FINDING: property={} {} [signature={} cases={}]",
                    self.property, f.what, v.signature, v.count
                ));
            } else {
                new_viols += 1;
                let h = fnv(v.signature.as_bytes());
                let path = format!("{}/replays/{}-{:016x}.json", out_root(), self.property, h);
                let body = json!({"property": self.property, "signature": v.signature, "what": v.what, "cases": v.count, "replay": v.replay});
                if let Err(e) = std::fs::write(&path, serde_json::to_string_pretty(&body).unwrap()) {
                    machinery_failure(&format!("cannot write replay {path}: {e}"));
                }
                lines.push(format!("VIOLATION property={} replay={} signature={} what={}", self.property, path, v.signature, v.what));
            }
        }
        let mut cov = self.coverage.lock().unwrap().clone();
        let samples = self.samples.lock().unwrap().clone();
        if !samples.is_empty() {
            cov.insert("samples".into(), Value::Array(samples));
        }
        cov.insert("violating_signatures_new".into(), json!(new_viols));
        cov.insert("violating_signatures_known".into(), json!(known));
        let ev = json!({
            "property_id": self.property,
            "tier": self.tier.as_str(),
            "seed": self.seed,
            "level": self.level,
            "coverage": Value::Object(cov),
            "assumptions": *self.assumptions.lock().unwrap(),
            "wall_s": self.start.elapsed().as_secs_f64(),
            "violations": new_viols,
        });
        let _ = std::fs::create_dir_all(format!("{}/evidence", out_root()));
        let path = format!("{}/evidence/{}.json", out_root(), self.property);
        if let Err(e) = std::fs::write(&path, serde_json::to_string_pretty(&ev).unwrap() + "\n") {
            machinery_failure(&format!("cannot write evidence {path}: {e}"));
        }
        for l in &lines {
            println!("{l}");
        }
        println!(
            "RESULT property={} tier={} new_violations={} known_findings={} wall_s={:.1}",
            self.property,
            self.tier.as_str(),
            new_viols,
            known,
            self.start.elapsed().as_secs_f64()
        );
        if new_viols > 0 { 1 } else { 0 }
    }
}

pub fn fnv(bytes: &[u8]) -> u64 {
    let mut h: u64 = 0xcbf29ce484222325;
    for b in bytes {
        h ^= *b as u64;
        h = h.wrapping_mul(0x100000001b3);
    }
    h
}

// ---------------------------------------------------------------------------
// panic containment

thread_local! {
    static LAST_PANIC: std::cell::RefCell<Option<(String, String)>> = const { std::cell::RefCell::new(None) };
}

/// Install a panic hook that records (message, innermost agdb frame) per
/// thread and prints nothing.
pub fn install_quiet_panic_hook() {
    std::panic::set_hook(Box::new(|info| {
        let msg = if let Some(s) = info.payload().downcast_ref::<&str>() {
            s.to_string()
        } else if let Some(s) = info.payload().downcast_ref::<String>() {
            s.clone()
        } else {
            "<non-string panic>".to_string()
        };
        let loc = info.location().map(|l| format!("{}:{}", l.file(), l.line())).unwrap_or_default();
        LAST_PANIC.with(|p| *p.borrow_mut() = Some((msg, loc)));
    }));
}

#[derive(Debug, Clone)]
pub struct Panicked {
    pub message: String,
    pub location: String,
}

impl Panicked {
    /// message with digits collapsed (so that sizes/indices do not split signatures)
    pub fn normalised(&self) -> String {
        normalise(&self.message)
    }
    /// file name of the panic location without line number
    pub fn file(&self) -> String {
        let f = self.location.rsplit_once(':').map(|x| x.0).unwrap_or(&self.location);
        f.rsplit('/').next().unwrap_or(f).to_string()
    }
}

pub fn normalise(s: &str) -> String {
    let mut out = String::new();
    let mut in_num = false;
    for c in s.chars() {
        if c.is_ascii_digit() {
            if !in_num {
                out.push('N');
                in_num = true;
            }
        } else {
            in_num = false;
            out.push(c);
        }
    }
    if out.len() > 120 {
        let mut cut = 120;
        while !out.is_char_boundary(cut) {
            cut -= 1;
        }
        out.truncate(cut);
    }
    out
}

pub fn catch<R>(f: impl FnOnce() -> R) -> Result<R, Panicked> {
    LAST_PANIC.with(|p| *p.borrow_mut() = None);
    match std::panic::catch_unwind(std::panic::AssertUnwindSafe(f)) {
        Ok(r) => Ok(r),
        Err(_) => {
            let (message, location) = LAST_PANIC.with(|p| p.borrow_mut().take()).unwrap_or_default();
            Err(Panicked { message, location })
        }
    }
}

// ---------------------------------------------------------------------------
// scratch directories

static SCRATCH_N: AtomicU64 = AtomicU64::new(0);

pub struct Scratch {
    pub dir: PathBuf,
}

impl Scratch {
    pub fn new(tag: &str) -> Self {
        let base = if Path::new("/dev/shm").is_dir() { PathBuf::from("/dev/shm") } else { std::env::temp_dir() };
        let n = SCRATCH_N.fetch_add(1, Ordering::SeqCst);
        let dir = base.join(format!("verif-{}-{}-{}", tag, std::process::id(), n));
        let _ = std::fs::remove_dir_all(&dir);
        std::fs::create_dir_all(&dir).unwrap_or_else(|e| machinery_failure(&format!("scratch dir: {e}")));
        Scratch { dir }
    }
    pub fn path(&self, name: &str) -> String {
        self.dir.join(name).to_string_lossy().to_string()
    }
    /// remove all files (not the directory)
    pub fn clear(&self) {
        if let Ok(rd) = std::fs::read_dir(&self.dir) {
            for e in rd.flatten() {
                let p = e.path();
                if p.is_dir() {
                    let _ = std::fs::remove_dir_all(&p);
                } else {
                    let _ = std::fs::remove_file(&p);
                }
            }
        }
    }
}

impl Drop for Scratch {
    fn drop(&mut self) {
        let _ = std::fs::remove_dir_all(&self.dir);
    }
}

// ---------------------------------------------------------------------------
// parallel work distribution (deterministic set of items; order of hand-out
// rotated by seed; results independent of order)

pub fn workers() -> usize {
    std::env::var("VERIF_JOBS").ok().and_then(|s| s.parse().ok()).unwrap_or_else(|| {
        std::thread::available_parallelism().map(|n| n.get()).unwrap_or(4)
    })
}

/// Run `f(worker_index, item_index)` for every item index in 0..n on all cores.
pub fn par_for(n: usize, seed: i64, f: impl Fn(usize, usize) + Sync) {
    let next = AtomicUsize::new(0);
    let w = workers().min(n.max(1));
    let rot = if n > 0 { (seed.unsigned_abs() as usize) % n } else { 0 };
    std::thread::scope(|s| {
        for wi in 0..w {
            let next = &next;
            let f = &f;
            s.spawn(move || {
                loop {
                    let i = next.fetch_add(1, Ordering::SeqCst);
                    if i >= n {
                        break;
                    }
                    f(wi, (i + rot) % n);
                }
            });
        }
    });
}

/// Thread-safe set of 64-bit hashes, used only to *count* distinct cases.
#[derive(Default)]
pub struct DistinctCounter {
    set: Mutex<std::collections::HashSet<u64>>,
}

impl DistinctCounter {
    pub fn insert(&self, bytes: &[u8]) -> bool {
        self.set.lock().unwrap().insert(fnv(bytes))
    }
    pub fn insert_hash(&self, h: u64) -> bool {
        self.set.lock().unwrap().insert(h)
    }
    pub fn len(&self) -> usize {
        self.set.lock().unwrap().len()
    }
    pub fn is_empty(&self) -> bool {
        self.len() == 0
    }
}

pub fn hex(bytes: &[u8]) -> String {
    bytes.iter().map(|b| format!("{b:02x}")).collect()
}

pub fn unhex(s: &str) -> Vec<u8> {
    (0..s.len() / 2).map(|i| u8::from_str_radix(&s[2 * i..2 * i + 2], 16).unwrap_or(0)).collect()
}

// ---------------------------------------------------------------------------
// allocation guard: records single requests above 256 MiB ("enormous
// allocation"); serves them if below 16 GiB (untouched zeroed memory is
// lazily mapped), refuses larger ones (the process then aborts, which the
// driver script reports as a machinery failure, never as a verdict).

pub struct GuardAlloc;

pub const ENORMOUS: usize = 256 << 20;
const REFUSE: usize = 16 << 30;

thread_local! {
    static ENORMOUS_SEEN: std::cell::Cell<usize> = const { std::cell::Cell::new(0) };
}

unsafe impl std::alloc::GlobalAlloc for GuardAlloc {
    unsafe fn alloc(&self, l: std::alloc::Layout) -> *mut u8 {
        if l.size() >= ENORMOUS {
            let _ = ENORMOUS_SEEN.try_with(|c| c.set(c.get().max(l.size())));
            if l.size() >= REFUSE {
                return std::ptr::null_mut();
            }
        }
        unsafe { std::alloc::System.alloc(l) }
    }
    unsafe fn dealloc(&self, p: *mut u8, l: std::alloc::Layout) {
        unsafe { std::alloc::System.dealloc(p, l) }
    }
    unsafe fn alloc_zeroed(&self, l: std::alloc::Layout) -> *mut u8 {
        if l.size() >= ENORMOUS {
            let _ = ENORMOUS_SEEN.try_with(|c| c.set(c.get().max(l.size())));
            if l.size() >= REFUSE {
                return std::ptr::null_mut();
            }
        }
        unsafe { std::alloc::System.alloc_zeroed(l) }
    }
    unsafe fn realloc(&self, p: *mut u8, l: std::alloc::Layout, n: usize) -> *mut u8 {
        if n >= ENORMOUS {
            let _ = ENORMOUS_SEEN.try_with(|c| c.set(c.get().max(n)));
            if n >= REFUSE {
                return std::ptr::null_mut();
            }
        }
        unsafe { std::alloc::System.realloc(p, l, n) }
    }
}

/// Largest single allocation request >= 256 MiB made by this thread since the last call.
pub fn take_enormous_allocation() -> Option<usize> {
    let n = ENORMOUS_SEEN.with(|c| c.replace(0));
    if n > 0 { Some(n) } else { None }
}

// ---------------------------------------------------------------------------
// child-process isolation: a sweep whose subject can abort the process (failed
// enormous allocation, stack overflow) runs its items in worker processes. A
// worker that dies is charged to the item it was processing (a violation),
// and a new worker continues after it. Never a machinery failure.

pub struct ChildCtl {
    pub w: usize,
    pub nw: usize,
    pub from: usize,
    pub out: String,
}

/// `--child <w> <nw> <from> <outfile>` among the extra arguments
pub fn child_ctl(args: &Args) -> Option<ChildCtl> {
    let p = args.extra.iter().position(|a| a == "--child")?;
    let g = |k: usize| args.extra.get(p + k).cloned().unwrap_or_default();
    Some(ChildCtl { w: g(1).parse().ok()?, nw: g(2).parse().ok()?, from: g(3).parse().ok()?, out: g(4) })
}

impl ChildCtl {
    /// items of this worker, in order
    pub fn items(&self, n: usize) -> impl Iterator<Item = usize> {
        (self.from..n).filter(move |i| i % self.nw == self.w)
    }
    pub fn mark(&self, item: usize) {
        let _ = std::fs::write(format!("{}.item", self.out), item.to_string());
    }
}

impl Report {
    /// cumulative state of a worker process
    pub fn export_to(&self, path: &str) {
        let viols: Vec<Value> = self.viols.lock().unwrap().values().map(|v| json!({"signature": v.signature, "what": v.what, "replay": v.replay, "count": v.count})).collect();
        let body = json!({"violations": viols, "coverage": Value::Object(self.coverage.lock().unwrap().clone()), "samples": *self.samples.lock().unwrap()});
        let tmp = format!("{path}.tmp");
        if std::fs::write(&tmp, body.to_string()).is_ok() {
            let _ = std::fs::rename(&tmp, path);
        }
    }
    /// merge a worker's exported state: violation counts and numeric coverage keys are summed
    pub fn import_from(&self, path: &str) {
        let Ok(text) = std::fs::read_to_string(path) else { return };
        let Ok(v) = serde_json::from_str::<Value>(&text) else { return };
        for x in v["violations"].as_array().cloned().unwrap_or_default() {
            let n = x["count"].as_u64().unwrap_or(1);
            let mut m = self.viols.lock().unwrap();
            let e = m.entry(x["signature"].as_str().unwrap_or("").to_string()).or_insert_with(|| Viol { signature: x["signature"].as_str().unwrap_or("").to_string(), what: x["what"].as_str().unwrap_or("").to_string(), replay: x["replay"].clone(), count: 0 });
            e.count += n;
        }
        if let Some(c) = v["coverage"].as_object() {
            for (k, val) in c {
                if let Some(n) = val.as_u64() {
                    self.add(k, n);
                }
            }
        }
        for s in v["samples"].as_array().cloned().unwrap_or_default() {
            self.sample(s);
        }
    }
}

/// Parent side: runs `n` items in worker processes (`current_exe <property> --tier <t> --child ...`).
/// `on_death(item, status)` must record the violation for the item a worker died on.
pub fn run_children(args: &Args, n: usize, report: &Report, on_death: &(dyn Fn(usize, String) + Sync)) {
    let exe = std::env::current_exe().unwrap_or_else(|e| machinery_failure(&format!("current_exe: {e}")));
    let nw = workers().min(n.max(1));
    let scratch = Scratch::new("children");
    std::thread::scope(|s| {
        for w in 0..nw {
            let exe = exe.clone();
            let scratch = &scratch;
            s.spawn(move || {
                let mut from = 0usize;
                let mut round = 0;
                loop {
                    round += 1;
                    let out = scratch.path(&format!("w{w}_{round}.json"));
                    let st = std::process::Command::new(&exe)
                        .arg(&args.property)
                        .args(["--tier", args.tier.as_str(), "--child", &w.to_string(), &nw.to_string(), &from.to_string(), &out])
                        .stdout(std::process::Stdio::null())
                        .stderr(std::process::Stdio::null())
                        .status();
                    report.import_from(&out);
                    match st {
                        Ok(s) if s.success() => break,
                        Ok(s) => {
                            let item = std::fs::read_to_string(format!("{out}.item")).ok().and_then(|t| t.trim().parse::<usize>().ok());
                            match item {
                                Some(i) => {
                                    on_death(i, format!("{s}"));
                                    from = i + 1;
                                    if from >= n {
                                        break;
                                    }
                                }
                                None => machinery_failure(&format!("worker process {w} died before its first item: {s}")),
                            }
                        }
                        Err(e) => machinery_failure(&format!("cannot start worker process: {e}")),
                    }
                }
            });
        }
    });
}

/// Runs `n` work items either in this process (we are a worker: `--child`) or, as the
/// parent, in worker processes. Returns true if this process was a worker (the caller
/// then returns exit code 0 without finishing the report).
/// `counts(report)` must `report.set(..)` every numeric counter of the check from the
/// process-local atomics; the parent sums them over the workers.
pub fn run_items_isolated(
    args: &Args,
    report: &Report,
    n: usize,
    run_item: &(dyn Fn(usize) + Sync),
    counts: &(dyn Fn(&Report) + Sync),
    describe: &(dyn Fn(usize) -> (String, String, Value) + Sync),
) -> bool {
    if let Some(ctl) = child_ctl(args) {
        for i in ctl.items(n) {
            ctl.mark(i);
            run_item(i);
            counts(report);
            report.export_to(&ctl.out);
        }
        counts(report);
        report.export_to(&ctl.out);
        return true;
    }
    run_children(args, n, report, &|i, status| {
        let (sig, what, replay) = describe(i);
        report.violation(&format!("{sig}|process-died"), &format!("{what}: the process died ({status}): abort / failed enormous allocation / stack overflow"), replay);
    });
    false
}

/// Runs the whole check in one child process (same arguments) so that a subject
/// that aborts the process (failed enormous allocation, stack overflow) is reported
/// as a violation of the property instead of killing the check. Returns `None` when
/// this process is that child (or a `--child` worker): the caller runs the check.
pub fn run_whole_in_child(args: &Args, level: &'static str) -> Option<i32> {
    if std::env::var("VERIF_WHOLE_CHILD").is_ok() || child_ctl(args).is_some() {
        if std::env::var("VERIF_SELFTEST_ABORT").is_ok() {
            std::process::abort(); // self-test of the reporting path below
        }
        return None;
    }
    let exe = std::env::current_exe().unwrap_or_else(|e| machinery_failure(&format!("current_exe: {e}")));
    let st = std::process::Command::new(&exe)
        .args(std::env::args().skip(1))
        .env("VERIF_WHOLE_CHILD", "1")
        .status()
        .unwrap_or_else(|e| machinery_failure(&format!("cannot start the check process: {e}")));
    match st.code() {
        Some(c) if c != 134 => Some(c),
        _ => {
            let report = Report::new(args, level);
            report.violation(
                "whole-check|process-died",
                &format!("the check process died ({st}) while exploring: abort / failed enormous allocation / stack overflow in the subject"),
                json!({"kind": "process-died", "status": format!("{st}"), "args": std::env::args().skip(1).collect::<Vec<_>>()}),
            );
            Some(report.finish())
        }
    }
}
