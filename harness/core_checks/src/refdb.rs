//! Reference model of the database ("RefDb": an abstract directed multigraph
//! with per-element ordered key-value maps, an alias bijection and an index
//! set) and the command language shared by C08-C11 and C18.
//! Semantics follow the property statements and docs/03.references/01.queries.md.
//! Element ids are learned from the implementation's answers and constrained
//! (sign, freshness), never predicted.

use crate::dbops::*;
use agdb::{DbKeyValue, DbValue, QueryId, QueryResult};
use std::collections::{BTreeMap, BTreeSet};

#[derive(Clone, Debug, PartialEq)]
pub enum Q {
    Id(i64),
    Al(&'static str),
}

impl Q {
    fn qid(&self) -> QueryId {
        match self {
            Q::Id(i) => id(*i),
            Q::Al(a) => al(a),
        }
    }
}

pub type KV = (&'static str, i64);

#[derive(Clone, Debug, PartialEq)]
pub enum Vals {
    None,
    Uniform(Vec<KV>),
    Multi(Vec<Vec<KV>>),
}

#[derive(Clone, Debug, PartialEq)]
pub enum Cmd {
    InsertNodes(u64),
    InsertNodesAliases(Vec<&'static str>),
    InsertNodesValues(Vec<&'static str>, Vec<Vec<KV>>),
    InsertNodesIds(Vec<Q>, Vec<Vec<KV>>),
    InsertEdges { from: Vec<Q>, to: Vec<Q>, each: bool, values: Vals },
    InsertEdgesIdsOfNode(Q, Vec<KV>), // insert-or-update of the edges reachable from a node, uniform values via ids(search)
    InsertValues(Vec<Q>, Vals),
    InsertValuesSearchFrom(Q, Vec<KV>),
    InsertAliases(Vec<&'static str>, Vec<Q>),
    Remove(Vec<Q>),
    RemoveSearchEdgesFrom(Q),
    RemoveAliases(Vec<&'static str>),
    RemoveValues(Vec<&'static str>, Vec<Q>),
    InsertIndex(&'static str),
    RemoveIndex(&'static str),
    Tx(Vec<Cmd>, bool),
}

fn kvs(v: &[KV]) -> Vec<DbKeyValue> {
    v.iter().map(|(k, x)| (*k, *x).into()).collect()
}

impl Cmd {
    pub fn name(&self) -> String {
        format!("{self:?}")
    }
    pub fn kind(&self) -> &'static str {
        match self {
            Cmd::InsertNodes(_) | Cmd::InsertNodesAliases(_) | Cmd::InsertNodesValues(..) => "insert_nodes",
            Cmd::InsertNodesIds(..) => "insert_nodes_ids",
            Cmd::InsertEdges { .. } => "insert_edges",
            Cmd::InsertEdgesIdsOfNode(..) => "insert_edges_ids",
            Cmd::InsertValues(..) | Cmd::InsertValuesSearchFrom(..) => "insert_values",
            Cmd::InsertAliases(..) => "insert_aliases",
            Cmd::Remove(_) | Cmd::RemoveSearchEdgesFrom(_) => "remove",
            Cmd::RemoveAliases(_) => "remove_aliases",
            Cmd::RemoveValues(..) => "remove_values",
            Cmd::InsertIndex(_) => "insert_index",
            Cmd::RemoveIndex(_) => "remove_index",
            Cmd::Tx(_, f) => {
                if *f {
                    "tx_abort"
                } else {
                    "tx_commit"
                }
            }
        }
    }
    fn mq(&self) -> Option<MQ> {
        Some(match self {
            Cmd::InsertNodes(n) => q::nodes_count(*n),
            Cmd::InsertNodesAliases(a) => q::nodes_aliases(a),
            Cmd::InsertNodesValues(a, v) => {
                let v: Vec<Vec<DbKeyValue>> = v.iter().map(|x| kvs(x)).collect();
                if a.is_empty() { q::nodes_values(v) } else { q::nodes_aliases_values(a, v) }
            }
            Cmd::InsertNodesIds(ids, v) => q::nodes_ids_values(ids.iter().map(|q| q.qid()).collect(), v.iter().map(|x| kvs(x)).collect()),
            Cmd::InsertEdges { from, to, each, values } => {
                let f: Vec<QueryId> = from.iter().map(|q| q.qid()).collect();
                let t: Vec<QueryId> = to.iter().map(|q| q.qid()).collect();
                use agdb::QueryBuilder as B;
                MQ::InsertEdges(match (each, values) {
                    (false, Vals::None) => B::insert().edges().from(f).to(t).query(),
                    (true, Vals::None) => B::insert().edges().from(f).to(t).each().query(),
                    (false, Vals::Uniform(v)) => B::insert().edges().from(f).to(t).values_uniform(kvs(v)).query(),
                    (true, Vals::Uniform(v)) => B::insert().edges().from(f).to(t).each().values_uniform(kvs(v)).query(),
                    (false, Vals::Multi(v)) => B::insert().edges().from(f).to(t).values(v.iter().map(|x| kvs(x)).collect::<Vec<_>>()).query(),
                    (true, Vals::Multi(v)) => B::insert().edges().from(f).to(t).each().values(v.iter().map(|x| kvs(x)).collect::<Vec<_>>()).query(),
                })
            }
            Cmd::InsertEdgesIdsOfNode(n, v) => {
                use agdb::QueryBuilder as B;
                MQ::InsertEdges(B::insert().edges().ids(B::search().from(n.qid()).where_().edge().query()).from(Vec::<QueryId>::new()).to(Vec::<QueryId>::new()).values_uniform(kvs(v)).query())
            }
            Cmd::InsertValues(ids, Vals::Uniform(v)) => q::values_uniform(ids.iter().map(|q| q.qid()).collect(), kvs(v)),
            Cmd::InsertValues(ids, Vals::Multi(v)) => q::values(ids.iter().map(|q| q.qid()).collect(), v.iter().map(|x| kvs(x)).collect()),
            Cmd::InsertValues(ids, Vals::None) => q::values_uniform(ids.iter().map(|q| q.qid()).collect(), vec![]),
            Cmd::InsertValuesSearchFrom(n, v) => q::values_uniform_search_from(n.qid(), kvs(v)),
            Cmd::InsertAliases(a, ids) => q::aliases(a, ids.iter().map(|q| q.qid()).collect()),
            Cmd::Remove(ids) => q::remove(ids.iter().map(|q| q.qid()).collect()),
            Cmd::RemoveSearchEdgesFrom(n) => q::remove_search_edges_from(n.qid()),
            Cmd::RemoveAliases(a) => q::remove_aliases(a),
            Cmd::RemoveValues(keys, ids) => q::remove_values(keys.iter().map(|k| (*k).into()).collect(), ids.iter().map(|q| q.qid()).collect()),
            Cmd::InsertIndex(k) => q::index(*k),
            Cmd::RemoveIndex(k) => q::remove_index(*k),
            Cmd::Tx(..) => return None,
        })
    }
    pub fn step(&self) -> Step {
        match self {
            Cmd::Tx(cmds, fail) => Step::Tx(cmds.iter().map(|c| c.mq().expect("nested tx")).collect(), *fail),
            c => Step::Q(c.mq().unwrap()),
        }
    }
}

#[derive(Clone, Debug, Default, PartialEq)]
pub struct RefDb {
    pub nodes: BTreeSet<i64>,
    pub edges: BTreeMap<i64, (i64, i64)>,
    /// (key, value) in map order; `ordered` false once a key was removed from the element
    pub values: BTreeMap<i64, (Vec<(String, i64)>, bool)>,
    pub aliases: BTreeMap<String, i64>,
    pub indexes: BTreeSet<String>,
}

pub struct Reject(pub String);

type R<T> = Result<T, Reject>;

fn rej<T>(s: &str) -> R<T> {
    Err(Reject(s.to_string()))
}

/// ids the implementation reported for elements it created/touched, consumed in order
pub struct Learned<'a> {
    ids: Vec<i64>,
    pos: usize,
    pub problems: &'a mut Vec<String>,
}

impl<'a> Learned<'a> {
    pub fn new(r: Option<&QueryResult>, problems: &'a mut Vec<String>) -> Self {
        Learned { ids: r.map(|r| r.elements.iter().map(|e| e.id.0).collect()).unwrap_or_default(), pos: 0, problems }
    }
    fn next(&mut self) -> Option<i64> {
        let r = self.ids.get(self.pos).copied();
        self.pos += 1;
        r
    }
}

impl RefDb {
    pub fn exists(&self, i: i64) -> bool {
        self.nodes.contains(&i) || self.edges.contains_key(&i)
    }
    fn resolve(&self, q: &Q) -> Option<i64> {
        match q {
            Q::Id(i) => self.exists(*i).then_some(*i),
            Q::Al(a) => self.aliases.get(*a).copied(),
        }
    }
    fn new_node(&mut self, l: &mut Learned) -> i64 {
        match l.next() {
            Some(i) => {
                if i <= 0 {
                    l.problems.push(format!("new node received the non-positive id {i}"));
                }
                if self.exists(i) || self.exists(-i) {
                    l.problems.push(format!("new node received id {i} whose slot is in use"));
                }
                self.nodes.insert(i);
                self.values.insert(i, (vec![], true));
                i
            }
            None => {
                l.problems.push("result lists fewer elements than were created".into());
                // keep the model going with a private id
                let i = 1_000_000 + self.nodes.len() as i64;
                self.nodes.insert(i);
                self.values.insert(i, (vec![], true));
                i
            }
        }
    }
    fn new_edge(&mut self, from: i64, to: i64, l: &mut Learned) -> i64 {
        let i = match l.next() {
            Some(i) => {
                if i >= 0 {
                    l.problems.push(format!("new edge received the non-negative id {i}"));
                }
                if self.exists(i) || self.exists(-i) {
                    l.problems.push(format!("new edge received id {i} whose slot is in use"));
                }
                i
            }
            None => {
                l.problems.push("result lists fewer elements than were created".into());
                -(1_000_000 + self.edges.len() as i64)
            }
        };
        self.edges.insert(i, (from, to));
        self.values.insert(i, (vec![], true));
        i
    }
    fn amend(&mut self, i: i64, kv: &[KV]) {
        let e = self.values.entry(i).or_insert((vec![], true));
        for (k, v) in kv {
            if let Some(p) = e.0.iter_mut().find(|p| p.0 == *k) {
                p.1 = *v; // replaced in place
            } else {
                e.0.push((k.to_string(), *v)); // appended
            }
        }
    }
    fn remove_element(&mut self, i: i64) {
        if self.nodes.remove(&i) {
            let dead: Vec<i64> = self.edges.iter().filter(|(_, (f, t))| *f == i || *t == i).map(|(e, _)| *e).collect();
            for e in dead {
                self.edges.remove(&e);
                self.values.remove(&e);
            }
            self.aliases.retain(|_, n| *n != i);
        } else {
            self.edges.remove(&i);
        }
        self.values.remove(&i);
    }
    /// elements reachable from node `n` following edge direction (nodes and edges)
    pub fn reachable_from(&self, n: i64) -> BTreeSet<i64> {
        let mut seen = BTreeSet::new();
        let mut stack = vec![n];
        while let Some(x) = stack.pop() {
            if !seen.insert(x) {
                continue;
            }
            if x > 0 {
                for (e, (f, _)) in &self.edges {
                    if *f == x {
                        stack.push(*e);
                    }
                }
            } else if let Some((_, t)) = self.edges.get(&x) {
                stack.push(*t);
            }
        }
        seen
    }

    /// Applies the command to a copy and commits it only if the model accepts it.
    /// `results`: the implementation's per-query results (None if it failed).
    pub fn apply(&mut self, c: &Cmd, results: Option<&[QueryResult]>, problems: &mut Vec<String>) -> R<()> {
        let mut copy = self.clone();
        match c {
            Cmd::Tx(cmds, fail) => {
                for (i, c) in cmds.iter().enumerate() {
                    let r = results.and_then(|r| r.get(i));
                    let mut l = Learned::new(r, problems);
                    copy.apply_one(c, &mut l)?;
                }
                if *fail {
                    return rej("transaction aborted by the closure");
                }
            }
            c => {
                let mut l = Learned::new(results.and_then(|r| r.first()), problems);
                copy.apply_one(c, &mut l)?;
            }
        }
        *self = copy;
        Ok(())
    }

    fn apply_one(&mut self, c: &Cmd, l: &mut Learned) -> R<()> {
        match c {
            Cmd::InsertNodes(n) => {
                for _ in 0..*n {
                    self.new_node(l);
                }
            }
            Cmd::InsertNodesAliases(aliases) => {
                if aliases.iter().any(|a| a.is_empty()) {
                    return rej("empty alias");
                }
                for a in aliases {
                    if let Some(i) = self.aliases.get(*a).copied() {
                        if l.next() != Some(i) {
                            l.problems.push(format!("insert nodes with existing alias {a} did not report node {i}"));
                        }
                    } else {
                        let i = self.new_node(l);
                        self.aliases.insert(a.to_string(), i);
                    }
                }
            }
            Cmd::InsertNodesValues(aliases, values) => {
                if aliases.iter().any(|a| a.is_empty()) {
                    return rej("empty alias");
                }
                if values.len() < aliases.len() {
                    return rej("fewer values than aliases");
                }
                for (n, kv) in values.iter().enumerate() {
                    match aliases.get(n) {
                        Some(a) if self.aliases.contains_key(*a) => {
                            let i = self.aliases[*a];
                            if l.next() != Some(i) {
                                l.problems.push(format!("insert nodes with existing alias {a} did not report node {i}"));
                            }
                            self.amend(i, kv);
                        }
                        other => {
                            let i = self.new_node(l);
                            if let Some(a) = other {
                                self.aliases.insert(a.to_string(), i);
                            }
                            self.amend(i, kv);
                        }
                    }
                }
            }
            Cmd::InsertNodesIds(ids, values) => {
                let mut t = vec![];
                for q in ids {
                    match self.resolve(q) {
                        Some(i) if i > 0 => t.push(i),
                        Some(_) => return rej("edge id in insert-or-update of nodes"),
                        None => return rej("missing id"),
                    }
                }
                if t.len() != values.len() {
                    return rej("values do not match ids");
                }
                for (i, kv) in t.iter().zip(values) {
                    self.amend(*i, kv);
                }
            }
            Cmd::InsertEdges { from, to, each, values } => {
                let mut f = vec![];
                let mut t = vec![];
                for q in from {
                    match self.resolve(q) {
                        Some(i) if i > 0 => f.push(i),
                        _ => return rej("edge origin missing or not a node"),
                    }
                }
                for q in to {
                    match self.resolve(q) {
                        Some(i) if i > 0 => t.push(i),
                        _ => return rej("edge destination missing or not a node"),
                    }
                }
                let pairs: Vec<(i64, i64)> = if *each || f.len() != t.len() { f.iter().flat_map(|a| t.iter().map(move |b| (*a, *b))).collect() } else { f.iter().copied().zip(t.iter().copied()).collect() };
                if let Vals::Multi(v) = values {
                    if v.len() != pairs.len() {
                        return rej("values do not match edge count");
                    }
                }
                for (n, (a, b)) in pairs.iter().enumerate() {
                    let e = self.new_edge(*a, *b, l);
                    match values {
                        Vals::None => {}
                        Vals::Uniform(kv) => self.amend(e, kv),
                        Vals::Multi(v) => self.amend(e, &v[n]),
                    }
                }
            }
            Cmd::InsertEdgesIdsOfNode(n, kv) => {
                let Some(n) = self.resolve(n) else { return rej("missing search origin") };
                if n < 0 {
                    return rej("SKIP: not used with edge origins");
                }
                let es: Vec<i64> = self.reachable_from(n).into_iter().filter(|x| *x < 0).collect();
                if es.is_empty() {
                    return rej("SKIP: empty id list means plain insert (not modelled)");
                }
                for e in es {
                    self.amend(e, kv);
                }
            }
            Cmd::InsertValues(ids, values) => {
                if let Vals::Multi(v) = values {
                    if v.len() != ids.len() {
                        return rej("values do not match ids");
                    }
                }
                for (n, q) in ids.iter().enumerate() {
                    let kv: &[KV] = match values {
                        Vals::None => &[],
                        Vals::Uniform(kv) => kv,
                        Vals::Multi(v) => &v[n],
                    };
                    match (self.resolve(q), q) {
                        (Some(i), _) => self.amend(i, kv),
                        (None, Q::Id(0)) => {
                            let i = self.new_node(l);
                            self.amend(i, kv);
                        }
                        (None, Q::Id(_)) => return rej("missing id"),
                        (None, Q::Al(a)) => {
                            if a.is_empty() {
                                return rej("empty alias");
                            }
                            let i = self.new_node(l);
                            self.aliases.insert(a.to_string(), i);
                            self.amend(i, kv);
                        }
                    }
                }
            }
            Cmd::InsertValuesSearchFrom(n, kv) => {
                let Some(n) = self.resolve(n) else { return rej("missing search origin") };
                if n < 0 {
                    return rej("SKIP: not used with edge origins");
                }
                for e in self.reachable_from(n) {
                    self.amend(e, kv);
                }
            }
            Cmd::InsertAliases(aliases, ids) => {
                if aliases.len() != ids.len() {
                    return rej("aliases do not match ids");
                }
                for (a, q) in aliases.iter().zip(ids) {
                    if a.is_empty() {
                        return rej("empty alias");
                    }
                    match self.resolve(q) {
                        Some(i) if i > 0 => {
                            self.aliases.retain(|_, n| *n != i); // the node's previous alias is replaced
                            self.aliases.insert(a.to_string(), i); // taken from any node that held it
                        }
                        Some(_) => return rej("alias for an edge"),
                        None => return rej("missing id"),
                    }
                }
            }
            Cmd::Remove(ids) => {
                for q in ids {
                    if let Some(i) = self.resolve(q) {
                        self.remove_element(i);
                    }
                }
            }
            Cmd::RemoveSearchEdgesFrom(n) => {
                let Some(n) = self.resolve(n) else { return rej("missing search origin") };
                if n < 0 {
                    return rej("SKIP: not used with edge origins");
                }
                for e in self.reachable_from(n).into_iter().filter(|x| *x < 0) {
                    self.remove_element(e);
                }
            }
            Cmd::RemoveAliases(a) => {
                for a in a {
                    self.aliases.remove(*a);
                }
            }
            Cmd::RemoveValues(keys, ids) => {
                let mut t = vec![];
                for q in ids {
                    match self.resolve(q) {
                        Some(i) => t.push(i),
                        None => return rej("missing id"),
                    }
                }
                for i in t {
                    if let Some(e) = self.values.get_mut(&i) {
                        let before = e.0.len();
                        e.0.retain(|(k, _)| !keys.contains(&k.as_str()));
                        if e.0.len() != before {
                            e.1 = false; // the relative order of the survivors is not specified
                        }
                    }
                }
            }
            Cmd::InsertIndex(k) => {
                if !self.indexes.insert(k.to_string()) {
                    return rej("index exists");
                }
            }
            Cmd::RemoveIndex(k) => {
                self.indexes.remove(*k);
            }
            Cmd::Tx(..) => return rej("nested transaction"),
        }
        Ok(())
    }

    // ---- expected observations

    pub fn element_ids(&self) -> Vec<i64> {
        let mut v: Vec<i64> = self.nodes.iter().copied().chain(self.edges.keys().copied()).collect();
        v.sort_by_key(|i| i.abs());
        v
    }
    pub fn edge_counts(&self, n: i64) -> (u64, u64, u64) {
        let from = self.edges.values().filter(|(f, _)| *f == n).count() as u64;
        let to = self.edges.values().filter(|(_, t)| *t == n).count() as u64;
        (from + to, from, to)
    }
    pub fn index_hit(&self, k: &str, v: i64) -> Option<BTreeSet<i64>> {
        if !self.indexes.contains(k) {
            return None;
        }
        Some(self.values.iter().filter(|(_, (kv, _))| kv.iter().any(|(k2, v2)| k2 == k && *v2 == v)).map(|(i, _)| *i).collect())
    }
    pub fn index_count(&self, k: &str) -> u64 {
        self.values.values().filter(|(kv, _)| kv.iter().any(|(k2, _)| k2 == k)).count() as u64
    }
}

pub fn dbv(k: &str) -> DbValue {
    k.into()
}
