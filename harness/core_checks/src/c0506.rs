//! C05 — reopening and maintenance operations preserve the database.
//! C06 — all storage variants give identical query results.
//! Bounded-exhaustive history enumeration with differential oracles; DESIGN.md §4.

use crate::dbops::*;
use agdb::{DbError, QueryResult};
use engine::{Args, DistinctCounter, Report, Scratch, catch};
use serde_json::{Value, json};
use std::sync::atomic::{AtomicU64, Ordering};

pub type Hist = Vec<usize>; // indexes into alphabet_h()

pub struct World {
    pub alpha: Vec<Named>,
    pub bases: Vec<(&'static str, Vec<Step>)>,
    /// base states are built once (with DbFile, then closed) and copied per history
    base_files: Vec<Option<String>>,
    _scratch: Scratch,
}

impl World {
    pub fn new() -> Self {
        let scratch = Scratch::new("bases");
        let bases = base_states();
        let mut base_files = vec![];
        for (i, (name, script)) in bases.iter().enumerate() {
            if script.is_empty() || name.starts_with("live_") {
                base_files.push(None); // built by replaying the script on the opened database
                continue;
            }
            let path = scratch.path(&format!("base{i}.agdb"));
            let mut db = Variant::File.open(&path).unwrap_or_else(|e| engine::machinery_failure(&format!("base {name}: {}", e.description)));
            for s in script {
                if let Err(e) = s.run(db.as_mut()) {
                    engine::machinery_failure(&format!("base {name}: script step failed: {}", e.description));
                }
            }
            drop(db);
            base_files.push(Some(path));
        }
        World { alpha: alphabet_h(), bases, base_files, _scratch: scratch }
    }
    /// Copies the prepared base file (if the base has one) to `path`; returns the
    /// script that still has to be replayed on the opened database (live bases).
    pub fn stage_base(&self, path: &str, base: usize) -> Result<&[Step], String> {
        match &self.base_files[base] {
            Some(f) => {
                std::fs::copy(f, path).map_err(|e| format!("copy base file: {e}"))?;
                Ok(&[])
            }
            None => Ok(&self.bases[base].1),
        }
    }
    /// Opens `variant` on a private copy of the prepared base state.
    pub fn open_base(&self, variant: Variant, path: &str, base: usize) -> Result<Box<dyn DbLike>, String> {
        if let Some(f) = &self.base_files[base] {
            std::fs::copy(f, path).map_err(|e| format!("copy base file: {e}"))?;
        }
        let mut db = variant.open(path).map_err(|e| format!("open: {}", e.description))?;
        if self.base_files[base].is_none() {
            for s in &self.bases[base].1 {
                s.run(db.as_mut()).map_err(|e| format!("base script failed: {}", e.description))?;
            }
        }
        Ok(db)
    }
    pub fn replay_json(&self, base: usize, hist: &[usize], extra: Value) -> Value {
        json!({"base": self.bases[base].0, "history": hist.iter().map(|i| self.alpha[*i].0).collect::<Vec<_>>(), "detail": extra})
    }
    pub fn parse_replay(&self, r: &Value) -> (usize, Hist) {
        let base = self.bases.iter().position(|b| Some(b.0) == r["base"].as_str()).unwrap_or_else(|| engine::machinery_failure("replay: unknown base"));
        let hist = r["history"].as_array().unwrap().iter().map(|n| self.alpha.iter().position(|a| Some(a.0) == n.as_str()).unwrap_or_else(|| engine::machinery_failure("replay: unknown step"))).collect();
        (base, hist)
    }
}

pub fn res_string(r: &Result<Vec<QueryResult>, DbError>) -> String {
    match r {
        Ok(v) => format!("Ok({v:?})"),
        Err(e) => format!("Err({})", e.description),
    }
}

/// Opens `variant` at `path` and replays base script + history; returns the
/// db and the result strings of the history steps.
pub fn build(w: &World, variant: Variant, path: &str, base: usize, hist: &[usize]) -> Result<(Box<dyn DbLike>, Vec<String>), String> {
    let mut db = w.open_base(variant, path, base)?;
    let mut out = vec![];
    for i in hist {
        out.push(res_string(&w.alpha[*i].1.run(db.as_mut())));
    }
    Ok((db, out))
}

fn all_histories(n: usize, depth: usize) -> Vec<Hist> {
    let mut out: Vec<Hist> = vec![vec![]];
    let mut level: Vec<Hist> = vec![vec![]];
    for _ in 0..depth {
        let mut next = vec![];
        for h in &level {
            for a in 0..n {
                let mut h2 = h.clone();
                h2.push(a);
                next.push(h2);
            }
        }
        out.extend(next.iter().cloned());
        level = next;
    }
    out
}

// ---------------------------------------------------------------------------
// C06

pub fn run_c06(args: &Args) -> i32 {
    let report = Report::new(args, "model_checking");
    let w = World::new();
    let depth: usize = std::env::var("VERIF_C06_DEPTH").ok().and_then(|s| s.parse().ok()).unwrap_or(args.tier.pick(2, 3));
    let states = DistinctCounter::default();
    let outcomes = DistinctCounter::default();
    let transitions = AtomicU64::new(0);
    let traces = AtomicU64::new(0);

    let check = |base: usize, hist: &Hist, scratch: &Scratch| {
        scratch.clear();
        traces.fetch_add(1, Ordering::Relaxed);
        let mut dbs: Vec<(Variant, Box<dyn DbLike>)> = vec![];
        for (n, v) in ALL_VARIANTS.iter().enumerate() {
            let path = scratch.path(&format!("v{n}.agdb"));
            match catch(|| w.open_base(*v, &path, base)) {
                Ok(Ok(db)) => dbs.push((*v, db)),
                Ok(Err(e)) => {
                    report.violation(&format!("variant={}|open-failed", v.name()), &e, w.replay_json(base, hist, json!(null)));
                    return;
                }
                Err(p) => {
                    report.violation(&format!("variant={}|open-panic|{}", v.name(), p.normalised()), &p.message, w.replay_json(base, hist, json!(null)));
                    return;
                }
            }
        }
        // step 0 is a no-op step so that the empty history also gets its dump compared
        let noop = Step::Tx(vec![], false);
        let steps: Vec<(String, &Step)> = std::iter::once(("open".to_string(), &noop)).chain(hist.iter().map(|i| (w.alpha[*i].0.to_string(), &w.alpha[*i].1))).collect();
        for (si, (name, step)) in steps.iter().enumerate() {
            let mut first: Option<(String, String)> = None;
            for (v, db) in dbs.iter_mut() {
                transitions.fetch_add(1, Ordering::Relaxed);
                let last = si + 1 == steps.len();
                let r = catch(|| {
                    let r = step.run(db.as_mut());
                    // the state is dumped after the last step only: every shorter history is enumerated on its own
                    let d = if last { dump(db.as_ref(), true).map(|d| d.ordered()).unwrap_or_else(|e| format!("DUMP-ERROR {e}")) } else { String::new() };
                    (res_string(&r), d)
                });
                let (rs, ds) = match r {
                    Ok(x) => x,
                    Err(p) => {
                        report.violation(&format!("step={}|variant={}|panic|{}|{}", step.kind(), v.name(), p.file(), p.normalised()), &format!("panic: {} at {}", p.message, p.location), w.replay_json(base, hist, json!({"step": si, "name": name})));
                        return;
                    }
                };
                if ds.starts_with("DUMP-ERROR") {
                    report.violation(&format!("step={}|variant={}|dump-failed", step.kind(), v.name()), &ds, w.replay_json(base, hist, json!({"step": si, "name": name})));
                    return;
                }
                match &first {
                    None => {
                        outcomes.insert(rs.as_bytes());
                        states.insert(ds.as_bytes());
                        first = Some((rs, ds));
                    }
                    Some((r0, d0)) => {
                        if *r0 != rs {
                            report.violation(
                                &format!("step={}|variant={}|result-differs", step.kind(), v.name()),
                                &format!("{} returned {} but {} returned {}", ALL_VARIANTS[0].name(), r0, v.name(), rs),
                                w.replay_json(base, hist, json!({"step": si, "name": name, "variant": v.name()})),
                            );
                            return;
                        }
                        if *d0 != ds {
                            report.violation(
                                &format!("step={}|variant={}|state-differs", step.kind(), v.name()),
                                &format!("observable state after the step differs between {} and {}", ALL_VARIANTS[0].name(), v.name()),
                                w.replay_json(base, hist, json!({"step": si, "name": name, "variant": v.name()})),
                            );
                            return;
                        }
                    }
                }
            }
        }
    };

    if let Some(path) = &args.replay {
        let v: Value = serde_json::from_str(&std::fs::read_to_string(path).unwrap_or_else(|e| engine::machinery_failure(&e.to_string()))).unwrap();
        let (base, hist) = w.parse_replay(&v["replay"]);
        check(base, &hist, &Scratch::new("c06r"));
        return report.finish();
    }

    let hists = all_histories(w.alpha.len(), depth);
    let mut items = vec![];
    for b in 0..w.bases.len() {
        for h in &hists {
            items.push((b, h.clone()));
        }
    }
    // items run in worker processes: a subject that aborts the process is charged to its item
    let scratch = Scratch::new("c06");
    let counts = |r: &Report| {
        r.set("states", json!(states.len()));
        r.set("transitions", json!(transitions.load(Ordering::SeqCst)));
        r.set("traces_validated_against_impl", json!(traces.load(Ordering::SeqCst) * ALL_VARIANTS.len() as u64));
        r.set("distinct_step_outcomes", json!(outcomes.len()));
    };
    if engine::run_items_isolated(args, &report, items.len(), &|i| check(items[i].0, &items[i].1, &scratch), &counts, &|i| ("history".to_string(), format!("history {:?}", items[i].1.iter().map(|k| w.alpha[*k].0).collect::<Vec<_>>()), w.replay_json(items[i].0, &items[i].1, json!(null)))) {
        return 0;
    }
    report.sample(w.replay_json(items[0].0, &items[0].1, json!(null)));
    report.sample(w.replay_json(items[items.len() - 1].0, &items[items.len() - 1].1, json!(null)));
    report.set("histories", json!(items.len()));
    report.set("depth", json!(depth));
    report.set("alphabet_size", json!(w.alpha.len()));
    report.set("base_states", json!(w.bases.len()));
    report.set("variants", json!(ALL_VARIANTS.iter().map(|v| v.name()).collect::<Vec<_>>()));
    report.set("exhaustive", json!(true));
    report.set("rule", json!("every history of <= `depth` steps over the 39-step alphabet H from 6 base states, executed in lock-step on the six variants; every step result and, at the end of every history, the full observable dump (all elements, values, keys, counts, aliases, indexes, index searches, four traversals per node) must be identical. states = distinct dumps."));
    report.assume("values, keys, aliases and ids outside the alphabet are not covered; histories longer than the depth are not covered");
    report.finish()
}

// ---------------------------------------------------------------------------
// C05

#[derive(Clone, Copy, Debug, PartialEq, Eq)]
pub enum Maint {
    ReopenSame,
    ReopenOther,
    Optimize,
    Shrink,
    BackupOpen,
    BackupOpenMemory,
    Copy,
    Rename,
    RenameReopen,
}

pub const MAINTS: [Maint; 9] = [Maint::ReopenSame, Maint::ReopenOther, Maint::Optimize, Maint::Shrink, Maint::BackupOpen, Maint::BackupOpenMemory, Maint::Copy, Maint::Rename, Maint::RenameReopen];

fn other(v: Variant) -> Variant {
    match v {
        Variant::File => Variant::Mapped,
        Variant::Mapped => Variant::File,
        Variant::AnyFile => Variant::AnyMapped,
        Variant::AnyMapped => Variant::AnyFile,
        Variant::Memory => Variant::Memory,
        Variant::AnyMemory => Variant::AnyMemory,
    }
}

/// Applies a maintenance operation; returns the database to continue with
/// and the path it now lives at.
fn maintain(m: Maint, v: Variant, mut db: Box<dyn DbLike>, path: &str, scratch: &Scratch, n: &mut u32) -> Result<(Box<dyn DbLike>, String, Variant), String> {
    *n += 1;
    let p2 = scratch.path(&format!("m{n}.agdb"));
    let er = |e: DbError| format!("{m:?}: {}", e.description);
    match m {
        Maint::ReopenSame => {
            if v.is_memory() {
                return Ok((db, path.to_string(), v)); // nothing persistent to reopen
            }
            drop(db);
            Ok((v.open(path).map_err(er)?, path.to_string(), v))
        }
        Maint::ReopenOther => {
            if v.is_memory() {
                return Ok((db, path.to_string(), v));
            }
            drop(db);
            Ok((other(v).open(path).map_err(er)?, path.to_string(), other(v)))
        }
        Maint::Optimize => {
            db.optimize().map_err(er)?;
            Ok((db, path.to_string(), v))
        }
        Maint::Shrink => {
            db.shrink().map_err(er)?;
            Ok((db, path.to_string(), v))
        }
        Maint::BackupOpen => {
            db.backup_to(&p2).map_err(er)?;
            let v2 = if v.is_memory() { Variant::File } else { v };
            Ok((v2.open(&p2).map_err(er)?, p2, v2))
        }
        Maint::BackupOpenMemory => {
            db.backup_to(&p2).map_err(er)?;
            Ok((Variant::Memory.open(&p2).map_err(er)?, p2, Variant::Memory))
        }
        Maint::Copy => Ok((db.copy_to(&p2).map_err(er)?, p2, v)),
        Maint::Rename => {
            db.rename_to(&p2).map_err(er)?;
            Ok((db, p2, v))
        }
        Maint::RenameReopen => {
            db.rename_to(&p2).map_err(er)?;
            if v.is_memory() {
                return Ok((db, p2, v));
            }
            drop(db);
            Ok((v.open(&p2).map_err(er)?, p2, v))
        }
    }
}

pub fn run_c05(args: &Args) -> i32 {
    let report = Report::new(args, "model_checking");
    let w = World::new();
    let depth: usize = std::env::var("VERIF_C05_DEPTH").ok().and_then(|s| s.parse().ok()).unwrap_or(args.tier.pick(1, 2));
    let pair_depth: usize = args.tier.pick(0, 1);
    let follow_names: Vec<&str> = args.tier.pick(vec!["nodes_alias_b_values", "values_1_long", "remove_1"], vec!["nodes_alias_b_values", "edge_1_2_values", "values_1_long", "alias_a_2", "remove_1", "insert_index_kl", "nodes_count2"]);
    let follow: Vec<usize> = follow_names.iter().map(|n| w.alpha.iter().position(|a| a.0 == *n).unwrap()).collect();
    let variants = [Variant::File, Variant::Mapped, Variant::Memory, Variant::AnyMapped];
    let states = DistinctCounter::default();
    let transitions = AtomicU64::new(0);
    let traces = AtomicU64::new(0);
    let maint_applied = AtomicU64::new(0);

    let check = |base: usize, hist: &Hist, scratch: &Scratch| {
        for v in variants {
            scratch.clear();
            let mut n = 0u32;
            // reference: untouched database and its follow-ups
            let r = catch(|| -> Result<(String, Vec<(String, String)>), String> {
                let (db, _) = build(&w, v, &scratch.path("ref.agdb"), base, hist)?;
                let d0 = dump(db.as_ref(), true)?.ordered();
                drop(db);
                let mut fs = vec![];
                for (k, f) in follow.iter().enumerate() {
                    let (mut db, _) = build(&w, v, &scratch.path(&format!("ref{k}.agdb")), base, hist)?;
                    let r = res_string(&w.alpha[*f].1.run(db.as_mut()));
                    fs.push((r, dump(db.as_ref(), true)?.ordered()));
                }
                Ok((d0, fs))
            });
            let (d0, ref_follow) = match r {
                Ok(Ok(x)) => x,
                Ok(Err(e)) => {
                    report.violation(&format!("variant={}|reference-run-failed", v.name()), &e, w.replay_json(base, hist, json!({"variant": v.name()})));
                    continue;
                }
                Err(p) => {
                    report.violation(&format!("variant={}|reference-run-panic|{}|{}", v.name(), p.file(), p.normalised()), &p.message, w.replay_json(base, hist, json!({"variant": v.name()})));
                    continue;
                }
            };
            states.insert(d0.as_bytes());
            traces.fetch_add(1, Ordering::Relaxed);
            let mut seqs: Vec<Vec<Maint>> = MAINTS.iter().map(|m| vec![*m]).collect();
            if hist.len() <= pair_depth {
                for a in MAINTS {
                    for b in MAINTS {
                        seqs.push(vec![a, b]);
                    }
                }
            }
            for ms in &seqs {
                // once without follow-up, then once per follow-up step
                for f in std::iter::once(None).chain(follow.iter().enumerate().map(Some)) {
                    let detail = json!({"variant": v.name(), "maintenance": ms.iter().map(|m| format!("{m:?}")).collect::<Vec<_>>(), "follow_up": f.map(|(_, i)| w.alpha[*i].0)});
                    let ms_name = ms.iter().map(|m| format!("{m:?}")).collect::<Vec<_>>().join("+");
                    let r = catch(|| -> Result<Option<(String, String)>, String> {
                        n += 1;
                        let path = scratch.path(&format!("w{n}.agdb"));
                        let (mut db, _) = build(&w, v, &path, base, hist)?;
                        let mut path = path;
                        let mut cur = v;
                        for m in ms {
                            maint_applied.fetch_add(1, Ordering::Relaxed);
                            let (d2, p2, v2) = maintain(*m, cur, db, &path, scratch, &mut n)?;
                            db = d2;
                            path = p2;
                            cur = v2;
                        }
                        transitions.fetch_add(1, Ordering::Relaxed);
                        match f {
                            None => {
                                let d1 = dump(db.as_ref(), true)?.ordered();
                                Ok(Some((String::new(), d1)))
                            }
                            Some((k, fi)) => {
                                let r = res_string(&w.alpha[*fi].1.run(db.as_mut()));
                                let d = dump(db.as_ref(), true)?.ordered();
                                // and the other way round (single maintenance operations only): step first, then maintenance
                                if ms.len() == 1 && r == ref_follow[k].0 && d == ref_follow[k].1 {
                                    n += 1;
                                    let path2 = scratch.path(&format!("w{n}.agdb"));
                                    let (mut db2, _) = build(&w, v, &path2, base, hist)?;
                                    let _ = w.alpha[*fi].1.run(db2.as_mut());
                                    let (db3, _, _) = maintain(ms[0], v, db2, &path2, scratch, &mut n)?;
                                    maint_applied.fetch_add(1, Ordering::Relaxed);
                                    transitions.fetch_add(1, Ordering::Relaxed);
                                    let d3 = dump(db3.as_ref(), true)?.ordered();
                                    if d3 != ref_follow[k].1 {
                                        return Ok(Some((r, format!("AFTER-STEP;{d3}"))));
                                    }
                                }
                                Ok(Some((r, d)))
                            }
                        }
                    });
                    match r {
                        Ok(Ok(Some((rs, ds)))) => match f {
                            None => {
                                if ds != d0 {
                                    report.violation(&format!("maint={ms_name}|variant={}|dump-differs", v.name()), "observable state differs after the maintenance operation", w.replay_json(base, hist, detail));
                                }
                            }
                            Some((k, _)) => {
                                if ds.starts_with("AFTER-STEP;") {
                                    report.violation(&format!("maint={ms_name}|variant={}|step-then-maintenance-differs", v.name()), "a step followed by the maintenance operation leaves a different state than the step alone", w.replay_json(base, hist, detail));
                                } else if rs != ref_follow[k].0 {
                                    report.violation(&format!("maint={ms_name}|variant={}|follow-up-result-differs", v.name()), &format!("follow-up returned {rs} instead of {}", ref_follow[k].0), w.replay_json(base, hist, detail));
                                } else if ds != ref_follow[k].1 {
                                    report.violation(&format!("maint={ms_name}|variant={}|follow-up-state-differs", v.name()), "observable state after one further step differs from the never-maintained database", w.replay_json(base, hist, detail));
                                }
                            }
                        },
                        Ok(Ok(None)) => {}
                        Ok(Err(e)) => report.violation(&format!("maint={ms_name}|variant={}|failed|{}", v.name(), engine::normalise(&e)), &e, w.replay_json(base, hist, detail)),
                        Err(p) => report.violation(&format!("maint={ms_name}|variant={}|panic|{}|{}", v.name(), p.file(), p.normalised()), &format!("panic: {} at {}", p.message, p.location), w.replay_json(base, hist, detail)),
                    }
                }
            }
        }
    };

    if let Some(path) = &args.replay {
        let v: Value = serde_json::from_str(&std::fs::read_to_string(path).unwrap_or_else(|e| engine::machinery_failure(&e.to_string()))).unwrap();
        let (base, hist) = w.parse_replay(&v["replay"]);
        check(base, &hist, &Scratch::new("c05r"));
        return report.finish();
    }

    let hists = all_histories(w.alpha.len(), depth);
    let mut items = vec![];
    for b in 0..w.bases.len() {
        for h in &hists {
            items.push((b, h.clone()));
        }
    }
    let scratch = Scratch::new("c05");
    let counts = |r: &Report| {
        r.set("states", json!(states.len()));
        r.set("transitions", json!(transitions.load(Ordering::SeqCst)));
        r.set("traces_validated_against_impl", json!(transitions.load(Ordering::SeqCst) + traces.load(Ordering::SeqCst)));
        r.set("maintenance_operations_applied", json!(maint_applied.load(Ordering::SeqCst)));
    };
    if engine::run_items_isolated(args, &report, items.len(), &|i| check(items[i].0, &items[i].1, &scratch), &counts, &|i| ("history".to_string(), format!("history {:?}", items[i].1.iter().map(|k| w.alpha[*k].0).collect::<Vec<_>>()), w.replay_json(items[i].0, &items[i].1, json!(null)))) {
        return 0;
    }
    report.sample(json!({"history": w.replay_json(items[1].0, &items[1].1, json!(null)), "maintenance": "each of ReopenSame..RenameReopen", "follow_ups": follow.iter().map(|i| w.alpha[*i].0).collect::<Vec<_>>()}));
    report.set("history_nodes", json!(items.len()));
    report.set("depth", json!(depth));
    report.set("maintenance_pairs_up_to_history_length", json!(pair_depth));
    report.set("variants", json!(variants.iter().map(|v| v.name()).collect::<Vec<_>>()));
    report.set("maintenance_ops", json!(MAINTS.iter().map(|m| format!("{m:?}")).collect::<Vec<_>>()));
    report.set("exhaustive", json!(true));
    report.set("rule", json!("at every node of the history tree (all histories of <= depth steps over H from 6 base states) each maintenance operation (and every ordered pair, for histories up to the stated length) is applied to a freshly replayed database; the full ordered dump must equal that of the never-maintained database, and must still be equal after each of 3 (quick) / 7 (thorough) further mutating steps; each such step is also run BEFORE the maintenance operation (state after step+maintenance = state after the step alone)"));
    report.finish()
}
