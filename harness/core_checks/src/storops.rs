//! Storage-layer operation alphabet shared by C01 and C04, and the
//! file-system shadow bound to the real files through the fs-event hook.

use agdb::StorageData;
use agdb::verif::{FsEvent, StorageProbe};
use serde_json::{Value, json};
use std::cell::RefCell;
use std::rc::Rc;

#[derive(Clone, Copy, Debug, PartialEq, Eq, Hash)]
pub enum Off {
    Zero,
    Four,
    Size,
    SizePlus8,
}

#[derive(Clone, Copy, Debug, PartialEq, Eq, Hash)]
pub enum SOp {
    Insert(u64),
    /// slot, offset kind, length
    InsertAt(u8, Off, u64),
    Replace(u8, u64),
    Resize(u8, u64),
    /// slot, from, to, len
    MoveAt(u8, u64, u64, u64),
    Remove(u8),
    Optimize,
    Begin,
    Commit,
    Reopen,
}

impl SOp {
    pub fn kind(&self) -> &'static str {
        match self {
            SOp::Insert(_) => "insert",
            SOp::InsertAt(..) => "insert_at",
            SOp::Replace(..) => "replace",
            SOp::Resize(..) => "resize",
            SOp::MoveAt(..) => "move_at",
            SOp::Remove(_) => "remove",
            SOp::Optimize => "optimize",
            SOp::Begin => "begin",
            SOp::Commit => "commit",
            SOp::Reopen => "reopen",
        }
    }
    pub fn to_json(&self) -> Value {
        json!(format!("{self:?}"))
    }
}

/// The alphabet, simplest first. `tx` adds begin/commit, `reopen` adds reopen.
pub fn alphabet(tx: bool, reopen: bool) -> Vec<SOp> {
    let mut a = vec![SOp::Insert(8), SOp::Insert(0), SOp::Insert(24)];
    for s in 0..2u8 {
        a.push(SOp::Remove(s));
    }
    for s in 0..2u8 {
        for n in [8, 0, 40] {
            a.push(SOp::Replace(s, n));
        }
    }
    for s in 0..2u8 {
        for n in [8, 0, 40] {
            a.push(SOp::Resize(s, n));
        }
    }
    for s in 0..2u8 {
        a.push(SOp::InsertAt(s, Off::Zero, 8));
        a.push(SOp::InsertAt(s, Off::Size, 8));
        a.push(SOp::InsertAt(s, Off::SizePlus8, 8));
        a.push(SOp::InsertAt(s, Off::Four, 0));
    }
    for s in 0..2u8 {
        a.push(SOp::MoveAt(s, 0, 4, 8)); // overlapping, forward
        a.push(SOp::MoveAt(s, 4, 0, 8)); // overlapping, backward
        a.push(SOp::MoveAt(s, 0, 8, 0)); // zero length
        a.push(SOp::MoveAt(s, 0, 16, 8)); // disjoint, possibly beyond the end
    }
    a.push(SOp::Optimize);
    if tx {
        a.push(SOp::Begin);
        a.push(SOp::Commit);
    }
    if reopen {
        a.push(SOp::Reopen);
    }
    a
}

pub fn parse_op(s: &str) -> Option<SOp> {
    alphabet(true, true).into_iter().find(|o| format!("{o:?}") == s)
}

/// Base states: scripted prefixes and the two "slots" (storage indexes) the
/// alphabet addresses in them.
#[derive(Clone, Copy, Debug, PartialEq, Eq, Hash)]
pub enum Base {
    /// fresh file; slots = indexes 1, 2
    Fresh,
    /// three records, the middle one removed (free hole); slots = 1, 3
    Hole,
    /// two live records, the last one at the end of the file; slots = 1, 2
    TwoLive,
    /// as Hole / TwoLive but with an outermost transaction already open (C01 only)
    HoleTx,
    TwoLiveTx,
}

pub const BASES: [Base; 3] = [Base::Fresh, Base::Hole, Base::TwoLive];
pub const BASES_WITH_OPEN_TX: [Base; 5] = [Base::Fresh, Base::Hole, Base::TwoLive, Base::HoleTx, Base::TwoLiveTx];

impl Base {
    pub fn slots(&self) -> [u64; 2] {
        match self {
            Base::Fresh => [1, 2],
            Base::Hole | Base::HoleTx => [1, 3],
            Base::TwoLive | Base::TwoLiveTx => [1, 2],
        }
    }
    pub fn script(&self) -> Vec<SOp> {
        match self {
            Base::Fresh => vec![],
            Base::Hole => vec![SOp::Insert(8), SOp::Insert(24), SOp::Insert(8), SOp::Remove(1)],
            Base::TwoLive => vec![SOp::Insert(8), SOp::Insert(24)],
            Base::HoleTx => vec![SOp::Insert(8), SOp::Insert(24), SOp::Insert(8), SOp::Remove(1), SOp::Begin],
            Base::TwoLiveTx => vec![SOp::Insert(8), SOp::Insert(24), SOp::Begin],
        }
    }
    pub fn script_slots(&self) -> [u64; 2] {
        [1, 2]
    }
    pub fn parse(s: &str) -> Option<Base> {
        BASES_WITH_OPEN_TX.into_iter().find(|b| format!("{b:?}") == s)
    }
}

/// deterministic, position-dependent fill so that misplaced bytes are visible
pub fn fill(tag: u8, n: u64) -> Vec<u8> {
    (0..n).map(|i| tag.wrapping_mul(16).wrapping_add(i as u8).wrapping_add(1)).collect()
}

/// Apply one op to a probe. `tag` makes the written bytes unique per step.
/// `stack` is the stack of open transaction ids. Returns Ok(Some(index)) for inserts.
pub fn apply<D: StorageData>(
    p: &mut StorageProbe<D>,
    op: SOp,
    slots: [u64; 2],
    tag: u8,
    stack: &mut Vec<u64>,
) -> Result<Option<u64>, agdb::DbError> {
    match op {
        SOp::Insert(n) => p.insert_bytes(&fill(tag, n)).map(Some),
        SOp::InsertAt(s, off, len) => {
            let idx = slots[s as usize];
            let size = p.value_size(idx)?;
            let off = match off {
                Off::Zero => 0,
                Off::Four => 4,
                Off::Size => size,
                Off::SizePlus8 => size + 8,
            };
            p.insert_bytes_at(idx, off, &fill(tag, len)).map(|_| None)
        }
        SOp::Replace(s, n) => p.replace_with_bytes(slots[s as usize], &fill(tag, n)).map(|_| None),
        SOp::Resize(s, n) => p.resize_value(slots[s as usize], n).map(|_| None),
        SOp::MoveAt(s, from, to, len) => p.move_at(slots[s as usize], from, to, len).map(|_| None),
        SOp::Remove(s) => p.remove(slots[s as usize]).map(|_| None),
        SOp::Optimize => p.optimize_storage().map(|_| None),
        SOp::Begin => {
            let id = p.transaction();
            stack.push(id);
            Ok(None)
        }
        SOp::Commit => {
            if let Some(id) = stack.pop() {
                p.commit(id)?;
            }
            Ok(None)
        }
        SOp::Reopen => Ok(None), // handled by the driver
    }
}

// ---------------------------------------------------------------------------
// file system events and shadow

#[derive(Clone, Debug, PartialEq, Eq)]
pub enum Ev {
    DataWrite(u64, Vec<u8>),
    DataSetLen(u64),
    WalAppend(Vec<u8>),
    WalSetLen(u64),
}

impl Ev {
    pub fn kind(&self) -> &'static str {
        match self {
            Ev::DataWrite(..) => "data_write",
            Ev::DataSetLen(_) => "data_set_len",
            Ev::WalAppend(_) => "wal_append",
            Ev::WalSetLen(_) => "wal_set_len",
        }
    }
    pub fn to_json(&self) -> Value {
        match self {
            Ev::DataWrite(p, b) => json!({"data_write": {"pos": p, "bytes": engine::hex(b)}}),
            Ev::DataSetLen(n) => json!({"data_set_len": n}),
            Ev::WalAppend(b) => json!({"wal_append": engine::hex(b)}),
            Ev::WalSetLen(n) => json!({"wal_set_len": n}),
        }
    }
}

#[derive(Clone, Debug, Default, PartialEq, Eq)]
pub struct Shadow {
    pub data: Vec<u8>,
    pub wal: Vec<u8>,
}

impl Shadow {
    pub fn apply(&mut self, ev: &Ev) {
        match ev {
            Ev::DataWrite(pos, bytes) => write_at(&mut self.data, *pos, bytes),
            Ev::DataSetLen(n) => self.data.resize(*n as usize, 0),
            Ev::WalAppend(bytes) => self.wal.extend_from_slice(bytes),
            Ev::WalSetLen(n) => self.wal.resize(*n as usize, 0),
        }
    }
    /// apply only the first `n` bytes of a write (torn call); set_len is atomic
    pub fn apply_torn(&mut self, ev: &Ev, n: usize) {
        match ev {
            Ev::DataWrite(pos, bytes) => write_at(&mut self.data, *pos, &bytes[..n.min(bytes.len())]),
            Ev::WalAppend(bytes) => self.wal.extend_from_slice(&bytes[..n.min(bytes.len())]),
            _ => {}
        }
    }
    pub fn from_files(data: &str, wal: &str) -> Shadow {
        Shadow { data: std::fs::read(data).unwrap_or_default(), wal: std::fs::read(wal).unwrap_or_default() }
    }
    pub fn write_files(&self, data: &str, wal: &str) {
        std::fs::write(data, &self.data).unwrap();
        std::fs::write(wal, &self.wal).unwrap();
    }
}

fn write_at(buf: &mut Vec<u8>, pos: u64, bytes: &[u8]) {
    if bytes.is_empty() {
        return; // a zero-length write(2) does not extend the file
    }
    let pos = pos as usize;
    let end = pos + bytes.len();
    if buf.len() < end {
        buf.resize(end, 0);
    }
    buf[pos..end].copy_from_slice(bytes);
}

pub type EvLog = Rc<RefCell<Vec<Ev>>>;

/// Install the calling thread's fs hook; mutating events are appended to the log.
pub fn record_events() -> EvLog {
    let log: EvLog = Rc::new(RefCell::new(vec![]));
    let l2 = log.clone();
    agdb::verif::set_fs_hook(move |e| {
        let ev = match e {
            FsEvent::DataWrite { pos, bytes } => Ev::DataWrite(*pos, bytes.to_vec()),
            FsEvent::DataSetLen { len } => Ev::DataSetLen(*len),
            FsEvent::WalAppend { bytes } => Ev::WalAppend(bytes.to_vec()),
            FsEvent::WalSetLen { len } => Ev::WalSetLen(*len),
            _ => return,
        };
        l2.borrow_mut().push(ev);
    });
    log
}

pub fn wal_name(data: &str) -> String {
    let (dir, file) = data.rsplit_once('/').unwrap();
    format!("{dir}/.{file}")
}
