//! C02 — a database interrupted by a crash always reopens and is fully readable.
//! C03 — every mutating query and transaction is atomic across crashes.
//! Histories over H x every prefix of the file-system calls of the last step;
//! every crash image is reopened with the real open path. DESIGN.md §3, §4.

use crate::c0506::{Hist, World, res_string};
use crate::dbops::*;
use crate::storops::{Ev, Shadow, record_events, wal_name};
use engine::{Args, DistinctCounter, Report, Scratch, catch};
use serde_json::{Value, json};
use std::sync::atomic::{AtomicU64, Ordering};

#[derive(Clone, Debug)]
enum Last {
    H(usize),
    Close,
    Optimize,
    Shrink,
}

pub fn run(args: &Args) -> i32 {
    let c02 = args.property == "C02";
    let report = Report::new(args, "fault_enumeration");
    let w = World::new();
    let depth: usize = std::env::var("VERIF_C03_DEPTH").ok().and_then(|s| s.parse().ok()).unwrap_or(args.tier.pick(1, 2));
    let run_variants: Vec<Variant> = args.tier.pick(vec![Variant::File], vec![Variant::File, Variant::Mapped]);
    let open_variants: Vec<Variant> = if c02 { args.tier.pick(vec![Variant::File, Variant::Mapped], vec![Variant::File, Variant::Mapped, Variant::AnyFile, Variant::AnyMapped]) } else { args.tier.pick(vec![Variant::Mapped], vec![Variant::File, Variant::Mapped]) };
    let thorough = args.tier == engine::Tier::Thorough;
    let images = AtomicU64::new(0);
    let opens = AtomicU64::new(0);
    let steps_run = AtomicU64::new(0);
    let distinct_images = DistinctCounter::default();
    let outcomes = DistinctCounter::default();
    let saw_before = AtomicU64::new(0);
    let saw_after = AtomicU64::new(0);

    let check = |base: usize, hist: &Hist, last: &Last, run_variant: Variant, scratch: &Scratch, only_k: Option<(usize, usize)>| {
        scratch.clear();
        let path = scratch.path("db.agdb");
        let walp = wal_name(&path);
        // thorough: tears, all open variants and both run variants for histories of one step; depth-2 histories run on DbFile without tears
        let tears = thorough && hist.is_empty();
        let last_name = match last {
            Last::H(i) => w.alpha[*i].0.to_string(),
            other => format!("{other:?}").to_lowercase(),
        };
        let last_kind = match last {
            Last::H(i) => w.alpha[*i].1.kind(),
            other => format!("{other:?}").to_lowercase(),
        };
        let replay = |k: usize, cut: usize, v: &str| w.replay_json(base, hist, json!({"last": last_name, "run_variant": run_variant.name(), "crash_after_calls": k, "torn_bytes": cut, "open_variant": v}));
        // ---- run the history, record the last step
        let r = catch(|| -> Result<(Shadow, Vec<Ev>, String, String, String), String> {
            let mut db = w.open_base(run_variant, &path, base)?;
            for i in hist {
                let _ = w.alpha[*i].1.run(db.as_mut());
            }
            let before = dump(db.as_ref(), c02)?.ordered();
            let pre = Shadow::from_files(&path, &walp);
            let log = record_events();
            let res = match last {
                Last::H(i) => res_string(&w.alpha[*i].1.run(db.as_mut())),
                Last::Optimize => format!("{:?}", db.optimize().map_err(|e| e.description)),
                Last::Shrink => format!("{:?}", db.shrink().map_err(|e| e.description)),
                Last::Close => String::new(),
            };
            let after = if matches!(last, Last::Close) {
                let a = before.clone();
                drop(db);
                agdb::verif::clear_fs_hook();
                a
            } else {
                agdb::verif::clear_fs_hook();
                let a = dump(db.as_ref(), c02)?.ordered();
                drop(db);
                a
            };
            let events = log.borrow().clone();
            Ok((pre, events, before, after, res))
        });
        agdb::verif::clear_fs_hook();
        let (pre, events, before, after, res) = match r {
            Ok(Ok(x)) => x,
            Ok(Err(e)) => {
                report.violation(&format!("step={last_kind}|live-run-failed|{}", engine::normalise(&e)), &e, replay(0, 0, ""));
                return;
            }
            Err(p) => {
                report.violation(&format!("step={last_kind}|live-run-panic|{}|{}", p.file(), p.normalised()), &format!("panic: {} at {}", p.message, p.location), replay(0, 0, ""));
                return;
            }
        };
        steps_run.fetch_add(1, Ordering::Relaxed);
        outcomes.insert(res.as_bytes());
        if !pre.wal.is_empty() {
            engine::machinery_failure("recovery log not empty before the step under test");
        }
        // ---- crash images
        let mut seen_here: std::collections::HashSet<u64> = std::collections::HashSet::new();
        let mut img = pre.clone();
        for k in 0..=events.len() {
            let mut cuts = vec![0usize];
            if tears && k < events.len() {
                let len = match &events[k] {
                    Ev::DataWrite(_, b) => b.len(),
                    Ev::WalAppend(b) => b.len(),
                    _ => 0,
                };
                for c in [1, len / 2, len.saturating_sub(1)] {
                    if c > 0 && c < len && !cuts.contains(&c) {
                        cuts.push(c);
                    }
                }
            }
            for cut in cuts {
                if let Some((ok, oc)) = only_k {
                    if ok != k || oc != cut {
                        continue;
                    }
                }
                let mut t = img.clone();
                if cut > 0 {
                    t.apply_torn(&events[k], cut);
                }
                images.fetch_add(1, Ordering::Relaxed);
                let mut key = t.data.clone();
                key.extend_from_slice(b"|W|");
                key.extend_from_slice(&t.wal);
                distinct_images.insert(&key);
                if !seen_here.insert(engine::fnv(&key)) {
                    continue; // identical image already examined for this step
                }
                let next = events.get(k).map(|e| e.kind()).unwrap_or("end");
                // quick C02: each image is opened with one of the variants in turn (all of them in thorough)
                let rotate = c02 && !tears;
                let open_variants: &[Variant] = if thorough && !hist.is_empty() { &open_variants[..open_variants.len().min(2)] } else { &open_variants };
                for (oi, ov) in open_variants.iter().enumerate() {
                    if rotate && oi != (k + cut) % open_variants.len() {
                        continue;
                    }
                    let ipath = scratch.path("img.agdb");
                    t.write_files(&ipath, &wal_name(&ipath));
                    opens.fetch_add(1, Ordering::Relaxed);
                    let _ = engine::take_enormous_allocation();
                    let r = catch(|| -> Result<String, (String, String)> {
                        let db = ov.open(&ipath).map_err(|e| ("open-failed".to_string(), format!("{} / {}", e.description, e.cause.map(|c| c.description).unwrap_or_default())))?;
                        let d = dump(db.as_ref(), c02).map_err(|e| ("read-failed".to_string(), e))?;
                        Ok(d.ordered())
                    });
                    let big = engine::take_enormous_allocation();
                    let sig = |clause: &str| format!("step={last_kind}|next={next}|torn={}|open={}|{clause}", cut > 0, ov.name());
                    if c02 {
                        match &r {
                            Ok(Ok(_)) => {}
                            Ok(Err((clause, e))) => report.violation(&sig(&format!("{clause}|{}", engine::normalise(e))), &format!("crash image after {k} calls ({cut} torn bytes): {e}"), replay(k, cut, ov.name())),
                            Err(p) => report.violation(&sig(&format!("panic|{}|{}", p.file(), p.normalised())), &format!("crash image after {k} calls: panic {} at {}", p.message, p.location), replay(k, cut, ov.name())),
                        }
                        if let Some(n) = big {
                            report.violation(&sig("enormous-allocation"), &format!("crash image after {k} calls: a single allocation of {n} bytes was requested"), replay(k, cut, ov.name()));
                        }
                    } else if let Ok(Ok(d)) = &r {
                        // C03 judges only images that open and read (C02 owns the rest)
                        if *d == before {
                            saw_before.fetch_add(1, Ordering::Relaxed);
                        } else if *d == after {
                            saw_after.fetch_add(1, Ordering::Relaxed);
                        } else {
                            report.violation(&sig("partial-effect"), &format!("crash after {k} of {} file-system calls of the step ({cut} torn bytes): the reopened database equals neither the state before nor after `{last_name}`", events.len()), replay(k, cut, ov.name()));
                        }
                    } else {
                        report.add("images_not_readable_left_to_C02", 1);
                    }
                }
            }
            if k < events.len() {
                img.apply(&events[k]);
            }
        }
    };

    if let Some(path) = &args.replay {
        let v: Value = serde_json::from_str(&std::fs::read_to_string(path).unwrap_or_else(|e| engine::machinery_failure(&e.to_string()))).unwrap();
        let (base, hist) = w.parse_replay(&v["replay"]);
        let d = &v["replay"]["detail"];
        let last = match d["last"].as_str().unwrap_or("") {
            "close" => Last::Close,
            "optimize" => Last::Optimize,
            "shrink" => Last::Shrink,
            n => Last::H(w.alpha.iter().position(|a| a.0 == n).unwrap_or_else(|| engine::machinery_failure("replay: unknown last step"))),
        };
        let rv = Variant::parse(d["run_variant"].as_str().unwrap_or("DbFile")).unwrap_or(Variant::File);
        check(base, &hist, &last, rv, &Scratch::new("c03r"), Some((d["crash_after_calls"].as_u64().unwrap_or(0) as usize, d["torn_bytes"].as_u64().unwrap_or(0) as usize)));
        return report.finish();
    }

    // items: (base, prefix history, last step)
    let mut prefixes: Vec<Hist> = vec![vec![]];
    let mut level: Vec<Hist> = vec![vec![]];
    for _ in 1..depth {
        let mut next = vec![];
        for h in &level {
            for a in 0..w.alpha.len() {
                let mut h2 = h.clone();
                h2.push(a);
                next.push(h2);
            }
        }
        prefixes.extend(next.iter().cloned());
        level = next;
    }
    let mut lasts: Vec<Last> = (0..w.alpha.len()).map(Last::H).collect();
    lasts.push(Last::Close);
    lasts.push(Last::Optimize);
    lasts.push(Last::Shrink);
    let mut items = vec![];
    for rv in &run_variants {
        for b in 0..w.bases.len() {
            for p in &prefixes {
                if !p.is_empty() && *rv != Variant::File {
                    continue;
                }
                for l in &lasts {
                    // quick: on the 59-alias base only the steps that touch aliases (and close)
                    if !thorough && w.bases[b].0 == "alias_map_near_rehash" && !matches!(l, Last::Close) && !matches!(l, Last::H(i) if w.alpha[*i].0.contains("alias")) {
                        continue;
                    }
                    items.push((*rv, b, p.clone(), l.clone()));
                }
            }
        }
    }
    // The subject can abort the process (a crash image may make it request an absurd
    // allocation), so the items run in worker processes; a worker that dies is charged to
    // the item it was processing.
    let flush_counts = |report: &Report| {
        report.set("evaluations", json!(opens.load(Ordering::SeqCst)));
        report.set("distinct_nontrivial", json!(distinct_images.len()));
        report.set("crash_images", json!(images.load(Ordering::SeqCst)));
        report.set("steps_under_crash", json!(steps_run.load(Ordering::SeqCst)));
        report.set("distinct_step_results", json!(outcomes.len()));
        if !c02 {
            report.set("images_equal_to_state_before", json!(saw_before.load(Ordering::SeqCst)));
            report.set("images_equal_to_state_after", json!(saw_after.load(Ordering::SeqCst)));
        }
    };
    if let Some(ctl) = engine::child_ctl(args) {
        let scratch = Scratch::new("c03");
        for i in ctl.items(items.len()) {
            ctl.mark(i);
            let (rv, b, p, l) = &items[i];
            check(*b, p, l, *rv, &scratch, None);
            flush_counts(&report);
            report.export_to(&ctl.out);
        }
        flush_counts(&report);
        report.export_to(&ctl.out);
        return 0;
    }
    engine::run_children(args, items.len(), &report, &|i, status| {
        let (rv, b, p, l) = &items[i];
        let last_name = match l {
            Last::H(k) => w.alpha[*k].0.to_string(),
            other => format!("{other:?}").to_lowercase(),
        };
        let kind = match l {
            Last::H(k) => w.alpha[*k].1.kind(),
            other => format!("{other:?}").to_lowercase(),
        };
        report.violation(
            &format!("step={kind}|process-died"),
            &format!("the process died ({status}) while crash images of `{last_name}` were being reopened: abort / failed enormous allocation / stack overflow"),
            w.replay_json(*b, p, json!({"last": last_name, "run_variant": rv.name()})),
        );
    });
    report.sample(json!({"history": w.replay_json(items[3].1, &items[3].2, json!(null)), "last_step": format!("{:?}", items[3].3), "crash": "after every prefix of its file-system calls"}));
    report.set("history_depth", json!(depth));
    report.set("run_variants", json!(run_variants.iter().map(|v| v.name()).collect::<Vec<_>>()));
    report.set("open_variants", json!(open_variants.iter().map(|v| v.name()).collect::<Vec<_>>()));
    report.set("torn_last_call", json!(if thorough { "for histories of one step" } else { "no" }));
    report.set("exhaustive", json!(true));
    report.set("rule", json!("every history of <= depth steps over H (+ close, optimize_storage, shrink_to_fit as last step) from 6 base states; crash points = every prefix of the file-system calls of the last step (thorough: plus 3 byte-prefixes of the interrupted write); each distinct (data, log) image is reopened with the listed variants and fully dumped. distinct_nontrivial = distinct crash images. C02: open + full read succeed, no panic, no allocation >= 256 MiB. C03: dump equals the live database's own dump before or after the step."));
    report.assume("crash model: prefix of the process's file-system calls (process death; the code never syncs)");
    report.finish()
}
