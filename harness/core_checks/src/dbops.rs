//! Db-level driver shared by C02, C03, C05, C06, C08-C11, C13, C18, C32:
//! query enums executable on every DbImpl variant, the history alphabet H,
//! and the full observable dump.

use agdb::*;
use std::fmt::Write as _;

#[derive(Clone, Debug)]
pub enum MQ {
    InsertNodes(InsertNodesQuery),
    InsertEdges(InsertEdgesQuery),
    InsertValues(InsertValuesQuery),
    InsertAliases(InsertAliasesQuery),
    InsertIndex(InsertIndexQuery),
    Remove(RemoveQuery),
    RemoveAliases(RemoveAliasesQuery),
    RemoveValues(RemoveValuesQuery),
    RemoveIndex(RemoveIndexQuery),
}

impl MQ {
    pub fn kind(&self) -> &'static str {
        match self {
            MQ::InsertNodes(_) => "insert_nodes",
            MQ::InsertEdges(_) => "insert_edges",
            MQ::InsertValues(_) => "insert_values",
            MQ::InsertAliases(_) => "insert_aliases",
            MQ::InsertIndex(_) => "insert_index",
            MQ::Remove(_) => "remove",
            MQ::RemoveAliases(_) => "remove_aliases",
            MQ::RemoveValues(_) => "remove_values",
            MQ::RemoveIndex(_) => "remove_index",
        }
    }
}

#[derive(Clone, Debug)]
pub enum RQ {
    Search(SearchQuery),
    Values(SelectValuesQuery),
    Keys(SelectKeysQuery),
    KeyCount(SelectKeyCountQuery),
    Aliases(SelectAliasesQuery),
    AllAliases(SelectAllAliasesQuery),
    EdgeCount(SelectEdgeCountQuery),
    Indexes(SelectIndexesQuery),
    NodeCount(SelectNodeCountQuery),
}

pub trait DbLike {
    fn m(&mut self, q: &MQ) -> Result<QueryResult, DbError>;
    fn r(&self, q: &RQ) -> Result<QueryResult, DbError>;
    /// runs the queries in one mutable transaction; the closure returns the
    /// first query error, or (if `fail`) an error after all queries ran
    fn tx(&mut self, qs: &[MQ], fail: bool) -> Result<Vec<QueryResult>, DbError>;
    fn optimize(&mut self) -> Result<(), DbError>;
    fn shrink(&mut self) -> Result<(), DbError>;
    fn backup_to(&self, name: &str) -> Result<(), DbError>;
    fn rename_to(&mut self, name: &str) -> Result<(), DbError>;
    fn copy_to(&self, name: &str) -> Result<Box<dyn DbLike>, DbError>;
}

fn exec_m<S: StorageData>(t: &mut TransactionMut<S>, q: &MQ) -> Result<QueryResult, DbError> {
    match q {
        MQ::InsertNodes(q) => t.exec_mut(q),
        MQ::InsertEdges(q) => t.exec_mut(q),
        MQ::InsertValues(q) => t.exec_mut(q),
        MQ::InsertAliases(q) => t.exec_mut(q),
        MQ::InsertIndex(q) => t.exec_mut(q),
        MQ::Remove(q) => t.exec_mut(q),
        MQ::RemoveAliases(q) => t.exec_mut(q),
        MQ::RemoveValues(q) => t.exec_mut(q),
        MQ::RemoveIndex(q) => t.exec_mut(q),
    }
}

/// probe steps one step may take: far above anything a terminating query on these
/// small databases needs (capacity 64..128 => a full rehash is a few hundred steps)
pub const PROBE_BUDGET: u64 = 200_000;

pub const TX_ABORT: &str = "verif: transaction aborted by the closure";

impl<S: StorageData + 'static> DbLike for DbImpl<S> {
    fn m(&mut self, q: &MQ) -> Result<QueryResult, DbError> {
        match q {
            MQ::InsertNodes(q) => self.exec_mut(q),
            MQ::InsertEdges(q) => self.exec_mut(q),
            MQ::InsertValues(q) => self.exec_mut(q),
            MQ::InsertAliases(q) => self.exec_mut(q),
            MQ::InsertIndex(q) => self.exec_mut(q),
            MQ::Remove(q) => self.exec_mut(q),
            MQ::RemoveAliases(q) => self.exec_mut(q),
            MQ::RemoveValues(q) => self.exec_mut(q),
            MQ::RemoveIndex(q) => self.exec_mut(q),
        }
    }
    fn r(&self, q: &RQ) -> Result<QueryResult, DbError> {
        match q {
            RQ::Search(q) => self.exec(q),
            RQ::Values(q) => self.exec(q),
            RQ::Keys(q) => self.exec(q),
            RQ::KeyCount(q) => self.exec(q),
            RQ::Aliases(q) => self.exec(q),
            RQ::AllAliases(q) => self.exec(q),
            RQ::EdgeCount(q) => self.exec(q),
            RQ::Indexes(q) => self.exec(q),
            RQ::NodeCount(q) => self.exec(q),
        }
    }
    fn tx(&mut self, qs: &[MQ], fail: bool) -> Result<Vec<QueryResult>, DbError> {
        self.transaction_mut(|t| -> Result<Vec<QueryResult>, DbError> {
            let mut out = vec![];
            for q in qs {
                out.push(exec_m(t, q)?);
            }
            if fail {
                return Err(DbError::db(DbErrorType::NotAllowed, TX_ABORT));
            }
            Ok(out)
        })
    }
    fn optimize(&mut self) -> Result<(), DbError> {
        self.optimize_storage()
    }
    fn shrink(&mut self) -> Result<(), DbError> {
        self.shrink_to_fit()
    }
    fn backup_to(&self, name: &str) -> Result<(), DbError> {
        self.backup(name)
    }
    fn rename_to(&mut self, name: &str) -> Result<(), DbError> {
        self.rename(name)
    }
    fn copy_to(&self, name: &str) -> Result<Box<dyn DbLike>, DbError> {
        Ok(Box::new(self.copy(name)?))
    }
}

#[derive(Clone, Copy, Debug, PartialEq, Eq, Hash)]
pub enum Variant {
    Memory,
    File,
    Mapped,
    AnyMemory,
    AnyFile,
    AnyMapped,
}

pub const ALL_VARIANTS: [Variant; 6] = [Variant::Memory, Variant::File, Variant::Mapped, Variant::AnyMemory, Variant::AnyFile, Variant::AnyMapped];
pub const FILE_VARIANTS: [Variant; 4] = [Variant::File, Variant::Mapped, Variant::AnyFile, Variant::AnyMapped];

impl Variant {
    pub fn name(&self) -> &'static str {
        match self {
            Variant::Memory => "DbMemory",
            Variant::File => "DbFile",
            Variant::Mapped => "Db",
            Variant::AnyMemory => "DbAny(memory)",
            Variant::AnyFile => "DbAny(file)",
            Variant::AnyMapped => "DbAny(mapped)",
        }
    }
    pub fn is_memory(&self) -> bool {
        matches!(self, Variant::Memory | Variant::AnyMemory)
    }
    pub fn parse(s: &str) -> Option<Variant> {
        ALL_VARIANTS.into_iter().find(|v| v.name() == s)
    }
    pub fn open(&self, path: &str) -> Result<Box<dyn DbLike>, DbError> {
        Ok(match self {
            Variant::Memory => Box::new(DbMemory::new(path)?),
            Variant::File => Box::new(DbFile::new(path)?),
            Variant::Mapped => Box::new(Db::new(path)?),
            Variant::AnyMemory => Box::new(DbAny::new_memory(path)?),
            Variant::AnyFile => Box::new(DbAny::new_file(path)?),
            Variant::AnyMapped => Box::new(DbAny::new_mapped(path)?),
        })
    }
}

// ---------------------------------------------------------------------------
// alphabet

pub const K: &str = "k";
pub const KL: &str = "a-long-key-of-22-bytes";
pub const VS: &str = "a-string-of-20-bytes";
pub const K3: &str = "k3";

#[derive(Clone, Debug)]
pub enum Step {
    Q(MQ),
    Tx(Vec<MQ>, bool),
}

impl Step {
    pub fn kind(&self) -> String {
        match self {
            Step::Q(q) => q.kind().to_string(),
            Step::Tx(_, fail) => (if *fail { "tx_abort" } else { "tx_commit" }).to_string(),
        }
    }
    /// Runs the step under a hash-probe budget: a query that would loop
    /// forever in a hashed collection panics with `PROBE_BUDGET_EXHAUSTED`
    /// instead (deterministic non-termination oracle).
    pub fn run(&self, db: &mut dyn DbLike) -> Result<Vec<QueryResult>, DbError> {
        agdb::verif::set_probe_budget(PROBE_BUDGET);
        let r = match self {
            Step::Q(q) => db.m(q).map(|r| vec![r]),
            Step::Tx(qs, fail) => db.tx(qs, *fail),
        };
        agdb::verif::set_probe_budget(u64::MAX);
        r
    }
}

pub type Named = (&'static str, Step);

fn kv<V: Into<DbValue>>(k: &str, v: V) -> DbKeyValue {
    (k, v).into()
}

pub mod q {
    use super::*;
    pub fn nodes_count(n: u64) -> MQ {
        MQ::InsertNodes(QueryBuilder::insert().nodes().count(n).query())
    }
    pub fn nodes_aliases(a: &[&str]) -> MQ {
        MQ::InsertNodes(QueryBuilder::insert().nodes().aliases(a.iter().map(|s| s.to_string()).collect::<Vec<_>>()).query())
    }
    pub fn nodes_aliases_values(a: &[&str], v: Vec<Vec<DbKeyValue>>) -> MQ {
        MQ::InsertNodes(QueryBuilder::insert().nodes().aliases(a.iter().map(|s| s.to_string()).collect::<Vec<_>>()).values(v).query())
    }
    pub fn nodes_values(v: Vec<Vec<DbKeyValue>>) -> MQ {
        MQ::InsertNodes(QueryBuilder::insert().nodes().values(v).query())
    }
    pub fn nodes_count_uniform(n: u64, v: Vec<DbKeyValue>) -> MQ {
        MQ::InsertNodes(QueryBuilder::insert().nodes().count(n).values_uniform(v).query())
    }
    pub fn nodes_ids_values(ids: Vec<QueryId>, v: Vec<Vec<DbKeyValue>>) -> MQ {
        MQ::InsertNodes(QueryBuilder::insert().nodes().ids(ids).values(v).query())
    }
    /// insert-or-update of existing nodes that also (re)assigns their aliases
    pub fn nodes_ids_aliases(ids: Vec<QueryId>, names: &[&str]) -> MQ {
        MQ::InsertNodes(QueryBuilder::insert().nodes().ids(ids).aliases(names.iter().map(|s| s.to_string()).collect::<Vec<String>>()).query())
    }
    pub fn edges(from: Vec<QueryId>, to: Vec<QueryId>) -> MQ {
        MQ::InsertEdges(QueryBuilder::insert().edges().from(from).to(to).query())
    }
    pub fn edges_each(from: Vec<QueryId>, to: Vec<QueryId>) -> MQ {
        MQ::InsertEdges(QueryBuilder::insert().edges().from(from).to(to).each().query())
    }
    pub fn edges_uniform(from: Vec<QueryId>, to: Vec<QueryId>, v: Vec<DbKeyValue>) -> MQ {
        MQ::InsertEdges(QueryBuilder::insert().edges().from(from).to(to).values_uniform(v).query())
    }
    pub fn edges_ids_values(ids: Vec<QueryId>, v: Vec<Vec<DbKeyValue>>) -> MQ {
        MQ::InsertEdges(QueryBuilder::insert().edges().ids(ids).from(Vec::<QueryId>::new()).to(Vec::<QueryId>::new()).values(v).query())
    }
    pub fn values(ids: Vec<QueryId>, v: Vec<Vec<DbKeyValue>>) -> MQ {
        MQ::InsertValues(QueryBuilder::insert().values(v).ids(ids).query())
    }
    pub fn values_uniform(ids: Vec<QueryId>, v: Vec<DbKeyValue>) -> MQ {
        MQ::InsertValues(QueryBuilder::insert().values_uniform(v).ids(ids).query())
    }
    pub fn values_uniform_search_from(from: QueryId, v: Vec<DbKeyValue>) -> MQ {
        MQ::InsertValues(QueryBuilder::insert().values_uniform(v).search().from(from).query())
    }
    pub fn aliases(a: &[&str], ids: Vec<QueryId>) -> MQ {
        MQ::InsertAliases(QueryBuilder::insert().aliases(a.iter().map(|s| s.to_string()).collect::<Vec<_>>()).ids(ids).query())
    }
    pub fn index<T: Into<DbValue>>(k: T) -> MQ {
        MQ::InsertIndex(QueryBuilder::insert().index(k).query())
    }
    pub fn remove(ids: Vec<QueryId>) -> MQ {
        MQ::Remove(QueryBuilder::remove().ids(ids).query())
    }
    pub fn remove_search_edges_from(from: QueryId) -> MQ {
        MQ::Remove(QueryBuilder::remove().search().from(from).where_().edge().query())
    }
    pub fn remove_aliases(a: &[&str]) -> MQ {
        MQ::RemoveAliases(QueryBuilder::remove().aliases(a.iter().map(|s| s.to_string()).collect::<Vec<_>>()).query())
    }
    pub fn remove_values(keys: Vec<DbValue>, ids: Vec<QueryId>) -> MQ {
        MQ::RemoveValues(QueryBuilder::remove().values(keys).ids(ids).query())
    }
    pub fn remove_values_search_from(keys: Vec<DbValue>, from: QueryId) -> MQ {
        MQ::RemoveValues(QueryBuilder::remove().values(keys).search().from(from).query())
    }
    pub fn remove_index<T: Into<DbValue>>(k: T) -> MQ {
        MQ::RemoveIndex(QueryBuilder::remove().index(k).query())
    }
}

pub fn id(i: i64) -> QueryId {
    QueryId::from(i)
}
pub fn al(a: &str) -> QueryId {
    QueryId::from(a)
}

/// The history alphabet H (mutating steps), simplest first.
pub fn alphabet_h() -> Vec<Named> {
    use Step::*;
    vec![
        ("nodes_count1", Q(q::nodes_count(1))),
        ("nodes_count2", Q(q::nodes_count(2))),
        ("nodes_alias_a", Q(q::nodes_aliases(&["a"]))),
        ("nodes_alias_b_values", Q(q::nodes_aliases_values(&["b"], vec![vec![kv(K, 1_i64)]]))),
        ("nodes_values_long", Q(q::nodes_values(vec![vec![kv(K, VS), kv(KL, 2_i64)]]))),
        ("nodes_ids_update_1", Q(q::nodes_ids_values(vec![id(1)], vec![vec![kv(K, 2_i64)]]))),
        ("edge_1_2", Q(q::edges(vec![id(1)], vec![id(2)]))),
        ("edge_1_1", Q(q::edges(vec![id(1)], vec![id(1)]))),
        ("edge_each_12_12", Q(q::edges_each(vec![id(1), id(2)], vec![id(1), id(2)]))),
        ("edge_1_2_values", Q(q::edges_uniform(vec![id(1)], vec![id(2)], vec![kv(K, 1_i64)]))),
        ("edge_1_missing", Q(q::edges(vec![id(1)], vec![id(9)]))),
        ("edge_1_to_edge", Q(q::edges(vec![id(1)], vec![id(-4)]))),
        ("values_1_k2", Q(q::values(vec![id(1)], vec![vec![kv(K, 2_i64)]]))),
        ("values_1_newkey", Q(q::values(vec![id(1)], vec![vec![kv(KL, 1_i64)]]))),
        ("values_1_long", Q(q::values(vec![id(1)], vec![vec![kv(K, VS)]]))),
        ("values_2_k1", Q(q::values(vec![id(2)], vec![vec![kv(K, 1_i64)]]))),
        ("values_search_from_1", Q(q::values_uniform_search_from(id(1), vec![kv(K, 2_i64)]))),
        ("values_alias_a", Q(q::values(vec![al("a")], vec![vec![kv(K, 1_i64)]]))),
        ("alias_a_1", Q(q::aliases(&["a"], vec![id(1)]))),
        ("alias_b_1", Q(q::aliases(&["b"], vec![id(1)]))),
        ("alias_a_2", Q(q::aliases(&["a"], vec![id(2)]))),
        ("remove_1", Q(q::remove(vec![id(1)]))),
        ("remove_2", Q(q::remove(vec![id(2)]))),
        ("remove_alias_node_a", Q(q::remove(vec![al("a")]))),
        ("remove_edges_from_1", Q(q::remove_search_edges_from(id(1)))),
        ("remove_values_k_1", Q(q::remove_values(vec![K.into()], vec![id(1)]))),
        ("remove_values_search_1", Q(q::remove_values_search_from(vec![K.into()], id(1)))),
        ("remove_alias_a", Q(q::remove_aliases(&["a"]))),
        ("insert_index_k", Q(q::index(K))),
        ("insert_index_kl", Q(q::index(KL))),
        ("insert_index_k3", Q(q::index(K3))),
        ("remove_index_k", Q(q::remove_index(K))),
        ("remove_index_kl", Q(q::remove_index(KL))),
        ("values_multi_fail_midway", Q(q::values(vec![id(1), id(9)], vec![vec![kv(K, 7_i64)], vec![kv(K, 7_i64)]]))),
        ("tx_commit_node_edge", Tx(vec![q::nodes_aliases(&["t"]), q::edges(vec![al("t")], vec![id(1)])], false)),
        ("tx_abort_node", Tx(vec![q::nodes_count(1)], true)),
        ("tx_abort_replace_steal", Tx(vec![q::values(vec![id(1)], vec![vec![kv(K, 3_i64)]]), q::aliases(&["a"], vec![id(2)])], true)),
        ("tx_abort_remove_index", Tx(vec![q::remove(vec![id(1)]), q::index(K)], true)),
        ("tx_abort_drop_index", Tx(vec![q::remove_index(K), q::nodes_count(1)], true)),
    ]
}

/// Base states for the history checks: scripted prefixes.
pub fn base_states() -> Vec<(&'static str, Vec<Step>)> {
    use Step::*;
    let mut many_aliases: Vec<Step> = vec![];
    // 59 aliased nodes: the alias maps (capacity 64, max load 60) rehash on one of the next inserts
    let names: Vec<String> = (0..59).map(|i| format!("n{i}")).collect();
    many_aliases.push(Q(MQ::InsertNodes(QueryBuilder::insert().nodes().aliases(names).query())));
    vec![
        ("fresh", vec![]),
        (
            "small_graph",
            vec![
                Q(q::nodes_aliases_values(&["a"], vec![vec![kv(K, 1_i64)]])),
                Q(q::nodes_values(vec![vec![kv(K, VS), kv(KL, 2_i64)]])),
                Q(q::nodes_count(1)),
                Q(q::edges_uniform(vec![id(1)], vec![id(2)], vec![kv(K, 1_i64)])),
                Q(q::index(K)),
            ],
        ),
        (
            "reused_ids",
            vec![
                Q(q::nodes_count(3)),
                Q(q::edges(vec![id(1), id(2)], vec![id(2), id(3)])),
                Q(q::index(K)),
                Q(q::values_uniform(vec![id(1), id(2), id(3)], vec![kv(K, 1_i64)])),
                Q(q::remove(vec![id(2)])),
                Q(q::nodes_aliases(&["b"])),
            ],
        ),
        ("alias_map_near_rehash", many_aliases),
        // twelve separate one-value node inserts, replayed live (never closed, so the file keeps its free regions):
        // value collections grow in place over freed regions of exactly their growth
        ("live_many_small_values", (0..12).map(|i| Q(q::nodes_values(vec![vec![kv(K, i as i64)]]))).collect()),
        (
            "three_indexes",
            vec![
                Q(q::nodes_values(vec![vec![kv(K, 1_i64), kv(KL, 2_i64), kv(K3, 3_i64)], vec![kv(K, 2_i64), kv(K3, 3_i64)]])),
                Q(q::index(K)),
                Q(q::index(KL)),
                Q(q::index(K3)),
                Q(q::edges_uniform(vec![id(1)], vec![id(2)], vec![kv(K3, 3_i64)])),
            ],
        ),
    ]
}

// ---------------------------------------------------------------------------
// dump

#[derive(Clone, Debug, PartialEq)]
pub struct ElemDump {
    pub id: i64,
    pub from: i64,
    pub to: i64,
    pub values: Vec<(DbValue, DbValue)>,
    pub keys: Vec<DbValue>,
    pub key_count: u64,
    pub edge_count: (u64, u64, u64),
}

#[derive(Clone, Debug, PartialEq, Default)]
pub struct Dump {
    pub node_count: u64,
    pub elements: Vec<ElemDump>,
    pub aliases: Vec<(String, i64)>,
    pub alias_of: Vec<(i64, Result<String, String>)>,
    pub indexes: Vec<(DbValue, DbValue)>,
    pub index_hits: Vec<(DbValue, DbValue, Result<Vec<i64>, String>)>,
    pub searches: Vec<(String, Result<Vec<i64>, String>)>,
}

pub fn key_universe() -> Vec<DbValue> {
    vec![K.into(), KL.into(), K3.into()]
}
pub fn value_universe() -> Vec<DbValue> {
    vec![1_i64.into(), 2_i64.into(), 3_i64.into(), 7_i64.into(), VS.into()]
}

fn ids_of(r: &QueryResult) -> Vec<i64> {
    r.elements.iter().map(|e| e.id.0).collect()
}

fn first_val(r: &QueryResult) -> Result<&DbValue, String> {
    r.elements.first().and_then(|el| el.values.first()).map(|kv| &kv.value).ok_or_else(|| "result has no element/value".to_string())
}

fn e(x: DbError) -> String {
    x.description
}

/// Reads everything observable. Err = some read that must succeed failed.
pub fn dump(db: &dyn DbLike, with_searches: bool) -> Result<Dump, String> {
    // reads run under the probe budget too (a corrupted edge list must not hang the harness)
    agdb::verif::set_probe_budget(PROBE_BUDGET * 10);
    let r = dump_inner(db, with_searches);
    agdb::verif::set_probe_budget(u64::MAX);
    r
}

fn dump_inner(db: &dyn DbLike, with_searches: bool) -> Result<Dump, String> {
    let mut d = Dump { node_count: db.r(&RQ::NodeCount(QueryBuilder::select().node_count().query())).map_err(|x| format!("node_count: {}", e(x)))?.result, ..Default::default() };
    let all = db.r(&RQ::Search(QueryBuilder::search().elements().query())).map_err(|x| format!("search elements: {}", e(x)))?;
    let ids = ids_of(&all);
    for i in &ids {
        let i = *i;
        let el = db.r(&RQ::Values(QueryBuilder::select().ids(i).query())).map_err(|x| format!("select ids({i}): {}", e(x)))?;
        if el.elements.len() != 1 {
            return Err(format!("select ids({i}) returned {} elements", el.elements.len()));
        }
        let el = &el.elements[0];
        let keys = db.r(&RQ::Keys(QueryBuilder::select().keys().ids(i).query())).map_err(|x| format!("select keys({i}): {}", e(x)))?;
        let kc = db.r(&RQ::KeyCount(QueryBuilder::select().key_count().ids(i).query())).map_err(|x| format!("select key_count({i}): {}", e(x)))?;
        let ec = |q: SelectEdgeCountQuery| -> Result<u64, String> {
            let r = db.r(&RQ::EdgeCount(q)).map_err(|x| format!("select edge_count({i}): {}", e(x)))?;
            first_val(&r)?.to_u64().map_err(e)
        };
        let edge_count = if i > 0 {
            (ec(QueryBuilder::select().edge_count().ids(i).query())?, ec(QueryBuilder::select().edge_count_from().ids(i).query())?, ec(QueryBuilder::select().edge_count_to().ids(i).query())?)
        } else {
            (0, 0, 0)
        };
        d.elements.push(ElemDump {
            id: el.id.0,
            from: el.from.0,
            to: el.to.0,
            values: el.values.iter().map(|kv| (kv.key.clone(), kv.value.clone())).collect(),
            keys: keys.elements.first().ok_or("select keys: no element")?.values.iter().map(|kv| kv.key.clone()).collect(),
            key_count: first_val(&kc)?.to_u64().map_err(e)?,
            edge_count,
        });
        if i > 0 {
            let a = db.r(&RQ::Aliases(QueryBuilder::select().aliases().ids(i).query()));
            d.alias_of.push((i, a.map_err(e).and_then(|r| first_val(&r).map(|v| v.to_string()))));
        }
    }
    let aa = db.r(&RQ::AllAliases(QueryBuilder::select().aliases().query())).map_err(|x| format!("select all aliases: {}", e(x)))?;
    for el in &aa.elements {
        d.aliases.push((el.values.first().map(|kv| kv.value.to_string()).ok_or("select aliases: element without value")?, el.id.0));
    }
    let ix = db.r(&RQ::Indexes(QueryBuilder::select().indexes().query())).map_err(|x| format!("select indexes: {}", e(x)))?;
    for kv in &ix.elements.first().ok_or("select indexes: no element")?.values {
        d.indexes.push((kv.key.clone(), kv.value.clone()));
    }
    for k in key_universe() {
        for v in value_universe() {
            let r = db.r(&RQ::Search(QueryBuilder::search().index(k.clone()).value(v.clone()).query()));
            // an index search for a key that has no index is an error by design: keep it as data
            d.index_hits.push((k.clone(), v, r.map(|r| ids_of(&r)).map_err(e)));
        }
    }
    if with_searches {
        // traversals from the first 8 nodes (the 59-node base state would otherwise dominate the cost)
        for i in ids.iter().filter(|i| **i > 0).take(8) {
            let i = *i;
            let mut s = |name: &str, q: SearchQuery| {
                let r = db.r(&RQ::Search(q));
                d.searches.push((format!("{name}({i})"), r.map(|r| ids_of(&r)).map_err(e)));
            };
            s("bfs_from", QueryBuilder::search().from(i).query());
            s("dfs_from", QueryBuilder::search().depth_first().from(i).query());
            s("bfs_to", QueryBuilder::search().to(i).query());
            s("dfs_to", QueryBuilder::search().depth_first().to(i).query());
        }
    }
    Ok(d)
}

impl Dump {
    /// id-insensitive summary: counts and the multiset of property sets, alias names, index listing
    pub fn shape(&self) -> String {
        let mut props: Vec<String> = self
            .elements
            .iter()
            .map(|e| {
                let mut v: Vec<String> = e.values.iter().map(|(k, v)| format!("{k:?}={v:?}")).collect();
                v.sort();
                format!("{}{{{}}}kc={}", if e.id > 0 { "n" } else { "e" }, v.join(","), e.key_count)
            })
            .collect();
        props.sort();
        let mut al: Vec<String> = self.aliases.iter().map(|a| a.0.clone()).collect();
        al.sort();
        let mut ix: Vec<String> = self.indexes.iter().map(|(k, v)| format!("{k:?}:{v:?}")).collect();
        ix.sort();
        format!("nodes={};elements={:?};aliases={al:?};indexes={ix:?}", self.node_count, props)
    }

    /// exact, order-preserving rendering
    pub fn ordered(&self) -> String {
        format!("{self:?}")
    }

    /// order-insensitive rendering per C13: elements with ids and endpoints,
    /// property *sets*, aliases, index contents as sets, node count
    pub fn canonical(&self) -> String {
        let mut s = String::new();
        let _ = write!(s, "nodes={};", self.node_count);
        let mut els = self.elements.clone();
        els.sort_by_key(|e| e.id);
        for e in &els {
            let mut vals: Vec<String> = e.values.iter().map(|(k, v)| format!("{k:?}={v:?}")).collect();
            vals.sort();
            // for a node from/to are its first outgoing/incoming edge: the order of
            // edges among a node's connections may legitimately differ (C13)
            let (from, to) = if e.id < 0 { (e.from, e.to) } else { (0, 0) };
            let _ = write!(s, "[{} {:?}->{:?} {{{}}} kc={} ec={:?}]", e.id, from, to, vals.join(","), e.key_count, e.edge_count);
        }
        let mut al = self.aliases.clone();
        al.sort();
        let _ = write!(s, ";aliases={al:?}");
        let mut ao = self.alias_of.clone();
        ao.sort_by_key(|x| x.0);
        let ao: Vec<(i64, Option<String>)> = ao.into_iter().map(|(i, r)| (i, r.ok())).collect();
        let _ = write!(s, ";alias_of={ao:?}");
        let mut ix: Vec<String> = self.indexes.iter().map(|(k, v)| format!("{k:?}:{v:?}")).collect();
        ix.sort();
        let _ = write!(s, ";indexes={ix:?}");
        for (k, v, r) in &self.index_hits {
            let r = r.clone().map(|mut v| {
                v.sort();
                v
            });
            let _ = write!(s, ";hit({k:?},{v:?})={:?}", r.ok());
        }
        s
    }
}
