//! C08 graph, C09 properties, C10 aliases, C11 indexes, C18 elements search:
//! bounded-exhaustive command sequences on the real database (DbMemory,
//! every sequence replayed from scratch) in lock-step with the reference model `RefDb`.
//! Each property has its own alphabet, depth and oracle clauses. DESIGN.md §4.

use crate::dbops::*;
use crate::refdb::*;
use agdb::{DbError, QueryBuilder, QueryResult};
use engine::{Args, DistinctCounter, Report, catch};
use serde_json::{Value, json};
use std::fmt::Write as _;
use std::sync::atomic::{AtomicU64, Ordering};

#[derive(Clone, Copy, PartialEq, Debug)]
enum Prop {
    C08,
    C09,
    C10,
    C11,
    C18,
}

const K1: &str = "k";
const K2: &str = "k2";

fn alphabet(p: Prop) -> Vec<Cmd> {
    use Cmd::*;
    use Q::*;
    match p {
        Prop::C08 | Prop::C18 => vec![
            InsertNodes(1),
            InsertNodes(2),
            InsertEdges { from: vec![Id(1)], to: vec![Id(2)], each: false, values: Vals::None },
            InsertEdges { from: vec![Id(2)], to: vec![Id(1)], each: false, values: Vals::Uniform(vec![(K1, 1)]) },
            InsertEdges { from: vec![Id(1)], to: vec![Id(1)], each: false, values: Vals::None },
            InsertEdges { from: vec![Id(1)], to: vec![Id(7)], each: false, values: Vals::None },
            InsertEdges { from: vec![Id(1), Id(2)], to: vec![Id(2), Id(3)], each: false, values: Vals::None },
            InsertEdges { from: vec![Id(1), Id(2)], to: vec![Id(1), Id(2)], each: true, values: Vals::None },
            Remove(vec![Id(1)]),
            Remove(vec![Id(2)]),
            Remove(vec![Id(-3)]),
            Remove(vec![Al("a")]),
            RemoveSearchEdgesFrom(Id(1)),
            InsertNodesAliases(vec!["a"]),
            // one query naming a new alias twice: the second occurrence is the node the first created
            InsertNodesAliases(vec!["r", "r"]),
            // an existing EDGE id as an endpoint must be rejected without effect
            InsertEdges { from: vec![Id(-3)], to: vec![Id(1)], each: false, values: Vals::None },
        ],
        Prop::C09 => vec![
            InsertNodes(1),
            InsertNodesValues(vec!["a"], vec![vec![(K1, 1), (K2, 2)]]),
            InsertEdges { from: vec![Id(1)], to: vec![Id(1)], each: false, values: Vals::Uniform(vec![(K1, 1)]) },
            InsertValues(vec![Id(1)], Vals::Multi(vec![vec![(K1, 5)]])),
            InsertValues(vec![Id(1)], Vals::Multi(vec![vec![(K2, 6), ("k3", 7)]])),
            InsertValues(vec![Id(1), Id(2)], Vals::Uniform(vec![(K1, 8)])),
            InsertValues(vec![Al("a")], Vals::Multi(vec![vec![("k3", 9), (K1, 9)]])),
            InsertValuesSearchFrom(Id(1), vec![(K2, 4)]),
            InsertNodesIds(vec![Id(1)], vec![vec![(K2, 3), ("k4", 3)]]),
            InsertEdgesIdsOfNode(Id(1), vec![(K2, 3)]),
            RemoveValues(vec![K1], vec![Id(1)]),
            RemoveValues(vec![K2, "k3"], vec![Id(1), Id(2)]),
            Remove(vec![Id(1)]),
            Remove(vec![Id(2)]),
        ],
        Prop::C10 => vec![
            InsertNodes(1),
            InsertNodesAliases(vec!["a"]),
            InsertNodesAliases(vec!["b", ""]),
            InsertNodesAliases(vec!["c", "c"]),
            InsertNodesValues(vec![""], vec![vec![(K1, 1)]]),
            InsertEdges { from: vec![Id(1)], to: vec![Id(1)], each: false, values: Vals::None },
            InsertAliases(vec!["a"], vec![Id(1)]),
            InsertAliases(vec!["b"], vec![Id(1)]),
            InsertAliases(vec!["a"], vec![Id(2)]),
            InsertAliases(vec!["e"], vec![Id(-3)]),
            InsertAliases(vec![""], vec![Id(1)]),
            InsertAliases(vec!["c", "a"], vec![Id(1), Id(2)]),
            RemoveAliases(vec!["a"]),
            Remove(vec![Id(1)]),
            Remove(vec![Al("a")]),
            Remove(vec![Id(-3)]),
            Tx(vec![InsertAliases(vec!["a"], vec![Id(2)]), InsertAliases(vec!["b"], vec![Id(1)])], true),
        ],
        Prop::C11 => vec![
            InsertNodes(2),
            InsertEdges { from: vec![Id(1)], to: vec![Id(2)], each: false, values: Vals::Uniform(vec![(K1, 1)]) },
            InsertIndex(K1),
            InsertIndex(K2),
            RemoveIndex(K1),
            InsertValues(vec![Id(1)], Vals::Multi(vec![vec![(K1, 1)]])),
            InsertValues(vec![Id(1)], Vals::Multi(vec![vec![(K1, 2)]])),
            InsertValues(vec![Id(1), Id(2)], Vals::Uniform(vec![(K1, 1), (K2, 1)])),
            InsertValues(vec![Id(2)], Vals::Multi(vec![vec![("k3", 1)]])),
            RemoveValues(vec![K1], vec![Id(1)]),
            RemoveValues(vec![K1, K2], vec![Id(1), Id(2)]),
            Remove(vec![Id(1)]),
            Remove(vec![Id(2)]),
            Tx(vec![InsertValues(vec![Id(1)], Vals::Multi(vec![vec![(K1, 2)]])), InsertIndex(K2), Remove(vec![Id(2)])], true),
            Tx(vec![RemoveIndex(K1), InsertValues(vec![Id(2)], Vals::Multi(vec![vec![(K1, 2)]]))], true),
            Tx(vec![InsertIndex(K1), InsertValues(vec![Id(2)], Vals::Multi(vec![vec![(K1, 2)]]))], false),
        ],
    }
}

fn bases(p: Prop) -> Vec<(&'static str, Vec<Cmd>)> {
    use Cmd::*;
    use Q::*;
    let mut b: Vec<(&'static str, Vec<Cmd>)> = vec![("fresh", vec![])];
    match p {
        Prop::C08 | Prop::C18 => b.push(("reused_ids", vec![InsertNodes(3), InsertEdges { from: vec![Id(1), Id(2)], to: vec![Id(2), Id(3)], each: false, values: Vals::Uniform(vec![(K1, 1)]) }, Remove(vec![Id(2)]), InsertNodesAliases(vec!["a"])])),
        Prop::C09 => b.push(("with_values", vec![InsertNodesValues(vec![], vec![vec![(K1, 1), (K2, 2), ("k3", 3)], vec![(K2, 2)]]), InsertEdges { from: vec![Id(1)], to: vec![Id(2)], each: false, values: Vals::Uniform(vec![(K1, 1), (K2, 1)]) }])),
        Prop::C10 => b.push(("two_aliased", vec![InsertNodesAliases(vec!["a", "b"]), InsertEdges { from: vec![Id(1)], to: vec![Id(2)], each: false, values: Vals::None }])),
        Prop::C11 => b.push(("indexed", vec![InsertNodesValues(vec![], vec![vec![(K1, 1)], vec![(K1, 1), (K2, 2)]]), InsertIndex(K1), InsertEdges { from: vec![Id(1)], to: vec![Id(2)], each: false, values: Vals::Uniform(vec![(K1, 2)]) }])),
    }
    b
}

fn ids_of(r: &QueryResult) -> Vec<i64> {
    r.elements.iter().map(|e| e.id.0).collect()
}

fn rd(db: &dyn DbLike, q: RQ) -> Result<QueryResult, DbError> {
    db.r(&q)
}

/// Observations of the implementation and the model's expectation, rendered
/// clause by clause; returns (clause name, got, want) of the first mismatch.
fn compare(p: Prop, db: &dyn DbLike, m: &RefDb) -> Result<(), (String, String)> {
    let err = |c: &str, d: String| Err((c.to_string(), d));
    let e = |x: DbError| x.description;
    let ids = m.element_ids();
    // element listing is needed by every property to know the ids
    let all = rd(db, RQ::Search(QueryBuilder::search().elements().query())).map_err(|x| ("elements-search-failed".to_string(), e(x)))?;
    if ids_of(&all) != ids {
        return err(if p == Prop::C18 { "elements-order" } else { "element-set" }, format!("search elements = {:?}, model {:?}", ids_of(&all), ids));
    }
    match p {
        Prop::C08 => {
            let nc = rd(db, RQ::NodeCount(QueryBuilder::select().node_count().query())).map_err(|x| ("node-count-failed".to_string(), e(x)))?.result;
            if nc != m.nodes.len() as u64 {
                return err("node-count", format!("{nc} vs model {}", m.nodes.len()));
            }
            for i in &ids {
                let el = rd(db, RQ::Values(QueryBuilder::select().ids(*i).query())).map_err(|x| ("select-failed".to_string(), format!("{i}: {}", e(x))))?;
                let el = el.elements.first().ok_or(("select-empty".to_string(), format!("{i}")))?;
                if *i < 0 {
                    let (f, t) = m.edges[i];
                    if (el.from.0, el.to.0) != (f, t) {
                        return err("edge-endpoints", format!("edge {i}: {}->{} vs model {f}->{t}", el.from.0, el.to.0));
                    }
                } else {
                    let c = |q| -> Result<u64, (String, String)> { Ok(rd(db, RQ::EdgeCount(q)).map_err(|x| ("edge-count-failed".to_string(), e(x)))?.result) };
                    let got = (c(QueryBuilder::select().edge_count().ids(*i).query())?, c(QueryBuilder::select().edge_count_from().ids(*i).query())?, c(QueryBuilder::select().edge_count_to().ids(*i).query())?);
                    if got != m.edge_counts(*i) {
                        return err("edge-counts", format!("node {i}: {got:?} vs model {:?}", m.edge_counts(*i)));
                    }
                }
                // properties of removed elements are gone / cascade: values equal as sets
                let mut got: Vec<String> = el.values.iter().map(|kv| format!("{}={}", kv.key, kv.value)).collect();
                got.sort();
                let mut want: Vec<String> = m.values.get(i).map(|v| v.0.iter().map(|(k, v)| format!("{k}={v}")).collect()).unwrap_or_default();
                want.sort();
                if got != want {
                    return err("element-properties", format!("{i}: {got:?} vs model {want:?}"));
                }
            }
            for gone in [1i64, 2, 3, -3, -4, 7] {
                if !m.exists(gone) && rd(db, RQ::Values(QueryBuilder::select().ids(gone).query())).is_ok() {
                    return err("removed-element-selectable", format!("{gone}"));
                }
            }
        }
        Prop::C09 => {
            for i in &ids {
                let (want, ordered) = m.values.get(i).cloned().unwrap_or((vec![], true));
                let el = rd(db, RQ::Values(QueryBuilder::select().ids(*i).query())).map_err(|x| ("select-values-failed".to_string(), format!("{i}: {}", e(x))))?;
                let got: Vec<(String, String)> = el.elements.first().map(|el| el.values.iter().map(|kv| (kv.key.to_string(), kv.value.to_string())).collect()).unwrap_or_default();
                let mut w: Vec<(String, String)> = want.iter().map(|(k, v)| (k.clone(), v.to_string())).collect();
                let mut g = got.clone();
                if !ordered {
                    w.sort();
                    g.sort();
                }
                if g != w {
                    return err(if ordered { "values-order-or-content" } else { "values-content" }, format!("{i}: {got:?} vs model {want:?}"));
                }
                let keys = rd(db, RQ::Keys(QueryBuilder::select().keys().ids(*i).query())).map_err(|x| ("select-keys-failed".to_string(), e(x)))?;
                let gk: Vec<String> = keys.elements.first().map(|el| el.values.iter().map(|kv| kv.key.to_string()).collect()).unwrap_or_default();
                if gk != got.iter().map(|x| x.0.clone()).collect::<Vec<_>>() {
                    return err("keys-differ-from-values", format!("{i}: keys {gk:?} values {got:?}"));
                }
                let kc = rd(db, RQ::KeyCount(QueryBuilder::select().key_count().ids(*i).query())).map_err(|x| ("select-key-count-failed".to_string(), e(x)))?;
                if kc.result != want.len() as u64 {
                    return err("key-count", format!("{i}: {} vs model {}", kc.result, want.len()));
                }
                // selection by keys in the requested (reversed) order
                if want.len() >= 2 {
                    let req: Vec<agdb::DbValue> = want.iter().rev().map(|(k, _)| dbv(k)).collect();
                    let r = rd(db, RQ::Values(QueryBuilder::select().values(req).ids(*i).query())).map_err(|x| ("select-by-keys-failed".to_string(), e(x)))?;
                    let g: Vec<(String, String)> = r.elements.first().map(|el| el.values.iter().map(|kv| (kv.key.to_string(), kv.value.to_string())).collect()).unwrap_or_default();
                    let w: Vec<(String, String)> = want.iter().rev().map(|(k, v)| (k.clone(), v.to_string())).collect();
                    if g != w {
                        return err("select-by-keys-order", format!("{i}: {g:?} vs requested order {w:?}"));
                    }
                }
                // a missing key of an explicitly named element is an error
                if rd(db, RQ::Values(QueryBuilder::select().values(vec![dbv("absent-key")]).ids(*i).query())).is_ok() {
                    return err("missing-key-not-an-error", format!("{i}"));
                }
            }
            for gone in [1i64, 2, -3] {
                if !m.exists(gone) && rd(db, RQ::Keys(QueryBuilder::select().keys().ids(gone).query())).is_ok() {
                    return err("removed-element-has-properties", format!("{gone}"));
                }
            }
        }
        Prop::C10 => {
            let aa = rd(db, RQ::AllAliases(QueryBuilder::select().aliases().query())).map_err(|x| ("select-all-aliases-failed".to_string(), e(x)))?;
            let mut got: Vec<(String, i64)> = aa.elements.iter().map(|el| (el.values.first().map(|kv| kv.value.to_string()).unwrap_or_default(), el.id.0)).collect();
            got.sort();
            let want: Vec<(String, i64)> = m.aliases.iter().map(|(a, i)| (a.clone(), *i)).collect();
            if got != want {
                return err("alias-mapping", format!("{got:?} vs model {want:?}"));
            }
            for i in ids.iter().filter(|i| **i > 0) {
                let a = rd(db, RQ::Aliases(QueryBuilder::select().aliases().ids(*i).query())).ok().and_then(|r| r.elements.first().and_then(|el| el.values.first().map(|kv| kv.value.to_string())));
                let want = m.aliases.iter().find(|(_, n)| *n == i).map(|(a, _)| a.clone());
                if a != want {
                    return err("alias-of-node", format!("node {i}: {a:?} vs model {want:?}"));
                }
            }
            for a in ["a", "b", "c", "e", ""] {
                let r = rd(db, RQ::Values(QueryBuilder::select().ids(a).query())).ok().and_then(|r| r.elements.first().map(|el| el.id.0));
                if r != m.aliases.get(a).copied() {
                    return err("alias-resolution", format!("alias {a:?} resolves to {r:?}, model {:?}", m.aliases.get(a)));
                }
            }
        }
        Prop::C11 => {
            let ix = rd(db, RQ::Indexes(QueryBuilder::select().indexes().query())).map_err(|x| ("select-indexes-failed".to_string(), e(x)))?;
            let mut got: Vec<(String, String)> = ix.elements.first().map(|el| el.values.iter().map(|kv| (kv.key.to_string(), kv.value.to_string())).collect()).unwrap_or_default();
            got.sort();
            let want: Vec<(String, String)> = m.indexes.iter().map(|k| (k.clone(), m.index_count(k).to_string())).collect();
            if got != want {
                return err("index-listing", format!("{got:?} vs model {want:?}"));
            }
            for k in [K1, K2, "k3"] {
                for v in [1i64, 2, 3] {
                    let r = rd(db, RQ::Search(QueryBuilder::search().index(k).value(v).query()));
                    match (r, m.index_hit(k, v)) {
                        (Ok(r), Some(want)) => {
                            let mut got = ids_of(&r);
                            got.sort();
                            let want: Vec<i64> = want.into_iter().collect();
                            let mut w = want.clone();
                            w.sort();
                            if got != w {
                                return err("index-search", format!("index({k}).value({v}) = {got:?}, model {w:?}"));
                            }
                        }
                        (Err(_), None) => {}
                        (Ok(r), None) => return err("search-on-missing-index-succeeds", format!("index({k}).value({v}) = {:?}", ids_of(&r))),
                        (Err(x), Some(_)) => return err("index-search-failed", format!("index({k}).value({v}): {}", e(x))),
                    }
                }
            }
        }
        Prop::C18 => {
            let n = ids.len() as u64;
            let nodes: Vec<i64> = ids.iter().copied().filter(|i| *i > 0).collect();
            let edges: Vec<i64> = ids.iter().copied().filter(|i| *i < 0).collect();
            let with_k: Vec<i64> = ids.iter().copied().filter(|i| m.values.get(i).map(|v| v.0.iter().any(|(k, _)| k == K1)).unwrap_or(false)).collect();
            let cases: Vec<(&str, agdb::SearchQuery, &Vec<i64>)> = vec![
                ("node", QueryBuilder::search().elements().where_().node().query(), &nodes),
                ("edge", QueryBuilder::search().elements().where_().edge().query(), &edges),
                ("keys", QueryBuilder::search().elements().where_().keys(K1).query(), &with_k),
            ];
            for (name, q, want) in cases {
                let r = rd(db, RQ::Search(q)).map_err(|x| ("elements-search-failed".to_string(), e(x)))?;
                if &ids_of(&r) != want {
                    return err("elements-filter", format!("where {name}: {:?} vs model {want:?}", ids_of(&r)));
                }
            }
            for off in 0..=n + 1 {
                for lim in 0..=n + 1 {
                    let q = if lim == 0 { QueryBuilder::search().elements().offset(off).query() } else { QueryBuilder::search().elements().offset(off).limit(lim).query() };
                    let r = rd(db, RQ::Search(q)).map_err(|x| ("elements-search-slice-failed".to_string(), format!("offset {off} limit {lim}: {}", e(x))))?;
                    let want: Vec<i64> = ids.iter().copied().skip(off as usize).take(if lim == 0 { usize::MAX } else { lim as usize }).collect();
                    if ids_of(&r) != want {
                        return err("elements-slice", format!("offset {off} limit {lim}: {:?} vs {want:?}", ids_of(&r)));
                    }
                }
            }
        }
    }
    Ok(())
}

struct Ctx<'a> {
    p: Prop,
    report: &'a Report,
    alpha: Vec<Cmd>,
    depth: usize,
    transitions: AtomicU64,
    rejected: AtomicU64,
    reloads: AtomicU64,
    states: DistinctCounter,
}

fn replay_json(base: &str, path: &[usize], alpha: &[Cmd]) -> Value {
    json!({"base": base, "commands": path.iter().map(|i| alpha[*i].name()).collect::<Vec<_>>(), "command_indexes": path})
}

/// One step on (db, model). Returns false if exploration below must stop.
/// `observe`: compare the property's observations after the step.
fn step(ctx: &Ctx, db: &mut Box<dyn DbLike>, m: &mut RefDb, c: &Cmd, observe: bool, rj: &dyn Fn() -> Value) -> bool {
    ctx.transitions.fetch_add(1, Ordering::Relaxed);
    let st = c.step();
    let r = catch(|| st.run(db.as_mut()));
    let r = match r {
        Ok(r) => r,
        Err(p) => {
            ctx.report.violation(&format!("cmd={}|panic|{}|{}", c.kind(), p.file(), p.normalised()), &format!("panic: {} at {}", p.message, p.location), rj());
            return false;
        }
    };
    let mut problems = vec![];
    let verdict = m.apply(c, r.as_ref().ok().map(|v| v.as_slice()), &mut problems);
    match (&r, &verdict) {
        (_, Err(Reject(why))) if why.starts_with("SKIP") => return false,
        (Ok(_), Err(Reject(why))) => {
            ctx.report.violation(&format!("cmd={}|accepted-invalid|{}", c.kind(), why), &format!("`{}` succeeded although it must be rejected ({why})", c.name()), rj());
            return false;
        }
        (Err(e), Ok(())) => {
            ctx.report.violation(&format!("cmd={}|rejected-valid|{}", c.kind(), engine::normalise(&e.description)), &format!("`{}` failed: {}", c.name(), e.description), rj());
            return false;
        }
        (Err(_), Err(_)) => {
            ctx.rejected.fetch_add(1, Ordering::Relaxed);
            // a rolled back query may legitimately reorder an element's properties (C13)
            for v in m.values.values_mut() {
                v.1 = false;
            }
        }
        (Ok(_), Ok(())) => {}
    }
    if !problems.is_empty() {
        ctx.report.violation(&format!("cmd={}|ids|{}", c.kind(), engine::normalise(&problems[0])), &problems.join("; "), rj());
        return false;
    }
    if !observe {
        return true;
    }
    match catch(|| compare(ctx.p, db.as_ref(), m)) {
        Ok(Ok(())) => true,
        Ok(Err((clause, what))) => {
            ctx.report.violation(&format!("cmd={}|clause={clause}", c.kind()), &format!("after `{}`: {what}", c.name()), rj());
            false
        }
        Err(p) => {
            ctx.report.violation(&format!("cmd={}|read-panic|{}|{}", c.kind(), p.file(), p.normalised()), &format!("panic while reading: {} at {}", p.message, p.location), rj());
            false
        }
    }
}

/// Replays base script + path on a FRESH database (no copies: in-memory state such as the
/// undo stack is exactly what a user's process would have), observing after the last step.
/// Returns false if the path must not be extended.
fn run_path(ctx: &Ctx, base: &(&'static str, Vec<Cmd>), path: &[usize]) -> bool {
    let Ok(mut db) = Variant::Memory.open("/nonexistent/c08") else {
        engine::machinery_failure("cannot open an in-memory database");
    };
    let mut m = RefDb::default();
    for c in &base.1 {
        let rj = || json!({"base": base.0, "base_script_step": c.name()});
        if !step(ctx, &mut db, &mut m, c, false, &rj) {
            return false;
        }
    }
    for (n, i) in path.iter().enumerate() {
        let last = n + 1 == path.len();
        let rj = || replay_json(base.0, &path[..=n], &ctx.alpha);
        if !step(ctx, &mut db, &mut m, &ctx.alpha[*i], last, &rj) {
            return false;
        }
    }
    let mut s = String::new();
    let _ = write!(s, "{m:?}");
    ctx.states.insert(s.as_bytes());
    // the same observations on the state as a NEW process would load it (backup to a file,
    // open that file): everything derived in memory while loading must agree with the model too
    if !path.is_empty() {
        let c = &ctx.alpha[*path.last().unwrap()];
        let rj = || {
            let mut v = replay_json(base.0, path, &ctx.alpha);
            v["then"] = json!("backup to a file, open it as a new database, observe");
            v
        };
        let file = reload_file();
        let _ = std::fs::remove_file(&file);
        let reloaded = catch(|| -> Result<Box<dyn DbLike>, agdb::DbError> {
            db.backup_to(&file)?;
            Variant::Memory.open(&file)
        });
        let _ = std::fs::remove_file(&file);
        match reloaded {
            Ok(Ok(db2)) => {
                ctx.reloads.fetch_add(1, Ordering::Relaxed);
                match catch(|| compare(ctx.p, db2.as_ref(), &m)) {
                    Ok(Ok(())) => {}
                    Ok(Err((clause, what))) => {
                        ctx.report.violation(&format!("cmd={}|after-reload|clause={clause}", c.kind()), &format!("after `{}`, backup and reload: {what}", c.name()), rj());
                        return false;
                    }
                    Err(p) => {
                        ctx.report.violation(&format!("cmd={}|after-reload|read-panic|{}|{}", c.kind(), p.file(), p.normalised()), &format!("panic while reading the reloaded database: {} at {}", p.message, p.location), rj());
                        return false;
                    }
                }
            }
            Ok(Err(e)) => {
                ctx.report.violation(&format!("cmd={}|after-reload|load-fails|{}", c.kind(), engine::normalise(&e.description)), &format!("after `{}` the backup cannot be loaded: {}", c.name(), e.description), rj());
                return false;
            }
            Err(p) => {
                ctx.report.violation(&format!("cmd={}|after-reload|load-panic|{}|{}", c.kind(), p.file(), p.normalised()), &format!("panic while backing up / loading: {} at {}", p.message, p.location), rj());
                return false;
            }
        }
    }
    true
}

/// one scratch file per process (the worker processes are single-threaded); removed after every use
fn reload_file() -> String {
    let base = if std::path::Path::new("/dev/shm").is_dir() { std::path::PathBuf::from("/dev/shm") } else { std::env::temp_dir() };
    base.join(format!("verif-c08reload-{}.agdb", std::process::id())).to_string_lossy().to_string()
}

/// whether a path is extendable, judged silently (its own work item reports its violations)
fn run_path_quiet(ctx: &Ctx, base: &(&'static str, Vec<Cmd>), path: &[usize]) -> bool {
    let silent = Report::new(&engine::Args { property: ctx.report.property.clone(), tier: ctx.report.tier, replay: None, seed: 0, extra: vec![] }, "model_checking");
    let c2 = Ctx { p: ctx.p, report: &silent, alpha: ctx.alpha.clone(), depth: ctx.depth, transitions: AtomicU64::new(0), rejected: AtomicU64::new(0), reloads: AtomicU64::new(0), states: DistinctCounter::default() };
    run_path(&c2, base, path)
}

fn dfs(ctx: &Ctx, base: &(&'static str, Vec<Cmd>), path: &mut Vec<usize>) {
    if path.len() >= ctx.depth {
        return;
    }
    for i in 0..ctx.alpha.len() {
        path.push(i);
        if run_path(ctx, base, path) {
            dfs(ctx, base, path);
        }
        path.pop();
    }
}

pub fn run(args: &Args) -> i32 {
    let (p, dq, dt) = match args.property.as_str() {
        "C08" => (Prop::C08, 5, 6),
        "C09" => (Prop::C09, 5, 6),
        "C10" => (Prop::C10, 5, 6),
        "C11" => (Prop::C11, 5, 6),
        "C18" => (Prop::C18, 5, 6),
        _ => engine::machinery_failure("c08: unknown property"),
    };
    let report = Report::new(args, "model_checking");
    let depth: usize = std::env::var("VERIF_DEPTH").ok().and_then(|s| s.parse().ok()).unwrap_or(args.tier.pick(dq, dt));
    let ctx = Ctx { p, report: &report, alpha: alphabet(p), depth, transitions: AtomicU64::new(0), rejected: AtomicU64::new(0), reloads: AtomicU64::new(0), states: DistinctCounter::default() };
    let bs = bases(p);

    if let Some(path) = &args.replay {
        let v: Value = serde_json::from_str(&std::fs::read_to_string(path).unwrap_or_else(|e| engine::machinery_failure(&e.to_string()))).unwrap();
        let r = &v["replay"];
        let bi = bs.iter().position(|b| Some(b.0) == r["base"].as_str()).unwrap_or(0);
        let idx: Vec<usize> = r["command_indexes"].as_array().map(|a| a.iter().map(|x| x.as_u64().unwrap_or(0) as usize).collect()).unwrap_or_default();
        for n in 1..=idx.len() {
            if !run_path(&ctx, &bs[bi], &idx[..n]) {
                break;
            }
        }
        return report.finish();
    }

    // work items: (base, first command[, second command])
    let mut items = vec![];
    for bi in 0..bs.len() {
        // the base state itself must satisfy the clauses
        for i in 0..ctx.alpha.len() {
            items.push((bi, vec![i]));
            if depth >= 2 {
                for j in 0..ctx.alpha.len() {
                    items.push((bi, vec![i, j]));
                }
            }
        }
    }
    let run_item = |n: usize| {
        let (bi, prefix) = &items[n];
        // a prefix of length 2 runs only if its first command alone is extendable; it owns its extensions
        if prefix.len() == 1 {
            run_path(&ctx, &bs[*bi], prefix);
            return;
        }
        let mut m_probe = prefix[..1].to_vec();
        let saved = ctx.transitions.load(Ordering::Relaxed);
        let _ = saved;
        if !run_path_quiet(&ctx, &bs[*bi], &m_probe) {
            return;
        }
        m_probe.push(prefix[1]);
        if run_path(&ctx, &bs[*bi], &m_probe) {
            dfs(&ctx, &bs[*bi], &mut m_probe);
        }
    };
    // items run in worker processes: a subject that aborts the process is charged to its item
    let counts = |r: &Report| {
        r.set("states", json!(ctx.states.len()));
        r.set("transitions", json!(ctx.transitions.load(Ordering::SeqCst)));
        r.set("traces_validated_against_impl", json!(ctx.transitions.load(Ordering::SeqCst)));
        r.set("commands_rejected_by_both", json!(ctx.rejected.load(Ordering::SeqCst)));
        r.set("sequences_also_observed_after_backup_and_reload", json!(ctx.reloads.load(Ordering::SeqCst)));
    };
    if engine::run_items_isolated(args, &report, items.len(), &run_item, &counts, &|n| ("sequence-prefix".to_string(), format!("sequences starting with {:?}", items[n].1.iter().map(|i| ctx.alpha[*i].name()).collect::<Vec<_>>()), replay_json(bs[items[n].0].0, &items[n].1, &ctx.alpha))) {
        return 0;
    }
    report.sample(replay_json(bs[0].0, &[0, 2, 8], &ctx.alpha));
    report.sample(json!({"alphabet": ctx.alpha.iter().map(|c| c.name()).collect::<Vec<_>>()}));
    report.set("depth", json!(depth));
    report.set("alphabet_size", json!(ctx.alpha.len()));
    report.set("base_states", json!(bs.iter().map(|b| b.0).collect::<Vec<_>>()));
    report.set("exhaustive", json!(true));
    report.set("rule", json!("every command sequence of <= depth over the property's alphabet from its base states, replayed from scratch on a fresh real DbMemory (no copies, so in-memory state such as the undo stack is faithful) and on the reference model RefDb; acceptance and the learned ids (sign, freshness) are compared at every command, the property's observation clauses after the last command of every sequence, and once more on a new database loaded from a backup of that state. states = distinct model states reached."));
    report.assume("the reference model follows the property statement and docs/03.references/01.queries.md; ids are learned from results; the order of an element's remaining properties after a key removal is not constrained");
    report.finish()
}
