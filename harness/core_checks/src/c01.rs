//! C01 — log recovery restores the last committed storage content at every
//! crash point. Sequence explorer x crash-point enumerator on the real
//! `Storage<FileStorage>`; see DESIGN.md §3 and §4/C01.

use crate::storops::*;
use agdb::verif::StorageProbe;
use agdb::{FileStorage, FileStorageMemoryMapped, StorageData};
use engine::{Args, DistinctCounter, Report, Scratch, Tier, catch};
use serde_json::{Value, json};
use std::sync::atomic::{AtomicU64, Ordering};

#[derive(Clone, Copy)]
struct Cfg {
    tears: bool,
    second_crash: bool,
    mapped: bool,
}

#[derive(Default)]
struct Stats {
    programs: AtomicU64,
    recoveries: AtomicU64,
    crash_points: AtomicU64,
    torn: AtomicU64,
    second: AtomicU64,
    drop_checks: AtomicU64,
    ops_rejected: AtomicU64,
}

struct Ctx<'a> {
    report: &'a Report,
    stats: &'a Stats,
    distinct_images: &'a DistinctCounter,
    nontrivial_images: &'a DistinctCounter,
    outcomes: &'a DistinctCounter,
    cfg: Cfg,
}

pub fn run(args: &Args) -> i32 {
    let report = Report::new(args, "fault_enumeration");
    let depth = match args.tier {
        Tier::Quick => 2,
        Tier::Thorough => 3,
    };
    let depth = std::env::var("VERIF_C01_DEPTH").ok().and_then(|s| s.parse().ok()).unwrap_or(depth);
    let cfg = Cfg { tears: true, second_crash: true, mapped: true };
    let stats = Stats::default();
    let distinct_images = DistinctCounter::default();
    let nontrivial_images = DistinctCounter::default();
    let outcomes = DistinctCounter::default();
    let ctx = Ctx { report: &report, stats: &stats, distinct_images: &distinct_images, nontrivial_images: &nontrivial_images, outcomes: &outcomes, cfg };

    if let Some(path) = &args.replay {
        return replay(&ctx, path);
    }

    let alpha = alphabet(true, false);
    // work items: (base, first op[, second op]) prefixes
    let mut items: Vec<(Base, Vec<SOp>)> = vec![];
    for b in BASES_WITH_OPEN_TX {
        for a in &alpha {
            if depth >= 2 {
                items.push((b, vec![*a]));
                for a2 in &alpha {
                    items.push((b, vec![*a, *a2]));
                }
            } else {
                items.push((b, vec![*a]));
            }
        }
    }
    let scratch = Scratch::new("c01");
    let run_item = |i: usize| {
        let (base, prefix) = &items[i];
        let mut prog = prefix.clone();
        // a prefix of length 2 owns all its extensions up to depth; programs are also
        // extended past an operation the implementation rejected (a rejected operation
        // must not leave a transaction open); only a panic ends a program
        let extendable = run_program(&ctx, *base, &prog, &scratch);
        if prefix.len() == 2 && extendable {
            extend(&ctx, *base, &mut prog, depth, &alpha, &scratch);
        }
    };
    let s = &stats;
    // items run in worker processes: a subject that aborts the process is charged to its item
    let counts = |r: &Report| {
        r.set("evaluations", json!(s.recoveries.load(Ordering::SeqCst)));
        r.set("distinct_nontrivial", json!(nontrivial_images.len()));
        r.set("programs", json!(s.programs.load(Ordering::SeqCst)));
        r.set("crash_points", json!(s.crash_points.load(Ordering::SeqCst)));
        r.set("torn_call_images", json!(s.torn.load(Ordering::SeqCst)));
        r.set("second_crash_images", json!(s.second.load(Ordering::SeqCst)));
        r.set("drop_checks", json!(s.drop_checks.load(Ordering::SeqCst)));
        r.set("ops_rejected_by_impl", json!(s.ops_rejected.load(Ordering::SeqCst)));
        r.set("distinct_images", json!(distinct_images.len()));
        r.set("distinct_recovered_contents", json!(outcomes.len()));
    };
    if engine::run_items_isolated(args, &report, items.len(), &run_item, &counts, &|i| ("program-prefix".to_string(), format!("programs starting with {:?} from {:?}", items[i].1, items[i].0), json!({"base": format!("{:?}", items[i].0), "ops": items[i].1.iter().map(|o| format!("{o:?}")).collect::<Vec<_>>()}))) {
        return 0;
    }

    report.set("rule", json!("every sequence of <= depth storage operations over the alphabet from 5 base states (fresh, free hole, two live records, and the latter two with an outermost transaction already open); every prefix of the file-system calls of the last operation (and of the final drop) is a crash image, plus byte-prefixes of the interrupted call, plus every prefix of the calls made by recovery itself; each image is reopened with FileStorage and FileStorageMemoryMapped. distinct = distinct (data,log) byte images; non-trivial = images whose recovery log is not empty"));
    report.set("exhaustive", json!(true));
    report.set("depth", json!(depth));
    report.set("alphabet_size", json!(alpha.len()));
    report.set("base_states", json!(BASES_WITH_OPEN_TX.len()));
    report.assume("crash model: files hold exactly the effects of a prefix of the process's file-system calls, last call possibly torn (no reordering; the code never syncs)");
    report.assume("the fs-event hook reports every mutating call: checked by comparing the shadow image with the real files after every step");
    report.finish()
}

fn extend(ctx: &Ctx, base: Base, prog: &mut Vec<SOp>, depth: usize, alpha: &[SOp], scratch: &Scratch) {
    if prog.len() >= depth {
        return;
    }
    for a in alpha {
        prog.push(*a);
        if run_program(ctx, base, prog, scratch) {
            extend(ctx, base, prog, depth, alpha, scratch);
        }
        prog.pop();
    }
}

fn replay(ctx: &Ctx, path: &str) -> i32 {
    let text = std::fs::read_to_string(path).unwrap_or_else(|e| engine::machinery_failure(&format!("{path}: {e}")));
    let v: Value = serde_json::from_str(&text).unwrap_or_else(|e| engine::machinery_failure(&format!("{path}: {e}")));
    let r = &v["replay"];
    let base = Base::parse(r["base"].as_str().unwrap_or("")).unwrap_or_else(|| engine::machinery_failure("bad base"));
    let ops: Vec<SOp> = r["ops"].as_array().unwrap().iter().map(|o| parse_op(o.as_str().unwrap()).unwrap()).collect();
    let scratch = Scratch::new("c01r");
    run_program(ctx, base, &ops, &scratch);
    let n = ctx.report.violation_count();
    println!("replay: {} violating images in program {:?} from base {:?}", n, ops, base);
    ctx.report.finish()
}

/// Which contents recovery may produce for a crash inside the step.
struct Expect<'a> {
    prev: &'a [u8],
    /// Some(new) iff the step completes an outermost transaction
    new: Option<&'a [u8]>,
}

fn run_program(ctx: &Ctx, base: Base, ops: &[SOp], scratch: &Scratch) -> bool {
    ctx.stats.programs.fetch_add(1, Ordering::Relaxed);
    scratch.clear();
    let f = scratch.path("s.agdb");
    let w = wal_name(&f);
    let replay = json!({"base": format!("{base:?}"), "ops": ops.iter().map(|o| format!("{o:?}")).collect::<Vec<_>>()});
    let last_kind = ops.last().map(|o| o.kind()).unwrap_or("none");

    let r = catch(|| {
        let mut p = match StorageProbe::<FileStorage>::new(&f) {
            Ok(p) => p,
            Err(e) => {
                ctx.report.violation("setup|open", &format!("cannot create storage: {e:?}"), replay.clone());
                return false;
            }
        };
        let mut stack: Vec<u64> = vec![];
        let mut tag = 1u8;
        let mut committed = std::fs::read(&f).unwrap();
        for op in base.script() {
            let _ = apply(&mut p, op, base.script_slots(), tag, &mut stack);
            tag += 1;
            if stack.is_empty() {
                committed = std::fs::read(&f).unwrap();
            }
        }
        for op in &ops[..ops.len() - 1] {
            // a rejected operation (covered as the last step of the shorter program) must leave
            // the nesting as it was: the program goes on, and what later completes as an
            // outermost transaction must be durable
            let _ = apply(&mut p, *op, base.slots(), tag, &mut stack);
            tag += 1;
            if stack.is_empty() {
                committed = std::fs::read(&f).unwrap();
            }
        }
        // ---- last step under the hook
        let op = *ops.last().unwrap();
        let pre = Shadow::from_files(&f, &w);
        let outermost = match op {
            SOp::Begin => false,
            SOp::Commit => stack.len() == 1,
            _ => stack.is_empty(),
        };
        let log = record_events();
        let res = apply(&mut p, op, base.slots(), tag, &mut stack);
        agdb::verif::clear_fs_hook();
        let events = log.borrow().clone();
        if res.is_err() {
            ctx.stats.ops_rejected.fetch_add(1, Ordering::Relaxed);
            if !events.is_empty() {
                ctx.report.violation(&format!("op={last_kind}|rejected-with-effects"), &format!("operation returned {res:?} after {} file-system calls", events.len()), replay.clone());
            }
        }
        // bind the shadow to the real files
        let mut post = pre.clone();
        for e in &events {
            post.apply(e);
        }
        let real = Shadow::from_files(&f, &w);
        if real != post {
            engine::machinery_failure(&format!("shadow diverged from real files after {ops:?} from {base:?}: the fs-event hook misses a call"));
        }
        let new_content = real.data.clone();
        let expect = Expect { prev: &committed, new: if outermost && res.is_ok() { Some(&new_content) } else { None } };
        crash_sweep(ctx, &pre, &events, &expect, scratch, last_kind, "step", &replay);
        if outermost && res.is_ok() {
            if !real.wal.is_empty() {
                ctx.report.violation(&format!("op={last_kind}|log-not-empty-after-commit"), "recovery log not empty after an outermost transaction completed", replay.clone());
            }
            committed = new_content.clone();
        }
        // ---- drop (with or without an unfinished transaction)
        let pre = real;
        let log = record_events();
        drop(p);
        agdb::verif::clear_fs_hook();
        let events = log.borrow().clone();
        let mut post = pre.clone();
        for e in &events {
            post.apply(e);
        }
        let real = Shadow::from_files(&f, &w);
        if real != post {
            engine::machinery_failure("shadow diverged from real files after drop");
        }
        ctx.stats.drop_checks.fetch_add(1, Ordering::Relaxed);
        if real.data != committed || !real.wal.is_empty() {
            ctx.report.violation(
                &format!("drop|open_tx={}|final-content", !stack.is_empty()),
                &format!("after drop the file differs from the last committed content (len {} vs {}, log {} bytes)", real.data.len(), committed.len(), real.wal.len()),
                replay.clone(),
            );
        }
        let expect = Expect { prev: &committed, new: None };
        crash_sweep(ctx, &pre, &events, &expect, scratch, last_kind, if stack.is_empty() { "drop" } else { "drop_open_tx" }, &replay);
        true
    });
    match r {
        Ok(extendable) => extendable,
        Err(p) => {
            ctx.report.violation(&format!("op={last_kind}|panic|{}|{}", p.file(), p.normalised()), &format!("panic: {} at {}", p.message, p.location), replay);
            false
        }
    }
}

fn crash_sweep(ctx: &Ctx, pre: &Shadow, events: &[Ev], expect: &Expect, scratch: &Scratch, op_kind: &str, phase: &str, replay: &Value) {
    let mut img = pre.clone();
    let mut seen_new = false;
    for k in 0..=events.len() {
        // crash after k calls
        ctx.stats.crash_points.fetch_add(1, Ordering::Relaxed);
        let next = events.get(k).map(|e| e.kind()).unwrap_or("end");
        check_image(ctx, &img, expect, &mut seen_new, scratch, &format!("{phase}|op={op_kind}|next={next}|torn=no"), replay, k, 0, true);
        if k == events.len() {
            break;
        }
        if ctx.cfg.tears {
            let len = match &events[k] {
                Ev::DataWrite(_, b) => b.len(),
                Ev::WalAppend(b) => b.len(),
                _ => 0,
            };
            let mut cuts: Vec<usize> = match &events[k] {
                Ev::WalAppend(_) => (1..len).collect(),
                _ => vec![1, len / 2, len.saturating_sub(1)],
            };
            cuts.retain(|c| *c > 0 && *c < len);
            cuts.sort();
            cuts.dedup();
            for c in cuts {
                let mut t = img.clone();
                t.apply_torn(&events[k], c);
                ctx.stats.torn.fetch_add(1, Ordering::Relaxed);
                let mut sn = seen_new;
                check_image(ctx, &t, expect, &mut sn, scratch, &format!("{phase}|op={op_kind}|next={next}|torn=yes"), replay, k, c, false);
            }
        }
        img.apply(&events[k]);
    }
}

#[allow(clippy::too_many_arguments)]
fn check_image(ctx: &Ctx, img: &Shadow, expect: &Expect, seen_new: &mut bool, scratch: &Scratch, sig: &str, replay: &Value, k: usize, cut: usize, second: bool) {
    let mut key = img.data.clone();
    key.extend_from_slice(b"|WAL|");
    key.extend_from_slice(&img.wal);
    let fresh = ctx.distinct_images.insert(&key);
    if !img.wal.is_empty() && fresh {
        ctx.nontrivial_images.insert(&key);
    }
    if fresh && !img.wal.is_empty() {
        ctx.report.sample(json!({"program": replay, "crash_after_calls": k, "torn_bytes": cut, "data_len": img.data.len(), "log_hex": engine::hex(&img.wal)}));
    }
    let (recovered, rec_events) = match recover(ctx, img, scratch) {
        Ok(x) => x,
        Err(why) => {
            ctx.report.violation(&format!("{sig}|clause=open|{}", engine::normalise(&why)), &format!("crash image (after {k} calls, {cut} torn bytes) does not reopen: {why}"), with_point(replay, k, cut));
            return;
        }
    };
    ctx.outcomes.insert(&recovered);
    let ok = if recovered == expect.prev && !*seen_new {
        true
    } else if Some(recovered.as_slice()) == expect.new {
        *seen_new = true;
        true
    } else {
        false
    };
    if !ok {
        let clause = if recovered.len() != expect.prev.len() && expect.new.map(|n| n.len() != recovered.len()).unwrap_or(true) { "length" } else { "bytes" };
        ctx.report.violation(
            &format!("{sig}|clause={clause}"),
            &format!(
                "after a crash following {k} file-system calls ({cut} torn bytes) reopening yields {} bytes that equal neither the content before the transaction ({} bytes) nor after it{}",
                recovered.len(),
                expect.prev.len(),
                if *seen_new { " (an earlier crash point had already yielded the new content)" } else { "" }
            ),
            with_point(replay, k, cut),
        );
    }
    // second crash inside recovery
    if second && ctx.cfg.second_crash && !rec_events.is_empty() {
        let target: &[u8] = &recovered;
        let mut img2 = img.clone();
        for (j, e) in rec_events.iter().enumerate() {
            if j > 0 {
                ctx.stats.second.fetch_add(1, Ordering::Relaxed);
                match recover(ctx, &img2, scratch) {
                    Ok((r2, _)) => {
                        if r2 != target {
                            ctx.report.violation(
                                &format!("{sig}|clause=second-crash"),
                                &format!("a second crash after {j} calls of the recovery of the image taken after {k} calls yields different content than the uninterrupted recovery"),
                                with_point(replay, k, cut),
                            );
                        }
                    }
                    Err(why) => ctx.report.violation(&format!("{sig}|clause=second-crash-open"), &format!("image of a crash during recovery does not reopen: {why}"), with_point(replay, k, cut)),
                }
            }
            img2.apply(e);
        }
    }
}

fn with_point(replay: &Value, k: usize, cut: usize) -> Value {
    let mut r = replay.clone();
    r["crash_after_calls"] = json!(k);
    r["torn_bytes"] = json!(cut);
    r
}

/// Open the image with the real open path; returns the recovered data-file
/// content and the file-system calls recovery made.
fn recover(ctx: &Ctx, img: &Shadow, scratch: &Scratch) -> Result<(Vec<u8>, Vec<Ev>), String> {
    let f = scratch.path("r.agdb");
    let w = wal_name(&f);
    img.write_files(&f, &w);
    ctx.stats.recoveries.fetch_add(1, Ordering::Relaxed);
    let log = record_events();
    let r = catch(|| -> Result<Vec<u8>, String> {
        let s = FileStorage::new(&f).map_err(|e| format!("FileStorage::new: {}", e.description))?;
        let len = s.len();
        let bytes = s.read(0, len).map_err(|e| format!("read: {}", e.description))?.to_vec();
        Ok(bytes)
    });
    agdb::verif::clear_fs_hook();
    let events = log.borrow().clone();
    let via_api = match r {
        Ok(Ok(b)) => b,
        Ok(Err(e)) => return Err(e),
        Err(p) => return Err(format!("panic {} at {}", p.message, p.file())),
    };
    let after = Shadow::from_files(&f, &w);
    if after.data != via_api {
        return Err("content read through the storage differs from the file content".to_string());
    }
    if !after.wal.is_empty() {
        return Err("recovery log not empty after recovery".to_string());
    }
    if ctx.cfg.mapped {
        img.write_files(&f, &w);
        ctx.stats.recoveries.fetch_add(1, Ordering::Relaxed);
        let r = catch(|| -> Result<Vec<u8>, String> {
            let s = FileStorageMemoryMapped::new(&f).map_err(|e| format!("FileStorageMemoryMapped::new: {}", e.description))?;
            let len = s.len();
            Ok(s.read(0, len).map_err(|e| format!("read: {}", e.description))?.to_vec())
        });
        match r {
            Ok(Ok(b)) => {
                if b != via_api {
                    return Err("memory-mapped variant recovers different content than the file variant".to_string());
                }
            }
            Ok(Err(e)) => return Err(e),
            Err(p) => return Err(format!("panic {} at {}", p.message, p.file())),
        }
    }
    Ok((via_api, events))
}
