//! C19 — every query terminates after any history.
//! (a) real constants: insert/remove cycle families over the hashed structures
//!     (alias maps, index maps) through the public Db API, every query under a
//!     deterministic hash-probe budget;
//! (b) scaled constants: explicit-state BFS to a fixpoint over the real
//!     MultiMapStorage with minimum capacity 4 against a BTreeMap model.
//! DESIGN.md §4/C19.

use crate::dbops::*;
use agdb::verif::MapProbe;
use agdb::{DbKeyValue, MemoryStorage, QueryBuilder, StableHash};
use engine::{Args, Report, catch};
use serde_json::{Value, json};
use std::collections::{BTreeMap, HashSet, VecDeque};

fn kv<V: Into<agdb::DbValue>>(k: &str, v: V) -> DbKeyValue {
    (k, v).into()
}

#[derive(Clone, Copy, Debug, PartialEq)]
enum Structure {
    Alias,
    IndexValue,
}
#[derive(Clone, Copy, Debug, PartialEq)]
enum Order {
    Oldest,
    Newest,
}
#[derive(Clone, Copy, Debug, PartialEq)]
enum Keys {
    Distinct,
    CollidingMod64,
}

/// n-th key of a pattern: alias strings / index values
fn alias_key(p: Keys, n: u64) -> String {
    match p {
        Keys::Distinct => format!("alias{n}"),
        Keys::CollidingMod64 => {
            // search strings whose stable hash is 7 mod 64; deterministic
            let mut found = 0;
            let mut i = 0u64;
            loop {
                let s = format!("c{i}");
                if s.stable_hash() % 64 == 7 {
                    if found == n {
                        return s;
                    }
                    found += 1;
                }
                i += 1;
            }
        }
    }
}
fn index_val(p: Keys, n: u64) -> i64 {
    match p {
        Keys::Distinct => 1000 + n as i64,
        Keys::CollidingMod64 => 7 + 64 * (n as i64 + 1),
    }
}

fn budgeted<T>(f: impl FnOnce() -> T) -> Result<T, engine::Panicked> {
    agdb::verif::set_probe_budget(PROBE_BUDGET);
    let r = catch(f);
    agdb::verif::set_probe_budget(u64::MAX);
    r
}

pub fn run(args: &Args) -> i32 {
    let report = Report::new(args, "model_checking");
    let cycles: u64 = std::env::var("VERIF_C19_K").ok().and_then(|s| s.parse().ok()).unwrap_or(args.tier.pick(200, 2000));
    let max_len: u64 = args.tier.pick(5, 7);
    let only: Option<Value> = args.replay.as_ref().map(|p| serde_json::from_str::<Value>(&std::fs::read_to_string(p).unwrap_or_else(|e| engine::machinery_failure(&e.to_string()))).unwrap()["replay"].clone());

    // ---------------- (a) families, real constants
    let mut families = vec![];
    for s in [Structure::Alias, Structure::IndexValue] {
        for w in [0u64, 1, 5, 30, 59] {
            for o in [Order::Oldest, Order::Newest] {
                for k in [Keys::Distinct, Keys::CollidingMod64] {
                    families.push((s, w, o, k));
                }
            }
        }
    }
    let colliding: Vec<String> = (0..70).map(|n| alias_key(Keys::CollidingMod64, n)).collect();
    let queries = std::sync::atomic::AtomicU64::new(0);
    let max_steps = std::sync::atomic::AtomicU64::new(0);
    let is_worker = engine::child_ctl(args).is_some();
    let run_family = |i: usize| {
        let (s, w, o, k) = families[i];
        let fam = json!({"kind": "family", "structure": format!("{s:?}"), "live": w, "remove": format!("{o:?}"), "keys": format!("{k:?}")});
        if let Some(r) = &only {
            if r["kind"] != "family" || r["structure"] != fam["structure"] || r["live"] != fam["live"] || r["remove"] != fam["remove"] || r["keys"] != fam["keys"] {
                return;
            }
        }
        let mut db = Variant::Memory.open("/nonexistent/c19").unwrap();
        let akey = |n: u64| -> String {
            match k {
                Keys::Distinct => alias_key(k, n),
                Keys::CollidingMod64 => colliding.get(n as usize).cloned().unwrap_or_else(|| alias_key(k, n)),
            }
        };
        // one node per live key plus one spare node for the cycling key
        let _ = db.m(&q::nodes_count(w + 2));
        if s == Structure::IndexValue {
            let _ = db.m(&q::index(K));
        }
        let sig = |op: &str, p: &engine::Panicked| format!("family|structure={s:?}|keys={k:?}|op={op}|{}|{}", p.file(), p.normalised());
        // live window: keys next..next+w are live, each on its own node
        let mut live: VecDeque<(u64, i64)> = VecDeque::new(); // (key ordinal, node id)
        let mut next_key = 0u64;
        let mut do_insert = |db: &mut Box<dyn DbLike>, key: u64, node: i64, cyc: u64| -> bool {
            let r = budgeted(|| match s {
                Structure::Alias => db.m(&q::aliases(&[&akey(key)], vec![id(node)])).map(|_| ()),
                Structure::IndexValue => db.m(&q::values(vec![id(node)], vec![vec![kv(K, index_val(k, key))]])).map(|_| ()),
            });
            queries.fetch_add(1, std::sync::atomic::Ordering::Relaxed);
            max_steps.fetch_max(agdb::verif::probe_steps(), std::sync::atomic::Ordering::Relaxed);
            match r {
                Ok(Ok(())) => true,
                Ok(Err(e)) => {
                    report.violation(&format!("family|structure={s:?}|keys={k:?}|op=insert|error"), &format!("cycle {cyc}: insert failed: {}", e.description), fam.clone());
                    false
                }
                Err(p) => {
                    report.violation(&sig("insert", &p), &format!("cycle {cyc} (live {w}, remove {o:?}): the insertion does not return within {PROBE_BUDGET} probe steps: {}", p.message), fam.clone());
                    false
                }
            }
        };
        for n in 0..w {
            if !do_insert(&mut db, next_key, n as i64 + 1, 0) {
                return;
            }
            live.push_back((next_key, n as i64 + 1));
            next_key += 1;
        }
        let mut free_nodes: Vec<i64> = vec![w as i64 + 1, w as i64 + 2];
        for cyc in 1..=cycles {
            // insert a new key on a free node, look it up, then remove the oldest/newest other live key
            let node = free_nodes.pop().unwrap();
            if !do_insert(&mut db, next_key, node, cyc) {
                return;
            }
            live.push_back((next_key, node));
            next_key += 1;
            let (lk, ln) = *live.back().unwrap();
            let r = budgeted(|| match s {
                Structure::Alias => db.r(&RQ::Values(QueryBuilder::select().ids(akey(lk).as_str()).query())).map(|r| r.elements.first().map(|e| e.id.0)),
                Structure::IndexValue => db.r(&RQ::Search(QueryBuilder::search().index(K).value(index_val(k, lk)).query())).map(|r| r.elements.first().map(|e| e.id.0)),
            });
            queries.fetch_add(1, std::sync::atomic::Ordering::Relaxed);
            match r {
                Ok(Ok(Some(got))) if got == ln => {}
                Ok(other) => {
                    report.violation(&format!("family|structure={s:?}|keys={k:?}|op=lookup|wrong-answer"), &format!("cycle {cyc}: lookup of the key just inserted on node {ln} returned {:?}", other.map_err(|e| e.description)), fam.clone());
                    return;
                }
                Err(p) => {
                    report.violation(&sig("lookup", &p), &format!("cycle {cyc}: lookup does not return within the probe budget: {}", p.message), fam.clone());
                    return;
                }
            }
            let (rk, rn) = match o {
                Order::Oldest => live.pop_front().unwrap(),
                Order::Newest => live.pop_back().unwrap(),
            };
            let r = budgeted(|| match s {
                Structure::Alias => db.m(&q::remove_aliases(&[&akey(rk)])).map(|_| ()),
                Structure::IndexValue => db.m(&q::remove_values(vec![K.into()], vec![id(rn)])).map(|_| ()),
            });
            queries.fetch_add(1, std::sync::atomic::Ordering::Relaxed);
            match r {
                Ok(Ok(())) => {}
                Ok(Err(e)) => {
                    report.violation(&format!("family|structure={s:?}|keys={k:?}|op=remove|error"), &format!("cycle {cyc}: {}", e.description), fam.clone());
                    return;
                }
                Err(p) => {
                    report.violation(&sig("remove", &p), &format!("cycle {cyc}: removal does not return within the probe budget: {}", p.message), fam.clone());
                    return;
                }
            }
            free_nodes.push(rn);
        }
    };
    // the families run in worker processes (a subject that aborts is charged to its family); the map BFS runs in the parent
    let counts = |r: &Report| {
        r.set("family_queries_under_budget", json!(queries.load(std::sync::atomic::Ordering::SeqCst)));
    };
    if only.is_some() {
        for i in 0..families.len() {
            run_family(i);
        }
    } else if engine::run_items_isolated(args, &report, families.len(), &run_family, &counts, &|i| (format!("family|structure={:?}|keys={:?}", families[i].0, families[i].3), format!("family {:?}", families[i]), json!({"kind": "family", "structure": format!("{:?}", families[i].0), "live": families[i].1, "remove": format!("{:?}", families[i].2), "keys": format!("{:?}", families[i].3)}))) {
        return 0;
    }

    // ---------------- (b) scaled constants: BFS over the real multi map, capacity floor 4
    let mut states: u64 = 0;
    let mut transitions: u64 = 0;
    let mut depth_reached = 0usize;
    let mut capped = false;
    for profile in if is_worker { vec![] } else { vec!["index", "map"] } {
    if only.as_ref().map(|r| r["kind"] == "map" && r["profile"] == profile).unwrap_or(true) {
        let keys = [0u64, 1, 4, 5, 8];
        let vals = [0u64, 1];
        #[derive(Clone, Copy, Debug, PartialEq)]
        enum MOp {
            Insert(u64, u64),
            MapInsert(u64, u64),
            RemoveKey(u64),
            RemoveValue(u64, u64),
        }
        let mut ops = vec![];
        if profile == "index" {
            // what DbIndex does with its MultiMapStorage: insert, remove_value (+ values, iter, len)
            for k in keys {
                for v in vals {
                    ops.push(MOp::Insert(k, v));
                }
            }
            for k in keys {
                for v in vals {
                    ops.push(MOp::RemoveValue(k, v));
                }
            }
        } else {
            // what MapImpl (alias maps, index list) does: insert = replace-or-insert, remove = remove_key (+ value, contains, iter, len)
            for k in keys {
                for v in vals {
                    ops.push(MOp::MapInsert(k, v));
                }
            }
            for k in keys {
                ops.push(MOp::RemoveKey(k));
            }
        }
        type Model = BTreeMap<u64, Vec<u64>>;
        struct Node {
            p: MapProbe<MemoryStorage>,
            m: Model,
            path: Vec<MOp>,
        }
        agdb::verif::set_min_map_capacity(4);
        let replay_path: Option<Vec<String>> = only.as_ref().and_then(|r| r["ops"].as_array().map(|a| a.iter().map(|x| x.as_str().unwrap_or("").to_string()).collect()));
        let root = MapProbe::<MemoryStorage>::new("/nonexistent/c19map").unwrap();
        let mut seen: HashSet<(u64, u64)> = HashSet::new();
        let key_of = |p: &MapProbe<MemoryStorage>| {
            let (raw, rec) = p.raw_state().unwrap();
            let mut k = raw;
            k.extend_from_slice(rec.as_bytes());
            let a = engine::fnv(&k);
            k.push(1);
            k.reverse();
            (a, engine::fnv(&k))
        };
        seen.insert(key_of(&root));
        let mut frontier = vec![Node { p: root, m: Model::new(), path: vec![] }];
        states += 1;
        let state_cap: u64 = args.tier.pick(150_000, 6_000_000);
        'bfs: while !frontier.is_empty() {
            depth_reached += 1;
            let mut next = vec![];
            for n in &frontier {
                for op in &ops {
                    if let Some(rp) = &replay_path {
                        if rp.get(n.path.len()).map(|s| s.as_str()) != Some(format!("{op:?}").as_str()) {
                            continue;
                        }
                    }
                    let total: usize = n.m.values().map(|v| v.len()).sum();
                    if matches!(op, MOp::Insert(..)) && total as u64 >= max_len {
                        continue; // size bound of the explored space
                    }
                    transitions += 1;
                    let mut path = n.path.clone();
                    path.push(*op);
                    let rj = || json!({"kind": "map", "profile": profile, "min_capacity": 4, "ops": path.iter().map(|o| format!("{o:?}")).collect::<Vec<_>>()});
                    let mut m = n.m.clone();
                    let mut p = match n.p.copy("c") {
                        Ok(p) => p,
                        Err(e) => {
                            report.violation("map|copy-failed", &e.description, rj());
                            continue;
                        }
                    };
                    agdb::verif::set_probe_budget(10_000);
                    let r = catch(|| match *op {
                        MOp::Insert(k, v) => p.insert(k, v).map(|_| None),
                        MOp::MapInsert(k, v) => p.map_insert(k, v),
                        MOp::RemoveKey(k) => p.remove_key(k).map(|_| None),
                        MOp::RemoveValue(k, v) => p.remove_value(k, v).map(|_| None),
                    });
                    agdb::verif::set_probe_budget(u64::MAX);
                    let opk = format!("{op:?}");
                    let opk = opk.split('(').next().unwrap().to_string();
                    let ret = match r {
                        Ok(Ok(x)) => x,
                        Ok(Err(e)) => {
                            report.violation(&format!("map|op={opk}|error"), &e.description, rj());
                            continue;
                        }
                        Err(pn) => {
                            report.violation(&format!("map|op={opk}|{}|{}", pn.file(), pn.normalised()), &format!("operation does not return within 10000 probe steps / panics: {}", pn.message), rj());
                            continue;
                        }
                    };
                    // model
                    match *op {
                        MOp::Insert(k, v) => m.entry(k).or_default().push(v),
                        MOp::MapInsert(k, v) => {
                            let old = m.insert(k, vec![v]).and_then(|o| o.first().copied());
                            if ret != old {
                                report.violation("map|op=MapInsert|wrong-return", &format!("insert returned {ret:?}, the previous value was {old:?}"), rj());
                                continue;
                            }
                        }
                        MOp::RemoveKey(k) => {
                            m.remove(&k);
                        }
                        MOp::RemoveValue(k, v) => {
                            if let Some(e) = m.get_mut(&k) {
                                if let Some(pos) = e.iter().position(|x| *x == v) {
                                    e.remove(pos);
                                }
                            }
                        }
                    }
                    m.retain(|_, v| !v.is_empty());
                    // compare (multiset per key, contains, len) under the budget
                    agdb::verif::set_probe_budget(10_000);
                    let cmp = catch(|| -> Result<(), String> {
                        let mut total = 0u64;
                        for k in keys {
                            let mut want = m.get(&k).cloned().unwrap_or_default();
                            want.sort();
                            total += want.len() as u64;
                            if profile == "index" {
                                // DbIndex reads: values(key)
                                let mut got = p.values(k).map_err(|e| e.description)?;
                                got.sort();
                                if got != want {
                                    return Err(format!("values({k}) = {got:?}, model {want:?}"));
                                }
                            } else {
                                // MapImpl reads: value(key)
                                let first = p.value(k).map_err(|e| e.description)?;
                                if first != want.first().copied() {
                                    return Err(format!("value({k}) = {first:?}, model {want:?}"));
                                }
                            }
                        }
                        if p.len() != total {
                            return Err(format!("len {} model {total}", p.len()));
                        }
                        let mut all = p.entries();
                        all.sort();
                        let mut wall: Vec<(u64, u64)> = m.iter().flat_map(|(k, vs)| vs.iter().map(|v| (*k, *v))).collect();
                        wall.sort();
                        if all != wall {
                            return Err(format!("iteration yields {all:?}, model {wall:?}"));
                        }
                        Ok(())
                    });
                    agdb::verif::set_probe_budget(u64::MAX);
                    match cmp {
                        Ok(Ok(())) => {}
                        Ok(Err(e)) => {
                            report.violation(&format!("map|op={opk}|content-differs"), &e, rj());
                            continue;
                        }
                        Err(pn) => {
                            report.violation(&format!("map|read-after={opk}|{}|{}", pn.file(), pn.normalised()), &format!("a lookup does not return within the probe budget / panics: {}", pn.message), rj());
                            continue;
                        }
                    }
                    if seen.insert(key_of(&p)) {
                        states += 1;
                        next.push(Node { p, m, path });
                        if states >= state_cap * if profile == "index" { 1 } else { 2 } {
                            capped = true;
                            break 'bfs;
                        }
                    }
                }
            }
            frontier = next;
        }
        agdb::verif::set_min_map_capacity(0);
        report.sample(json!({"kind": "map", "profile": profile, "min_capacity": 4, "ops_alphabet": ops.iter().map(|o| format!("{o:?}")).collect::<Vec<_>>(), "bfs_depth_reached": depth_reached}));
    }
    }
    report.sample(json!({"kind": "family", "structure": "Alias", "live": 59, "remove": "Oldest", "keys": "CollidingMod64", "cycles": cycles}));
    report.set("states", json!(states.max(1)));
    report.set("transitions", json!(transitions.max(1)));
    report.set("traces_validated_against_impl", json!(transitions + families.len() as u64));
    report.set("families", json!(families.len()));
    report.set("cycles_per_family", json!(cycles));
    if only.is_some() {
        report.set("family_queries_under_budget", json!(queries.load(std::sync::atomic::Ordering::SeqCst)));
    }
    report.set("probe_budget", json!(PROBE_BUDGET));
    report.set("map_bfs_depth_reached", json!(depth_reached));
    report.set("map_max_entries", json!(max_len));
    report.set("map_bfs_reached_fixpoint", json!(!capped));
    report.set("map_bfs_fully_covered_depth", json!(if capped { depth_reached.saturating_sub(1) } else { depth_reached }));
    report.set("exhaustive", json!(!capped));
    report.set("rule", json!("(a) 40 families (structure alias|index value x live-set size 0,1,5,30,59 x remove oldest|newest x distinct|colliding-mod-64 keys), each `cycles` insert/lookup/remove cycles through the public Db API at the real constants, every query under a probe budget; (b) breadth-first search to a fixpoint over the real MultiMapStorage<u64,u64> with minimum capacity 4, 5 keys x 2 values, at most map_max_entries entries, once with the operations DbIndex uses (insert, remove_value; reads values/iter/len) and once with those MapImpl uses (replace-or-insert, remove_key; reads value/contains/iter/len), visited set keyed by a 128-bit hash of the raw storage, compared with a BTreeMap model after every operation"));
    report.assume("termination oracle: a query that takes more than the probe budget of hash-probe / edge-list steps is deemed non-terminating (terminating queries on these sizes need < 1000)");
    report.finish()
}
