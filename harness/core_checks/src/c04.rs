//! C04 — stored data survives any pattern of space reuse and defragmentation.
//! (a) explicit-state BFS with exact state deduplication over Storage<MemoryStorage>;
//! (b) stateless lock-step enumeration over all three back-ends.
//! Oracle: a `BTreeMap<index, Vec<u8>>` reference model. See DESIGN.md §4/C04.

use crate::storops::*;
use agdb::verif::StorageProbe;
use agdb::{FileStorage, FileStorageMemoryMapped, MemoryStorage, StorageData};
use engine::{Args, Report, Scratch, catch};
use serde_json::{Value, json};
use std::collections::{BTreeMap, HashSet};
use std::sync::Mutex;
use std::sync::atomic::{AtomicU64, Ordering};

#[derive(Clone, Default, Debug)]
pub struct Model {
    pub vals: BTreeMap<u64, Vec<u8>>,
    pub max_index: u64,
}

const VERSION_RECORD: u64 = 24;

impl Model {
    fn minimal_len(&self) -> u64 {
        VERSION_RECORD + self.vals.values().map(|v| 16 + v.len() as u64).sum::<u64>()
    }

    /// Applies `op`; returns Err(()) if the model rejects it (no effect).
    /// `inserted` is the index the implementation returned for an insert.
    fn apply(&mut self, op: SOp, slots: [u64; 2], tag: u8, inserted: Option<u64>) -> Result<(), String> {
        match op {
            SOp::Insert(n) => {
                let idx = inserted.ok_or("insert returned no index")?;
                if idx == 0 {
                    return Err("insert returned the reserved index 0".into());
                }
                if self.vals.contains_key(&idx) {
                    return Err(format!("insert returned index {idx} which is in use"));
                }
                self.vals.insert(idx, fill(tag, n));
                self.max_index = self.max_index.max(idx);
                Ok(())
            }
            SOp::InsertAt(s, off, len) => {
                let v = self.vals.get_mut(&slots[s as usize]).ok_or("missing")?;
                let size = v.len() as u64;
                let off = match off {
                    Off::Zero => 0,
                    Off::Four => 4,
                    Off::Size => size,
                    Off::SizePlus8 => size + 8,
                };
                write_grow(v, off, &fill(tag, len));
                Ok(())
            }
            SOp::Replace(s, n) => {
                let v = self.vals.get_mut(&slots[s as usize]).ok_or("missing")?;
                *v = fill(tag, n);
                Ok(())
            }
            SOp::Resize(s, n) => {
                let v = self.vals.get_mut(&slots[s as usize]).ok_or("missing")?;
                v.resize(n as usize, 0);
                Ok(())
            }
            SOp::MoveAt(s, from, to, len) => {
                let v = self.vals.get_mut(&slots[s as usize]).ok_or("missing")?;
                if from + len > v.len() as u64 {
                    return Err("out of bounds".into());
                }
                let bytes = v[from as usize..(from + len) as usize].to_vec();
                write_grow(v, to, &bytes);
                // vacated part of the source region is zeroed
                for i in from..from + len {
                    if !(i >= to && i < to + len) {
                        v[i as usize] = 0;
                    }
                }
                Ok(())
            }
            SOp::Remove(s) => self.vals.remove(&slots[s as usize]).map(|_| ()).ok_or("missing".into()),
            SOp::Optimize | SOp::Reopen | SOp::Begin | SOp::Commit => Ok(()),
        }
    }
}

fn write_grow(v: &mut Vec<u8>, off: u64, bytes: &[u8]) {
    let end = off as usize + bytes.len();
    if v.len() < end {
        v.resize(end, 0);
    }
    v[off as usize..end].copy_from_slice(bytes);
}

fn model_would_reject(m: &Model, op: SOp, slots: [u64; 2]) -> bool {
    match op {
        SOp::Insert(_) | SOp::Optimize | SOp::Reopen | SOp::Begin | SOp::Commit => false,
        SOp::InsertAt(s, ..) | SOp::Replace(s, _) | SOp::Resize(s, _) | SOp::Remove(s) => !m.vals.contains_key(&slots[s as usize]),
        SOp::MoveAt(s, from, _, len) => match m.vals.get(&slots[s as usize]) {
            None => true,
            Some(v) => from + len > v.len() as u64,
        },
    }
}

/// state-determined fill tag (keeps BFS deduplication sound: the written
/// bytes are a function of the current state and the operation only)
fn tag_for(op_pos: usize, m: &Model, raw_len: u64) -> u8 {
    ((op_pos as u64 + 1) * 7 + m.vals.len() as u64 * 3 + raw_len / 8) as u8
}

/// Compare every index with the model. Returns the first mismatch.
fn compare<D: StorageData>(p: &StorageProbe<D>, m: &Model, after_optimize: bool) -> Result<(), (String, String)> {
    for idx in 1..=m.max_index + 1 {
        match m.vals.get(&idx) {
            Some(want) => {
                let got = p.value_as_bytes(idx).map_err(|e| ("live-value-unreadable".to_string(), format!("index {idx}: {}", e.description)))?;
                if &got != want {
                    return Err(("live-value-differs".into(), format!("index {idx}: read {} expected {}", engine::hex(&got), engine::hex(want))));
                }
                let size = p.value_size(idx).map_err(|e| ("live-value-unreadable".to_string(), e.description))?;
                if size != want.len() as u64 {
                    return Err(("size-differs".into(), format!("index {idx}: size {size} expected {}", want.len())));
                }
                for off in [want.len() as u64 / 2, want.len() as u64] {
                    let got = p.value_as_bytes_at(idx, off).map_err(|e| ("read-at-offset-failed".to_string(), format!("index {idx} offset {off}: {}", e.description)))?;
                    if got != want[off as usize..] {
                        return Err(("read-at-offset-differs".into(), format!("index {idx} offset {off}")));
                    }
                }
            }
            None => {
                if let Ok(b) = p.value_as_bytes(idx) {
                    return Err(("removed-value-readable".into(), format!("index {idx} is not live but reads {} bytes", b.len())));
                }
            }
        }
    }
    let len = p.len();
    let min = m.minimal_len();
    if len < min {
        return Err(("file-shorter-than-content".into(), format!("len {len} < {min}")));
    }
    if after_optimize && len != min {
        return Err(("unused-space-after-defragmentation".into(), format!("len {len}, live content needs exactly {min}")));
    }
    Ok(())
}

trait Backend: StorageData + Sized {
    const NAME: &'static str;
    fn reopen(p: StorageProbe<Self>, path: &str) -> Result<StorageProbe<Self>, agdb::DbError>;
}

impl Backend for MemoryStorage {
    const NAME: &'static str = "memory";
    fn reopen(p: StorageProbe<Self>, _path: &str) -> Result<StorageProbe<Self>, agdb::DbError> {
        let (raw, _) = p.raw_state()?;
        StorageProbe::with_data(MemoryStorage::from_buffer("mem", raw))
    }
}
impl Backend for FileStorage {
    const NAME: &'static str = "file";
    fn reopen(p: StorageProbe<Self>, path: &str) -> Result<StorageProbe<Self>, agdb::DbError> {
        drop(p);
        StorageProbe::new(path)
    }
}
impl Backend for FileStorageMemoryMapped {
    const NAME: &'static str = "mapped";
    fn reopen(p: StorageProbe<Self>, path: &str) -> Result<StorageProbe<Self>, agdb::DbError> {
        drop(p);
        StorageProbe::new(path)
    }
}

/// One step on one backend: apply, compare with the model's verdict.
/// Returns (new probe, Ok(inserted index)|Err(description)).
fn step<D: Backend>(p: StorageProbe<D>, path: &str, op: SOp, slots: [u64; 2], tag: u8) -> (Option<StorageProbe<D>>, Result<Option<u64>, String>) {
    if op == SOp::Reopen {
        return match D::reopen(p, path) {
            Ok(p) => (Some(p), Ok(None)),
            Err(e) => (None, Err(format!("reopen failed: {}", e.description))),
        };
    }
    let mut p = p;
    let mut stack = vec![];
    let r = apply(&mut p, op, slots, tag, &mut stack).map_err(|e| e.description);
    (Some(p), r)
}

struct Ctx<'a> {
    report: &'a Report,
    transitions: AtomicU64,
    rejected: AtomicU64,
}

fn sig(backend: &str, op: SOp, clause: &str) -> String {
    format!("backend={backend}|op={}|clause={clause}", op.kind())
}

/// Executes `op` on a probe and the model and checks all clauses.
/// Returns None if exploration below this node must stop (violation or panic).
#[allow(clippy::too_many_arguments)]
fn checked_step<D: Backend>(ctx: &Ctx, p: StorageProbe<D>, m: &mut Model, path: &str, op: SOp, op_pos: usize, slots: [u64; 2], replay: &dyn Fn() -> Value) -> Option<StorageProbe<D>> {
    ctx.transitions.fetch_add(1, Ordering::Relaxed);
    let raw_len = p.len();
    let tag = tag_for(op_pos, m, raw_len);
    let reject = model_would_reject(m, op, slots);
    let r = catch(move || step(p, path, op, slots, tag));
    let (p, res) = match r {
        Ok(x) => x,
        Err(pn) => {
            ctx.report.violation(&sig(D::NAME, op, &format!("panic|{}|{}", pn.file(), pn.normalised())), &format!("panic: {} at {}", pn.message, pn.location), replay());
            return None;
        }
    };
    let p = match p {
        Some(p) => p,
        None => {
            ctx.report.violation(&sig(D::NAME, op, "reopen-failed"), &format!("{res:?}"), replay());
            return None;
        }
    };
    match (&res, reject) {
        (Ok(_), true) => {
            ctx.report.violation(&sig(D::NAME, op, "accepted-invalid"), "operation on a missing value or out-of-bounds range succeeded", replay());
            return None;
        }
        (Err(e), false) => {
            ctx.report.violation(&sig(D::NAME, op, "rejected-valid"), &format!("valid operation failed: {e}"), replay());
            return None;
        }
        (Err(_), true) => {
            ctx.rejected.fetch_add(1, Ordering::Relaxed);
        }
        (Ok(ins), false) => {
            if let Err(e) = m.apply(op, slots, tag, *ins) {
                ctx.report.violation(&sig(D::NAME, op, "bad-index"), &e, replay());
                return None;
            }
        }
    }
    let cmp = catch(|| compare(&p, m, op == SOp::Optimize));
    match cmp {
        Ok(Ok(())) => Some(p),
        Ok(Err((clause, what))) => {
            ctx.report.violation(&sig(D::NAME, op, &clause), &what, replay());
            None
        }
        Err(pn) => {
            ctx.report.violation(&sig(D::NAME, op, &format!("read-panic|{}|{}", pn.file(), pn.normalised())), &format!("panic while reading: {} at {}", pn.message, pn.location), replay());
            None
        }
    }
}

fn replay_json(base: Base, ops: &[SOp], backend: &str) -> Value {
    json!({"base": format!("{base:?}"), "backend": backend, "ops": ops.iter().map(|o| format!("{o:?}")).collect::<Vec<_>>()})
}

fn open_base<D: Backend>(ctx: &Ctx, base: Base, path: &str) -> Option<(StorageProbe<D>, Model)> {
    let mut p = if D::NAME == "memory" { StorageProbe::<D>::new("/nonexistent/verif-mem").ok()? } else { StorageProbe::<D>::new(path).ok()? };
    let mut m = Model::default();
    for (i, op) in base.script().into_iter().enumerate() {
        p = checked_step(ctx, p, &mut m, path, op, 100 + i, base.script_slots(), &|| replay_json(base, &[], D::NAME))?;
    }
    Some((p, m))
}

fn run_sequence<D: Backend>(ctx: &Ctx, base: Base, ops: &[SOp], alpha: &[SOp], scratch: &Scratch) -> bool {
    scratch.clear();
    let path = scratch.path("s.agdb");
    let Some((mut p, mut m)) = open_base::<D>(ctx, base, &path) else {
        ctx.report.violation(&format!("backend={}|setup", D::NAME), "base state could not be built", replay_json(base, &[], D::NAME));
        return false;
    };
    for (i, op) in ops.iter().enumerate() {
        let pos = alpha.iter().position(|a| a == op).unwrap_or(99);
        match checked_step(ctx, p, &mut m, &path, *op, pos, base.slots(), &|| replay_json(base, &ops[..=i], D::NAME)) {
            Some(np) => p = np,
            None => return false,
        }
    }
    true
}

pub fn run(args: &Args) -> i32 {
    let report = Report::new(args, "model_checking");
    let ctx = Ctx { report: &report, transitions: AtomicU64::new(0), rejected: AtomicU64::new(0) };
    let alpha = alphabet(false, true);

    if let Some(path) = &args.replay {
        let text = std::fs::read_to_string(path).unwrap_or_else(|e| engine::machinery_failure(&format!("{path}: {e}")));
        let v: Value = serde_json::from_str(&text).unwrap_or_else(|e| engine::machinery_failure(&format!("{path}: {e}")));
        let r = &v["replay"];
        let base = Base::parse(r["base"].as_str().unwrap_or("")).unwrap_or_else(|| engine::machinery_failure("bad base"));
        let ops: Vec<SOp> = r["ops"].as_array().unwrap().iter().map(|o| parse_op(o.as_str().unwrap()).unwrap()).collect();
        let scratch = Scratch::new("c04r");
        let ok = match r["backend"].as_str().unwrap_or("memory") {
            "file" => run_sequence::<FileStorage>(&ctx, base, &ops, &alpha, &scratch),
            "mapped" => run_sequence::<FileStorageMemoryMapped>(&ctx, base, &ops, &alpha, &scratch),
            _ => run_sequence::<MemoryStorage>(&ctx, base, &ops, &alpha, &scratch),
        };
        println!("replay: sequence {:?} from {:?}: {}", ops, base, if ok { "all clauses hold" } else { "violates" });
        return report.finish();
    }

    // worker processes run only part (b); the BFS of part (a) runs in the parent
    let is_worker = engine::child_ctl(args).is_some();
    let bfs_depth: usize = if is_worker { 0 } else { std::env::var("VERIF_C04_BFS").ok().and_then(|s| s.parse().ok()).unwrap_or(args.tier.pick(4, 6)) };
    let lock_depth: usize = std::env::var("VERIF_C04_LOCK").ok().and_then(|s| s.parse().ok()).unwrap_or(args.tier.pick(3, 4));

    // ---- (a) BFS with exact deduplication on Storage<MemoryStorage>
    let visited: Mutex<HashSet<(u64, u64)>> = Mutex::new(HashSet::new());
    let mut states_per_depth = vec![];
    let mut total_states = 0u64;
    struct Node {
        p: StorageProbe<MemoryStorage>,
        m: Model,
        base: Base,
        path: Vec<SOp>,
    }
    let key_of = |p: &StorageProbe<MemoryStorage>, base: Base| -> (u64, u64) {
        let (raw, rec) = p.raw_state().unwrap();
        let mut k = raw;
        k.extend_from_slice(rec.as_bytes());
        k.push(base.slots()[1] as u8); // the alphabet addresses different indexes per base
        let h1 = engine::fnv(&k);
        k.push(0x5a);
        k.reverse();
        (h1, engine::fnv(&k))
    };
    let mut level: Vec<Node> = vec![];
    for b in BASES {
        if let Some((p, m)) = open_base::<MemoryStorage>(&ctx, b, "") {
            visited.lock().unwrap().insert(key_of(&p, b));
            level.push(Node { p, m, base: b, path: vec![] });
        }
    }
    total_states += level.len() as u64;
    states_per_depth.push(level.len());
    let mut capped = false;
    for d in 1..=bfs_depth {
        if level.len() > 6_000_000 {
            capped = true; // memory cap: deeper levels are not expanded
            break;
        }
        let last = d == bfs_depth;
        let new_last = AtomicU64::new(0);
        let next: Mutex<Vec<Node>> = Mutex::new(vec![]);
        engine::par_for(level.len(), args.seed, |_w, i| {
            let n = &level[i];
            let mut out = vec![];
            for (pos, op) in alpha.iter().enumerate() {
                let Ok(copy) = n.p.copy("mem") else {
                    report.violation("backend=memory|copy-failed", "Storage::copy failed", replay_json(n.base, &n.path, "memory"));
                    continue;
                };
                let mut m = n.m.clone();
                let mut path = n.path.clone();
                path.push(*op);
                if let Some(p2) = checked_step(&ctx, copy, &mut m, "", *op, pos, n.base.slots(), &|| replay_json(n.base, &path, "memory")) {
                    let k = key_of(&p2, n.base);
                    if visited.lock().unwrap().insert(k) {
                        if last {
                            // states of the deepest level are checked and counted but not kept
                            new_last.fetch_add(1, Ordering::Relaxed);
                        } else {
                            out.push(Node { p: p2, m, base: n.base, path });
                        }
                    }
                }
            }
            next.lock().unwrap().extend(out);
        });
        if last {
            let n = new_last.load(Ordering::SeqCst);
            total_states += n;
            states_per_depth.push(n as usize);
            break;
        }
        level = next.into_inner().unwrap();
        // deterministic order independent of worker scheduling
        level.sort_by_cached_key(|a| format!("{:?}{:?}", a.base, a.path));
        total_states += level.len() as u64;
        states_per_depth.push(level.len());
        if level.is_empty() {
            break;
        }
    }
    for n in level.iter().take(3) {
        report.sample(json!({"bfs_state_reached_by": replay_json(n.base, &n.path, "memory"), "live_values": n.m.vals.len()}));
    }
    let bfs_transitions = ctx.transitions.load(Ordering::SeqCst);
    drop(level);

    // ---- (b) stateless lock-step enumeration on all three back-ends
    let sequences = AtomicU64::new(0);
    let mut items: Vec<(Base, SOp)> = vec![];
    for b in BASES {
        for a in &alpha {
            items.push((b, *a));
        }
    }
    let scratch = Scratch::new("c04");
    let base_transitions = ctx.transitions.load(Ordering::SeqCst);
    let base_rejected = ctx.rejected.load(Ordering::SeqCst);
    let counts = |r: &Report| {
        r.set("transitions", json!(ctx.transitions.load(Ordering::SeqCst) - base_transitions));
        r.set("traces_validated_against_impl", json!(sequences.load(Ordering::SeqCst) * 3));
        r.set("lockstep_sequences", json!(sequences.load(Ordering::SeqCst)));
        r.set("ops_rejected_as_expected", json!(ctx.rejected.load(Ordering::SeqCst) - base_rejected));
    };
    let run_item = |i: usize| {
        let (base, first) = items[i];
        let mut seq = vec![first];
        lock_dfs(&ctx, base, &mut seq, lock_depth, &alpha, &scratch, &sequences);
    };
    if engine::run_items_isolated(args, &report, items.len(), &run_item, &counts, &|i| ("lockstep-prefix".to_string(), format!("sequences starting with {:?} from {:?}", items[i].1, items[i].0), replay_json(items[i].0, &[items[i].1], "file"))) {
        return 0;
    }
    report.set("states", json!(total_states));
    report.add("transitions", base_transitions);
    report.add("traces_validated_against_impl", total_states);
    report.add("ops_rejected_as_expected", base_rejected);
    report.set("exhaustive", json!(!capped));
    report.set("bfs_memory_cap_hit", json!(capped));
    report.set("bfs_depth", json!(bfs_depth));
    report.set("bfs_states_per_depth", json!(states_per_depth));
    report.set("bfs_transitions", json!(bfs_transitions));
    report.set("lockstep_depth", json!(lock_depth));
    report.set("backends", json!(["memory", "file", "mapped"]));
    report.set("alphabet_size", json!(alpha.len()));
    report.set("rule", json!("(a) breadth-first search over Storage<MemoryStorage> from 3 base states, every operation of the alphabet at every state, visited set keyed by a 128-bit hash of the complete state (raw bytes + in-memory record table incl. free lists); (b) every sequence of <= lockstep_depth operations executed from scratch on memory, file and memory-mapped back-ends. After every operation every index is compared with the reference model."));
    report.assume("written bytes are a function of (state, operation) so that equal states have equal futures; values and sizes outside the alphabet are not covered");
    report.finish()
}

fn lock_dfs(ctx: &Ctx, base: Base, seq: &mut Vec<SOp>, depth: usize, alpha: &[SOp], scratch: &Scratch, sequences: &AtomicU64) {
    sequences.fetch_add(1, Ordering::Relaxed);
    let a = run_sequence::<MemoryStorage>(ctx, base, seq, alpha, scratch);
    let b = run_sequence::<FileStorage>(ctx, base, seq, alpha, scratch);
    let c = run_sequence::<FileStorageMemoryMapped>(ctx, base, seq, alpha, scratch);
    if !(a && b && c) || seq.len() >= depth {
        return;
    }
    for op in alpha {
        seq.push(*op);
        lock_dfs(ctx, base, seq, depth, alpha, scratch, sequences);
        seq.pop();
    }
}
