//! C23 — concurrent reads see the same results as sequential reads.
//! Stateless schedule exploration of real threads under a baton scheduler
//! whose scheduling points are the hooked file-system calls of the read path
//! of `FileStorage` (try_lock, fallback open, seek, read). Preemption-bounded
//! enumeration as in the brief (bound = None => all interleavings).
//! DESIGN.md §4/C23.

use agdb::verif::FsEvent;
use agdb::{DbFile, FileStorage, QueryBuilder, StorageData};
use engine::{Args, DistinctCounter, Report, Scratch};
use serde_json::{Value, json};
use std::sync::atomic::{AtomicU64, Ordering};
use std::sync::{Arc, Condvar, Mutex, RwLock};

/// how often a reader found the shared handle busy and opened its own (contention really happened)
static FALLBACK_OPENS: AtomicU64 = AtomicU64::new(0);
static REPRO: Mutex<()> = Mutex::new(());

struct St {
    turn: Option<usize>,
    parked: Vec<bool>,
    done: Vec<bool>,
    all_done: bool,
    prefix: Vec<usize>,
    enabled: Vec<Vec<usize>>,
    choices: Vec<usize>,
    running_still_enabled: Vec<bool>,
}

/// Baton scheduler. The scheduling decision is taken by whichever thread
/// reaches a point (no round trip through a controller thread): if the
/// decision is "keep running" the thread simply continues.
struct Sched {
    st: Mutex<St>,
    cv: Condvar,
}

impl Sched {
    fn new(n: usize, prefix: &[usize]) -> Arc<Self> {
        Arc::new(Sched {
            st: Mutex::new(St { turn: None, parked: vec![false; n], done: vec![false; n], all_done: false, prefix: prefix.to_vec(), enabled: vec![], choices: vec![], running_still_enabled: vec![] }),
            cv: Condvar::new(),
        })
    }
    /// decide who runs next; `running` = the thread at a point (still enabled), if any
    fn decide(s: &mut St, running: Option<usize>) -> Option<usize> {
        let n = s.parked.len();
        let mut en: Vec<usize> = (0..n).filter(|i| s.parked[*i] && Some(*i) != running).collect();
        if let Some(r) = running {
            en.insert(0, r); // canonical order: the running thread first, then ascending ids
        }
        if en.is_empty() {
            return None;
        }
        let i = s.choices.len();
        let c = if i < s.prefix.len() { s.prefix[i] } else { 0 };
        if c >= en.len() {
            engine::machinery_failure(&format!("schedule replay diverged: choice {c} of {} enabled at decision {i}", en.len()));
        }
        let t = en[c];
        s.enabled.push(en);
        s.choices.push(c);
        s.running_still_enabled.push(running.is_some());
        Some(t)
    }
    fn park_at_start(&self, t: usize) {
        let mut s = self.st.lock().unwrap();
        s.parked[t] = true;
        self.cv.notify_all();
        while s.turn != Some(t) {
            s = self.cv.wait(s).unwrap();
        }
        s.parked[t] = false;
    }
    /// called by thread `t` (holding the baton) before a hooked call
    fn point(&self, t: usize) {
        let mut s = self.st.lock().unwrap();
        let next = Self::decide(&mut s, Some(t)).unwrap();
        if next == t {
            return;
        }
        s.parked[t] = true;
        s.turn = Some(next);
        self.cv.notify_all();
        while s.turn != Some(t) {
            s = self.cv.wait(s).unwrap();
        }
        s.parked[t] = false;
    }
    fn finish(&self, t: usize) {
        let mut s = self.st.lock().unwrap();
        s.done[t] = true;
        match Self::decide(&mut s, None) {
            Some(next) => s.turn = Some(next),
            None => {
                s.turn = None;
                s.all_done = true;
            }
        }
        self.cv.notify_all();
    }
}

type Body = Box<dyn FnOnce() -> String + Send>;

struct Exec {
    /// per scheduling decision: enabled threads in canonical order, index chosen, whether the running thread was still enabled
    enabled: Vec<Vec<usize>>,
    choices: Vec<usize>,
    running_still_enabled: Vec<bool>,
    results: Vec<String>,
}

/// Runs one execution following `prefix` (indexes into the canonical enabled
/// order), then always choice 0.
fn run_one(bodies: Vec<Body>, prefix: &[usize]) -> Exec {
    let n = bodies.len();
    let sched = Sched::new(n, prefix);
    let results: Arc<Mutex<Vec<String>>> = Arc::new(Mutex::new(vec![String::new(); n]));
    let mut handles = vec![];
    for (t, body) in bodies.into_iter().enumerate() {
        let sched = sched.clone();
        let results = results.clone();
        handles.push(std::thread::spawn(move || {
            let s2 = sched.clone();
            agdb::verif::set_fs_hook(move |e| {
                if matches!(e, FsEvent::ReadOpen) {
                    FALLBACK_OPENS.fetch_add(1, Ordering::Relaxed);
                }
                if matches!(e, FsEvent::ReadTryLock | FsEvent::ReadOpen | FsEvent::ReadSeek { .. } | FsEvent::ReadExact { .. }) {
                    s2.point(t);
                }
            });
            sched.park_at_start(t); // nothing runs before every thread is ready
            let r = std::panic::catch_unwind(std::panic::AssertUnwindSafe(body)).unwrap_or_else(|_| "PANIC".to_string());
            agdb::verif::clear_fs_hook();
            results.lock().unwrap()[t] = r;
            sched.finish(t);
        }));
    }
    {
        // wait until all threads are parked at the start barrier, take the first decision
        let mut s = sched.st.lock().unwrap();
        while !(0..n).all(|i| s.parked[i]) {
            s = sched.cv.wait(s).unwrap();
        }
        let first = Sched::decide(&mut s, None).unwrap();
        s.turn = Some(first);
        sched.cv.notify_all();
        while !s.all_done {
            s = sched.cv.wait(s).unwrap();
        }
    }
    for h in handles {
        let _ = h.join();
    }
    let s = sched.st.lock().unwrap();
    Exec { enabled: s.enabled.clone(), choices: s.choices.clone(), running_still_enabled: s.running_still_enabled.clone(), results: results.lock().unwrap().clone() }
}

struct Explorer<'a> {
    make: &'a (dyn Fn(usize) -> Vec<Body> + Sync),
    bound: Option<u32>,
    expected: &'a [String],
    on_exec: &'a (dyn Fn(&Exec) + Sync),
    executions: &'a AtomicU64,
    cap: u64,
}

impl Explorer<'_> {
    /// root execution, then its alternative branches are explored on all cores
    fn explore_parallel(&self, seed: i64) {
        let kids = self.explore_node(0, vec![]);
        engine::par_for(kids.len(), seed, |w, i| self.explore(w, kids[i].clone()));
    }
    fn explore(&self, w: usize, prefix: Vec<usize>) {
        for k in self.explore_node(w, prefix) {
            self.explore(w, k);
        }
    }
    /// runs one execution on worker `w`'s private fixtures and returns the prefixes of its unexplored alternatives
    fn explore_node(&self, w: usize, prefix: Vec<usize>) -> Vec<Vec<usize>> {
        let mut kids = vec![];
        if self.executions.load(Ordering::Relaxed) >= self.cap {
            return kids;
        }
        let x = run_one((self.make)(w), &prefix);
        self.executions.fetch_add(1, Ordering::Relaxed);
        (self.on_exec)(&x);
        let _ = self.expected;
        // preemptions used before decision i
        let mut used = vec![0u32; x.choices.len() + 1];
        for i in 0..x.choices.len() {
            used[i + 1] = used[i] + if x.running_still_enabled[i] && x.choices[i] != 0 { 1 } else { 0 };
        }
        for i in prefix.len()..x.choices.len() {
            for alt in 1..x.enabled[i].len() {
                let cost = used[i] + if x.running_still_enabled[i] { 1 } else { 0 };
                if let Some(b) = self.bound {
                    if cost > b {
                        continue;
                    }
                }
                let mut p = x.choices[..i].to_vec();
                p.push(alt);
                kids.push(p);
            }
        }
        kids
    }
}

struct Harness {
    name: &'static str,
    threads: usize,
    bound: Option<u32>,
    /// argument: worker index (every worker has its own storage / database objects)
    make: Box<dyn Fn(usize) -> Vec<Body> + Sync>,
}

pub fn run(args: &Args) -> i32 {
    let report = Report::new(args, "model_checking");
    let scratch = Scratch::new("c23");
    // ---- fixtures
    // (1) a raw storage file with recognisable content
    let raw = scratch.path("raw.bin");
    let content: Vec<u8> = (0..4096u32).map(|i| (i % 251) as u8).collect();
    std::fs::write(&raw, &content).unwrap();
    std::fs::write(crate::storops::wal_name(&raw), b"").unwrap();
    let nw = engine::workers();
    let storages: Vec<Arc<FileStorage>> = (0..=nw).map(|_| Arc::new(FileStorage::new(&raw).unwrap())).collect();
    // (2) a database with a small graph
    let dbp = scratch.path("db.agdb");
    {
        let mut db = DbFile::new(&dbp).unwrap();
        db.exec_mut(QueryBuilder::insert().nodes().aliases(["root", "users"]).values([[("name", "root").into()], [("name", "users-with-a-long-value-0123456789").into()]]).query()).unwrap();
        db.exec_mut(QueryBuilder::insert().nodes().count(2).values_uniform([("k", 1).into()]).query()).unwrap();
        db.exec_mut(QueryBuilder::insert().edges().from([1, 2, 2]).to([2, 3, 4]).values_uniform([("w", 5).into()]).query()).unwrap();
        db.exec_mut(QueryBuilder::insert().index("k").query()).unwrap();
    }
    let dbs: Vec<Arc<RwLock<DbFile>>> = (0..=nw)
        .map(|i| {
            let p = scratch.path(&format!("db{i}.agdb"));
            std::fs::copy(&dbp, &p).unwrap();
            Arc::new(RwLock::new(DbFile::new(&p).unwrap()))
        })
        .collect();

    let read_region = |s: &Arc<FileStorage>, pos: u64, len: u64| -> String {
        match s.read(pos, len) {
            Ok(b) => engine::hex(&b),
            Err(e) => format!("ERR {}", e.description),
        }
    };
    type Q = fn(&DbFile) -> String;
    let q_values: Q = |db| format!("{:?}", db.exec(QueryBuilder::select().ids([1, 2]).query()).map_err(|e| e.description));
    let q_search: Q = |db| format!("{:?}", db.exec(QueryBuilder::search().from("root").query()).map_err(|e| e.description));
    let q_alias: Q = |db| format!("{:?}", db.exec(QueryBuilder::select().aliases().ids([1, 2]).query()).map_err(|e| e.description));
    let q_index: Q = |db| format!("{:?}", db.exec(QueryBuilder::search().index("k").value(1).query()).map_err(|e| e.description));
    let q_tx: Q = |db| {
        format!(
            "{:?}",
            db.transaction(|t| -> Result<(u64, u64), agdb::DbError> {
                let a = t.exec(QueryBuilder::select().edge_count().ids(2).query())?.result;
                let b = t.exec(QueryBuilder::select().keys().ids(-5).query())?.result as u64;
                Ok((a, b))
            })
            .map_err(|e| e.description)
        )
    };

    // a hot backup is another `&self` operation allowed under the reader lock: one cheap read
    // first (its hooked calls are this thread's scheduling points), then the backup, whose
    // content is part of the observation
    let q_backup: Q = |db| {
        let r = format!("{:?}", db.exec(QueryBuilder::select().aliases().ids(1).query()).map_err(|e| e.description));
        let p = format!("{}.bk", db.filename());
        let b = db.backup(&p).map_err(|e| e.description);
        let content = std::fs::read(&p).unwrap_or_default();
        let _ = std::fs::remove_file(&p);
        format!("{r}|backup {b:?} {} bytes {:016x}", content.len(), engine::fnv(&content))
    };

    let quick = args.tier == engine::Tier::Quick;
    let mut hs: Vec<Harness> = vec![];
    {
        let ss = storages.clone();
        let rr = read_region;
        hs.push(Harness {
            name: "storage_2x2_overlapping",
            threads: 2,
            bound: if quick { Some(3) } else { None },
            make: Box::new(move |w| {
                let (a, b) = (ss[w].clone(), ss[w].clone());
                vec![Box::new(move || format!("{}|{}", rr(&a, 0, 16), rr(&a, 100, 8))) as Body, Box::new(move || format!("{}|{}", rr(&b, 8, 16), rr(&b, 100, 8))) as Body]
            }),
        });
    }
    {
        let ss = storages.clone();
        let rr = read_region;
        hs.push(Harness {
            name: "storage_3x1_distinct_identical",
            threads: 3,
            bound: if quick { Some(3) } else { None },
            make: Box::new(move |w| {
                let (a, b, c) = (ss[w].clone(), ss[w].clone(), ss[w].clone());
                vec![Box::new(move || rr(&a, 1000, 32)) as Body, Box::new(move || rr(&b, 2000, 32)) as Body, Box::new(move || rr(&c, 1000, 32)) as Body]
            }),
        });
    }
    let mut add_q = |name: &'static str, qs: Vec<Vec<Q>>, bound: u32| {
        let dbs = dbs.clone();
        let threads = qs.len();
        hs.push(Harness {
            name,
            threads,
            bound: Some(bound),
            make: Box::new(move |w| {
                qs.iter()
                    .map(|list| {
                        let db = dbs[w].clone();
                        let list = list.clone();
                        Box::new(move || {
                            let mut out = vec![];
                            for q in list {
                                let g = db.read().unwrap();
                                out.push(q(&g));
                            }
                            out.join("|")
                        }) as Body
                    })
                    .collect()
            }),
        });
    };
    let b = if quick { 1 } else { 2 };
    add_q("db_values_vs_search", vec![vec![q_values], vec![q_search]], b);
    add_q("db_alias_vs_index_vs_tx", vec![vec![q_alias], vec![q_index], vec![q_tx]], b);
    add_q("db_values_vs_hot_backup", vec![vec![q_values], vec![q_backup]], b);
    if !quick {
        add_q("db_backup_vs_search_vs_tx", vec![vec![q_backup], vec![q_search], vec![q_tx]], 1);
        add_q("db_2_queries_each", vec![vec![q_values, q_tx], vec![q_search, q_alias]], 1);
    }

    let only = args.replay.as_ref().map(|p| serde_json::from_str::<Value>(&std::fs::read_to_string(p).unwrap_or_else(|e| engine::machinery_failure(&e.to_string()))).unwrap()["replay"].clone());
    let total_exec = AtomicU64::new(0);
    let total_points = AtomicU64::new(0);
    let outcomes = DistinctCounter::default();
    let schedules = DistinctCounter::default();
    let mut capped = false;
    let cap: u64 = if quick { 60_000 } else { 3_000_000 };
    for h in &hs {
        // expected: every body run alone (no other thread exists)
        let expected: Vec<String> = (0..h.threads)
            .map(|t| {
                let mut bodies = (h.make)(0);
                let b = bodies.remove(t);
                let ex = run_one(vec![b], &[]);
                ex.results[0].clone()
            })
            .collect();
        if expected.iter().any(|e| e.contains("ERR") || e.contains("Err(") || e == "PANIC") {
            report.violation(&format!("harness={}|solo-run-failed", h.name), &format!("a read fails even when run alone: {expected:?}"), json!({"harness": h.name}));
            continue;
        }
        if let Some(r) = &only {
            if r["harness"].as_str() != Some(h.name) {
                continue;
            }
            let sch: Vec<usize> = r["schedule"].as_array().map(|a| a.iter().map(|x| x.as_u64().unwrap_or(0) as usize).collect()).unwrap_or_default();
            let x1 = run_one((h.make)(0), &sch);
            let x2 = run_one((h.make)(0), &sch);
            println!("replay: results {:?}\n        alone   {:?}", x1.results, expected);
            if x1.results != x2.results {
                engine::machinery_failure("the same schedule gave different observations twice: uncontrolled nondeterminism");
            }
            if x1.results != expected {
                report.violation(&format!("harness={}|result-differs-from-solo", h.name), "replayed schedule still differs", r.clone());
            }
            continue;
        }
        let before = total_exec.load(Ordering::SeqCst);
        let on_exec = |x: &Exec| {
            total_points.fetch_add(x.choices.len() as u64, Ordering::Relaxed);
            outcomes.insert(format!("{}{:?}", h.name, x.results).as_bytes());
            schedules.insert(format!("{}{:?}", h.name, x.enabled.iter().zip(&x.choices).map(|(e, c)| e[*c]).collect::<Vec<_>>()).as_bytes());
            if x.results != expected {
                let thread_order: Vec<usize> = x.enabled.iter().zip(&x.choices).map(|(e, c)| e[*c]).collect();
                let which = (0..x.results.len()).find(|i| x.results[*i] != expected[*i]).unwrap_or(0);
                let kind = if x.results[which].contains("ERR") || x.results[which].contains("Err(") { "read-fails" } else if x.results[which] == "PANIC" { "panic" } else { "result-differs-from-solo" };
                // confirm determinism before reporting
                // (re-run on the spare fixture slot, one reproduction at a time)
                let again = {
                    let _g = REPRO.lock().unwrap();
                    run_one((h.make)(engine::workers()), &x.choices)
                };
                if again.results != x.results {
                    engine::machinery_failure("a failing schedule did not reproduce: uncontrolled nondeterminism");
                }
                report.violation(
                    &format!("harness={}|{kind}", h.name),
                    &format!("thread {which} observed {} but {} when run alone", cut(&x.results[which]), cut(&expected[which])),
                    json!({"harness": h.name, "schedule": x.choices, "thread_order": thread_order}),
                );
            }
        };
        let ex = Explorer { make: h.make.as_ref(), bound: h.bound, expected: &expected, on_exec: &on_exec, executions: &total_exec, cap: before + cap };
        ex.explore_parallel(args.seed);
        let n = total_exec.load(Ordering::SeqCst) - before;
        if n >= cap {
            capped = true;
        }
        report.set(&format!("schedules_{}", h.name), json!({"threads": h.threads, "preemption_bound": h.bound, "executions": n, "cap_hit": n >= cap}));
    }
    report.sample(json!({"harness": "storage_2x2_overlapping", "threads": ["read(0,16); read(100,8)", "read(8,16); read(100,8)"], "scheduling_points": "try_lock / open / seek / read of every FileStorage::read"}));
    report.sample(json!({"harness": "db_values_vs_hot_backup", "threads": ["select ids [1,2]", "select aliases ids 1; backup(<file>.bk) - observation includes the backup's bytes"], "shared": "Arc<RwLock<DbFile>>, read lock per call"}));
    report.sample(json!({"harness": "db_alias_vs_index_vs_tx", "threads": ["select aliases ids [1,2]", "search index k = 1", "read transaction: edge_count(2), keys(-5)"], "shared": "Arc<RwLock<DbFile>>, read lock per query"}));
    report.set("states", json!(schedules.len().max(1)));
    report.set("transitions", json!(total_points.load(Ordering::SeqCst).max(1)));
    report.set("traces_validated_against_impl", json!(total_exec.load(Ordering::SeqCst)));
    report.set("distinct_schedules", json!(schedules.len()));
    report.set("distinct_outcomes", json!(outcomes.len()));
    report.set("reads_that_found_the_shared_handle_busy", json!(FALLBACK_OPENS.load(Ordering::SeqCst)));
    report.set("exhaustive", json!(!capped));
    report.set("rule", json!("stateless depth-first enumeration of thread schedules; scheduling points = the hooked try_lock/open/seek/read calls of FileStorage::read; a switch away from a runnable thread costs one preemption; harnesses with bound null enumerate ALL interleavings. Oracle: every thread's results equal the results of the same calls run alone. Each failing schedule is re-executed and must reproduce."));
    report.assume("interleavings inside one system call are not explored; the only shared mutable state on the read path is the kernel file cursor of the shared handle");
    report.finish()
}

fn cut(s: &str) -> String {
    s.chars().take(160).collect()
}
