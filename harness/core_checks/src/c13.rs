//! C13 — a failed transaction or query leaves no observable effect.
//! From every state reachable by <= d0 steps of H: every transaction body of
//! <= 3 queries over a body alphabet, aborted by the closure; and every
//! single query of a list of queries that fail after partial work.
//! Oracle: order-insensitive canonical dump before == after. DESIGN.md §4/C13.

use crate::c0506::{Hist, World, build};
use crate::dbops::*;
use agdb::DbKeyValue;
use engine::{Args, DistinctCounter, Report, Scratch, catch};
use serde_json::{Value, json};
use std::sync::atomic::{AtomicU64, Ordering};

fn kv<V: Into<agdb::DbValue>>(k: &str, v: V) -> DbKeyValue {
    (k, v).into()
}

/// queries a transaction body is built from
pub fn body_alphabet() -> Vec<(&'static str, MQ)> {
    vec![
        ("nodes_count1", q::nodes_count(1)),
        ("nodes_alias_c_values", q::nodes_aliases_values(&["c"], vec![vec![kv(K, 1_i64)]])),
        ("values_new_alias_z", q::values(vec![al("z")], vec![vec![kv(K, 5_i64), kv(KL, 5_i64)]])),
        ("values_new_id0", q::values(vec![id(0)], vec![vec![kv(K, 6_i64)]])),
        ("edge_1_2_values", q::edges_uniform(vec![id(1)], vec![id(2)], vec![kv(K, 1_i64)])),
        ("edge_2_2", q::edges(vec![id(2)], vec![id(2)])),
        ("values_1_k3", q::values(vec![id(1)], vec![vec![kv(K, 3_i64)]])),
        ("values_1_k_long", q::values(vec![id(1)], vec![vec![kv(K, VS)]])),
        ("values_2_newkey", q::values(vec![id(2)], vec![vec![kv(KL, 7_i64)]])),
        ("alias_a_1", q::aliases(&["a"], vec![id(1)])),
        ("alias_a_2", q::aliases(&["a"], vec![id(2)])),
        ("alias_b_1", q::aliases(&["b"], vec![id(1)])),
        ("nodes_id1_alias_b", q::nodes_ids_aliases(vec![id(1)], &["b"])),
        ("nodes_id2_alias_a", q::nodes_ids_aliases(vec![id(2)], &["a"])),
        ("remove_1", q::remove(vec![id(1)])),
        ("remove_edges_from_1", q::remove_search_edges_from(id(1))),
        ("remove_values_k_1", q::remove_values(vec![K.into()], vec![id(1)])),
        ("remove_alias_a", q::remove_aliases(&["a"])),
        ("insert_index_k", q::index(K)),
        ("remove_index_k", q::remove_index(K)),
    ]
}

/// single queries that fail after doing part of their work
pub fn failing_queries() -> Vec<(&'static str, MQ)> {
    vec![
        ("values_multi_second_id_missing", q::values(vec![id(1), id(9)], vec![vec![kv(K, 7_i64)], vec![kv(K, 7_i64)]])),
        ("values_uniform_second_id_missing", q::values_uniform(vec![id(1), id(9)], vec![kv(K, 7_i64), kv(KL, 7_i64)])),
        ("edges_second_target_missing", q::edges(vec![id(1), id(1)], vec![id(1), id(9)])),
        ("edges_each_second_target_missing", q::edges_each(vec![id(1)], vec![id(1), id(9)])),
        ("edges_second_target_is_an_edge", q::edges(vec![id(1), id(1)], vec![id(1), id(-4)])),
        ("aliases_second_id_missing", q::aliases(&["x", "y"], vec![id(1), id(9)])),
        ("aliases_steal_then_missing", q::aliases(&["a", "y"], vec![id(2), id(9)])),
        ("nodes_aliases_second_empty", q::nodes_aliases(&["x", ""])),
        ("nodes_ids_second_is_edge", q::nodes_ids_values(vec![id(1), id(-9)], vec![vec![kv(K, 7_i64)], vec![kv(K, 7_i64)]])),
        ("remove_values_second_id_missing", q::remove_values(vec![K.into()], vec![id(1), id(9)])),
        ("nodes_ids_realias_then_empty_alias", q::nodes_ids_aliases(vec![id(1), id(2)], &["t", ""])),
        ("nodes_values_fewer_than_aliases", q::nodes_aliases_values(&["x", "y"], vec![vec![kv(K, 7_i64)]])),
    ]
}

fn first_diff(a: &str, b: &str) -> String {
    let pa: Vec<&str> = a.split(';').collect();
    let pb: Vec<&str> = b.split(';').collect();
    for (x, y) in pa.iter().zip(pb.iter()) {
        if x != y {
            let cut = |s: &str| s.chars().take(300).collect::<String>();
            return format!("before `{}` after `{}`", cut(x), cut(y));
        }
    }
    format!("lengths differ ({} vs {} sections)", pa.len(), pb.len())
}

pub fn run(args: &Args) -> i32 {
    let report = Report::new(args, "model_checking");
    let w = World::new();
    let d0: usize = std::env::var("VERIF_C13_D0").ok().and_then(|s| s.parse().ok()).unwrap_or(args.tier.pick(1, 2));
    let body_len: usize = 3;
    let variants: Vec<Variant> = args.tier.pick(vec![Variant::Memory], vec![Variant::Memory, Variant::File]);
    let body = body_alphabet();
    let failing = failing_queries();
    let states = DistinctCounter::default();
    let transitions = AtomicU64::new(0);
    let rolled_back_with_work = AtomicU64::new(0);
    let outcomes = DistinctCounter::default();

    // all bodies of length 1..=3
    let mut bodies: Vec<Vec<usize>> = vec![];
    let mut level: Vec<Vec<usize>> = vec![vec![]];
    for _ in 0..body_len {
        let mut next = vec![];
        for b in &level {
            for a in 0..body.len() {
                let mut b2 = b.clone();
                b2.push(a);
                next.push(b2);
            }
        }
        bodies.extend(next.iter().cloned());
        level = next;
    }

    let check_state = |base: usize, hist: &Hist, variant: Variant, scratch: &Scratch, only: Option<&Value>| {
        scratch.clear();
        // state before, once
        let before = catch(|| -> Result<(String, String), String> {
            let (db, _) = build(&w, variant, &scratch.path("s.agdb"), base, hist)?;
            let d = dump(db.as_ref(), false)?;
            Ok((d.canonical(), d.ordered()))
        });
        let (before, _) = match before {
            Ok(Ok(x)) => x,
            other => {
                report.violation(&format!("variant={}|state-build-failed", variant.name()), &format!("{other:?}"), w.replay_json(base, hist, json!(null)));
                return;
            }
        };
        states.insert(before.as_bytes());
        // reference for the probe: the untouched state followed by one node insert (id-insensitive shape)
        let probe = Step::Q(q::nodes_values(vec![vec![kv("probe", 1_i64)]]));
        let probe_ref = catch(|| -> Result<String, String> {
            let (mut db, _) = build(&w, variant, &scratch.path("p.agdb"), base, hist)?;
            let _ = probe.run(db.as_mut());
            Ok(dump(db.as_ref(), false)?.shape())
        });
        let probe_ref = match probe_ref {
            Ok(Ok(x)) => x,
            _ => String::new(),
        };
        let mut n = 0u64;
        let mut run_case = |kind: &str, names: Vec<&'static str>, step: Step, sig_tail: String| {
            if let Some(o) = only {
                let want: Vec<String> = o["queries"].as_array().map(|a| a.iter().map(|x| x.as_str().unwrap_or("").to_string()).collect()).unwrap_or_default();
                if o["kind"].as_str() != Some(kind) || want != names.iter().map(|s| s.to_string()).collect::<Vec<_>>() {
                    return;
                }
            }
            n += 1;
            transitions.fetch_add(1, Ordering::Relaxed);
            let detail = json!({"variant": variant.name(), "kind": kind, "queries": names});
            let r = catch(|| -> Result<(String, String, bool), String> {
                let path = scratch.path(&format!("c{}.agdb", n % 4));
                let _ = std::fs::remove_file(&path);
                let (mut db, _) = build(&w, variant, &path, base, hist)?;
                let res = step.run(db.as_mut());
                let after = dump(db.as_ref(), false)?.canonical();
                // probe: a later insert must see nothing of the failed step (e.g. stale values on a re-used id)
                let mut after = after;
                if res.is_err() && after == before && !probe_ref.is_empty() {
                    let _ = probe.run(db.as_mut());
                    let shape = dump(db.as_ref(), false)?.shape();
                    if shape != probe_ref {
                        after = format!("PROBE;after one further node insert the database differs from the untouched one: `{shape}` vs `{probe_ref}`");
                    }
                }
                Ok((crate::c0506::res_string(&res), after, res.is_ok()))
            });
            match r {
                Ok(Ok((res, after, ok))) => {
                    outcomes.insert(res.as_bytes());
                    if ok {
                        if kind == "tx" {
                            report.violation(&format!("{kind}|{sig_tail}|returned-ok"), "a transaction whose closure returned an error reported success", w.replay_json(base, hist, detail));
                        }
                        // a query of the failing list that the implementation accepts is not a C13 matter
                        return;
                    }
                    if res.contains(TX_ABORT) {
                        rolled_back_with_work.fetch_add(1, Ordering::Relaxed);
                    }
                    if after.starts_with("PROBE;") {
                        report.violation(&format!("{kind}|{sig_tail}|later-insert-sees-effect"), &after, w.replay_json(base, hist, detail));
                    } else if after != before {
                        report.violation(
                            &format!("{kind}|{sig_tail}|state-changed"),
                            &format!("after the failure ({res}) the database differs from before: {}", first_diff(&before, &after)),
                            w.replay_json(base, hist, detail),
                        );
                    }
                }
                Ok(Err(e)) => report.violation(&format!("{kind}|{sig_tail}|dump-failed|{}", engine::normalise(&e)), &e, w.replay_json(base, hist, detail)),
                Err(p) => report.violation(&format!("{kind}|{sig_tail}|panic|{}|{}", p.file(), p.normalised()), &format!("panic: {} at {}", p.message, p.location), w.replay_json(base, hist, detail)),
            }
        };
        for b in &bodies {
            let names: Vec<&'static str> = b.iter().map(|i| body[*i].0).collect();
            let qs: Vec<MQ> = b.iter().map(|i| body[*i].1.clone()).collect();
            // signature: the multiset of query kinds in the body keeps signatures few and causal
            let mut kinds: Vec<&str> = qs.iter().map(|q| q.kind()).collect();
            kinds.sort();
            kinds.dedup();
            run_case("tx", names, Step::Tx(qs, true), format!("body_kinds={}", kinds.join("+")));
        }
        for (name, q) in &failing {
            run_case("query", vec![name], Step::Q(q.clone()), format!("query={name}"));
        }
    };

    if let Some(path) = &args.replay {
        let v: Value = serde_json::from_str(&std::fs::read_to_string(path).unwrap_or_else(|e| engine::machinery_failure(&e.to_string()))).unwrap();
        let (base, hist) = w.parse_replay(&v["replay"]);
        let detail = &v["replay"]["detail"];
        let variant = Variant::parse(detail["variant"].as_str().unwrap_or("DbMemory")).unwrap_or(Variant::Memory);
        check_state(base, &hist, variant, &Scratch::new("c13r"), Some(detail));
        return report.finish();
    }

    let mut hists: Vec<Hist> = vec![vec![]];
    let mut level: Vec<Hist> = vec![vec![]];
    for _ in 0..d0 {
        let mut next = vec![];
        for h in &level {
            for a in 0..w.alpha.len() {
                let mut h2 = h.clone();
                h2.push(a);
                next.push(h2);
            }
        }
        hists.extend(next.iter().cloned());
        level = next;
    }
    let mut items = vec![];
    for v in &variants {
        for b in 0..w.bases.len() {
            for h in &hists {
                // the file variant replays every case from scratch: start states of depth <= 1 only
                if !v.is_memory() && h.len() > 1 {
                    continue;
                }
                items.push((*v, b, h.clone()));
            }
        }
    }
    let scratch = Scratch::new("c13");
    let counts = |r: &Report| {
        r.set("states", json!(states.len()));
        r.set("transitions", json!(transitions.load(Ordering::SeqCst)));
        r.set("traces_validated_against_impl", json!(transitions.load(Ordering::SeqCst)));
        r.set("aborted_transactions_that_reached_the_abort", json!(rolled_back_with_work.load(Ordering::SeqCst)));
        r.set("distinct_failure_results", json!(outcomes.len()));
    };
    if engine::run_items_isolated(args, &report, items.len(), &|i| check_state(items[i].1, &items[i].2, items[i].0, &scratch, None), &counts, &|i| ("state".to_string(), format!("start state {:?}", items[i].2.iter().map(|k| w.alpha[*k].0).collect::<Vec<_>>()), w.replay_json(items[i].1, &items[i].2, json!({"variant": items[i].0.name()})))) {
        return 0;
    }
    report.sample(json!({"state": w.replay_json(items[1].1, &items[1].2, json!(null)), "transaction_body": bodies[300].iter().map(|i| body[*i].0).collect::<Vec<_>>(), "then": "closure returns Err"}));
    report.sample(json!({"state": w.replay_json(items[1].1, &items[1].2, json!(null)), "failing_query": failing[0].0}));
    report.set("start_states_enumerated", json!(items.len()));
    report.set("state_depth", json!(d0));
    report.set("transaction_bodies_per_state", json!(bodies.len()));
    report.set("failing_queries_per_state", json!(failing.len()));
    report.set("variants", json!(variants.iter().map(|v| v.name()).collect::<Vec<_>>()));
    report.set("exhaustive", json!(true));
    report.set("rule", json!("from every state reached by <= state_depth steps of H from 6 base states: every transaction body of 1..3 queries over a 20-query body alphabet followed by Err from the closure, and each of 12 single queries that fail after partial work; the order-insensitive canonical dump (elements, endpoints, property sets, aliases, index contents, node count) must be unchanged"));
    report.finish()
}
