//! C32 — a failed write never corrupts or loses later committed work.
//! Fault injection through a public `StorageData` wrapper passed to
//! `DbImpl::with_data`: for every history, every write/resize call of the last
//! step is failed once ("disk full": returns Err without performing it);
//! then a follow-up step, close and reopen. DESIGN.md §3, §4/C32.

use crate::c0506::{Hist, World, res_string};
use crate::dbops::*;
use agdb::{DbError, DbErrorType, DbImpl, FileStorage, StorageData, StorageSlice};
use engine::{Args, DistinctCounter, Report, Scratch, catch};
use serde_json::{Value, json};
use std::cell::Cell;
use std::sync::atomic::{AtomicU64, Ordering};

thread_local! {
    /// number of write/resize calls seen since arming
    static CALLS: Cell<u64> = const { Cell::new(0) };
    /// fail the call with this ordinal (0 = none)
    static FAIL_AT: Cell<u64> = const { Cell::new(0) };
    static FAILED_KIND: Cell<&'static str> = const { Cell::new("") };
}

pub const FAULT_TEXT: &str = "verif: injected storage failure (disk full)";

fn arm(n: u64) {
    CALLS.with(|c| c.set(0));
    FAIL_AT.with(|c| c.set(n));
    FAILED_KIND.with(|c| c.set(""));
}
fn disarm() -> (u64, &'static str) {
    FAIL_AT.with(|c| c.set(0));
    (CALLS.with(|c| c.get()), FAILED_KIND.with(|c| c.get()))
}
fn tick(kind: &'static str) -> Result<(), DbError> {
    let n = CALLS.with(|c| {
        c.set(c.get() + 1);
        c.get()
    });
    if n == FAIL_AT.with(|c| c.get()) {
        FAILED_KIND.with(|c| c.set(kind));
        return Err(DbError::storage(DbErrorType::NotAllowed, FAULT_TEXT));
    }
    Ok(())
}

/// Public-API fault injector: delegates everything to the real FileStorage.
pub struct Faulty {
    inner: FileStorage,
}

impl StorageData for Faulty {
    fn backup(&self, name: &str) -> Result<(), DbError> {
        self.inner.backup(name)
    }
    fn copy(&self, name: &str) -> Result<Self, DbError> {
        Ok(Faulty { inner: self.inner.copy(name)? })
    }
    fn flush(&mut self) -> Result<(), DbError> {
        self.inner.flush()
    }
    fn len(&self) -> u64 {
        self.inner.len()
    }
    fn name(&self) -> &str {
        self.inner.name()
    }
    fn new(name: &str) -> Result<Self, DbError> {
        Ok(Faulty { inner: FileStorage::new(name)? })
    }
    fn read(&'_ self, pos: u64, value_len: u64) -> Result<StorageSlice<'_>, DbError> {
        self.inner.read(pos, value_len)
    }
    fn rename(&mut self, new_name: &str) -> Result<(), DbError> {
        self.inner.rename(new_name)
    }
    fn resize(&mut self, new_len: u64) -> Result<(), DbError> {
        tick("resize")?;
        self.inner.resize(new_len)
    }
    fn write(&mut self, pos: u64, bytes: &[u8]) -> Result<(), DbError> {
        tick("write")?;
        self.inner.write(pos, bytes)
    }
}

fn open_faulty(w: &World, path: &str, base: usize) -> Result<Box<dyn DbLike>, String> {
    // copy the prepared base file, then open through the public with_data seam
    // copy the prepared base file (or replay a live base's script), through the public with_data seam
    let script = w.stage_base(path, base)?;
    let mut db: Box<dyn DbLike> = Box::new(DbImpl::<Faulty>::with_data(Faulty::new(path).map_err(|e| e.description)?).map_err(|e| e.description)?);
    for s in script {
        s.run(db.as_mut()).map_err(|e| format!("base script failed: {}", e.description))?;
    }
    Ok(db)
}

pub fn run(args: &Args) -> i32 {
    let report = Report::new(args, "fault_enumeration");
    let w = World::new();
    let depth: usize = std::env::var("VERIF_C32_DEPTH").ok().and_then(|s| s.parse().ok()).unwrap_or(args.tier.pick(1, 2));
    let follow_names: Vec<&str> = args.tier.pick(vec!["nodes_alias_b_values"], vec!["nodes_alias_b_values", "values_1_long", "edge_1_2_values", "alias_a_2", "remove_1", "insert_index_kl"]);
    let follow: Vec<usize> = follow_names.iter().map(|n| w.alpha.iter().position(|a| a.0 == *n).unwrap()).collect();
    let scenarios = AtomicU64::new(0);
    let faults = AtomicU64::new(0);
    let steps = AtomicU64::new(0);
    let distinct = DistinctCounter::default();
    let fine = AtomicU64::new(0);

    let n_alpha = w.alpha.len();
    // last steps n_alpha.. are maintenance operations: close (drop => defragmentation), optimize_storage, shrink_to_fit
    let maint_names = ["close", "optimize_storage", "shrink_to_fit"];
    let run_last = |db: &mut Option<Box<dyn DbLike>>, last: usize| -> Result<(), String> {
        if last < n_alpha {
            return w.alpha[last].1.run(db.as_mut().unwrap().as_mut()).map(|_| ()).map_err(|e| e.description);
        }
        agdb::verif::set_probe_budget(PROBE_BUDGET);
        let r = match last - n_alpha {
            0 => {
                *db = None; // drop: errors of the implicit defragmentation are swallowed by design
                Ok(())
            }
            1 => db.as_mut().unwrap().optimize().map_err(|e| e.description),
            _ => db.as_mut().unwrap().shrink().map_err(|e| e.description),
        };
        agdb::verif::set_probe_budget(u64::MAX);
        r
    };
    let check = |base: usize, hist: &Hist, last: usize, scratch: &Scratch, only: Option<(u64, usize)>| {
        scratch.clear();
        let last_kind = if last < n_alpha { w.alpha[last].1.kind() } else { maint_names[last - n_alpha].to_string() };
        let last_name = if last < n_alpha { w.alpha[last].0 } else { maint_names[last - n_alpha] };
        let detail = |n: u64, f: Option<usize>| json!({"last": last_name, "fail_call": n, "follow_up": f.map(|i| w.alpha[i].0)});
        // reference run: no fault. Learn the number of storage calls and the reference follow-up results.
        let r = catch(|| -> Result<(String, u64, Vec<(String, String)>), String> {
            let mut db = open_faulty(&w, &scratch.path("ref.agdb"), base)?;
            for i in hist {
                let _ = w.alpha[*i].1.run(db.as_mut());
            }
            let before = dump(db.as_ref(), false)?.canonical();
            drop(db);
            // count calls of the last step
            let mut db = open_faulty(&w, &scratch.path("cnt.agdb"), base)?;
            for i in hist {
                let _ = w.alpha[*i].1.run(db.as_mut());
            }
            arm(0);
            let mut dbo = Some(db);
            let _ = run_last(&mut dbo, last);
            let (n, _) = disarm();
            drop(dbo);
            // reference follow-ups from the state `before`
            let mut refs = vec![];
            for (k, f) in follow.iter().enumerate() {
                let mut db = open_faulty(&w, &scratch.path(&format!("rf{k}.agdb")), base)?;
                for i in hist {
                    let _ = w.alpha[*i].1.run(db.as_mut());
                }
                let r = res_string(&w.alpha[*f].1.run(db.as_mut()));
                refs.push((r, dump(db.as_ref(), false)?.canonical()));
            }
            Ok((before, n, refs))
        });
        let (before, ncalls, refs) = match r {
            Ok(Ok(x)) => x,
            other => {
                report.violation(&format!("step={last_kind}|reference-run-failed"), &format!("{:?}", other.map(|r| r.map(|_| ()))), w.replay_json(base, hist, detail(0, None)));
                return;
            }
        };
        steps.fetch_add(1, Ordering::Relaxed);
        let mut case = 0u32;
        for n in 1..=ncalls {
            faults.fetch_add(1, Ordering::Relaxed);
            // thorough: all follow-ups after histories of one step, the first two after depth-2 histories
            for (fk, f) in follow.iter().enumerate().take(if hist.is_empty() { follow.len() } else { 2 }) {
                if let Some((on, of)) = only {
                    if on != n || of != *f {
                        continue;
                    }
                }
                scenarios.fetch_add(1, Ordering::Relaxed);
                case += 1;
                let path = scratch.path(&format!("f{}.agdb", case % 3));
                let _ = std::fs::remove_file(&path);
                let fault_kind = Cell::new("");
                let clause_sig = |c: &str| format!("step={last_kind}|fault={}|clause={c}", fault_kind.get());
                let r = catch(|| -> Result<Option<(String, String)>, (String, String)> {
                    let mut db = open_faulty(&w, &path, base).map_err(|e| ("setup".to_string(), e))?;
                    for i in hist {
                        let _ = w.alpha[*i].1.run(db.as_mut());
                    }
                    arm(n);
                    let mut dbo = Some(db);
                    let res = catch(|| run_last(&mut dbo, last));
                    let (_, kind) = disarm();
                    fault_kind.set(kind);
                    let res = match res {
                        Ok(r) => r,
                        Err(p) => return Err((format!("faulted-query-panics|{}|{}", p.file(), p.normalised()), format!("panic: {} at {}", p.message, p.location))),
                    };
                    if kind.is_empty() {
                        return Ok(None); // call n not reached on this path (cannot happen: deterministic)
                    }
                    if last == n_alpha {
                        // the database was closed while a write of its defragmentation failed: it must reopen unchanged
                        let db = Variant::File.open(&path).map_err(|e| ("reopen-fails".to_string(), format!("{} / {}", e.description, e.cause.map(|c| c.description).unwrap_or_default())))?;
                        let d3 = dump(db.as_ref(), false).map_err(|e| ("reopened-unreadable".to_string(), e))?.canonical();
                        if d3 != before {
                            return Err(("state-differs-after-failed-close".into(), "after a close whose defragmentation hit a failing write the reopened database differs".into()));
                        }
                        return Ok(Some((String::new(), d3)));
                    }
                    let mut db = dbo.take().unwrap();
                    if res.is_ok() && last < n_alpha {
                        return Err(("faulted-query-reports-success".into(), "a storage write failed but the query returned Ok".into()));
                    }
                    let now = dump(db.as_ref(), false).map_err(|e| ("database-unreadable-after-failure".to_string(), e))?.canonical();
                    if now != before {
                        return Err(("failed-query-has-effect".into(), "after the failed query the database differs from before it".into()));
                    }
                    let fr = catch(|| w.alpha[*f].1.run(db.as_mut()));
                    let fr = match fr {
                        Ok(r) => res_string(&r),
                        Err(p) => return Err((format!("later-query-panics|{}|{}", p.file(), p.normalised()), format!("follow-up panicked: {} at {}", p.message, p.location))),
                    };
                    if fr != refs[fk].0 {
                        return Err(("later-query-result-differs".into(), format!("follow-up returned {fr}, on a never-faulted database it returns {}", refs[fk].0)));
                    }
                    let d2 = dump(db.as_ref(), false).map_err(|e| ("database-unreadable-after-follow-up".to_string(), e))?.canonical();
                    if d2 != refs[fk].1 {
                        return Err(("later-query-state-differs".into(), "state after the follow-up differs from the never-faulted database".into()));
                    }
                    drop(db);
                    let db = Variant::File.open(&path).map_err(|e| ("reopen-fails".to_string(), format!("{} / {}", e.description, e.cause.map(|c| c.description).unwrap_or_default())))?;
                    let d3 = dump(db.as_ref(), false).map_err(|e| ("reopened-unreadable".to_string(), e))?.canonical();
                    if d3 != d2 {
                        return Err(("later-work-lost-after-reopen".into(), "after close and reopen the database differs from the state after the successful follow-up".into()));
                    }
                    Ok(Some((fr, d3)))
                });
                disarm();
                match r {
                    Ok(Ok(Some((fr, d)))) => {
                        fine.fetch_add(1, Ordering::Relaxed);
                        distinct.insert(format!("{fr}{d}").as_bytes());
                    }
                    Ok(Ok(None)) => {}
                    Ok(Err((clause, what))) => report.violation(&clause_sig(&clause), &format!("failing storage call {n} of {ncalls} of `{last_name}`: {what}"), w.replay_json(base, hist, detail(n, Some(*f)))),
                    Err(p) => report.violation(&clause_sig(&format!("panic|{}|{}", p.file(), p.normalised())), &format!("panic: {} at {}", p.message, p.location), w.replay_json(base, hist, detail(n, Some(*f)))),
                }
            }
        }
    };

    if let Some(path) = &args.replay {
        let v: Value = serde_json::from_str(&std::fs::read_to_string(path).unwrap_or_else(|e| engine::machinery_failure(&e.to_string()))).unwrap();
        let (base, hist) = w.parse_replay(&v["replay"]);
        let d = &v["replay"]["detail"];
        let last = w.alpha.iter().position(|a| Some(a.0) == d["last"].as_str()).or_else(|| maint_names.iter().position(|m| Some(*m) == d["last"].as_str()).map(|i| i + n_alpha)).unwrap_or_else(|| engine::machinery_failure("replay: unknown last step"));
        let f = w.alpha.iter().position(|a| Some(a.0) == d["follow_up"].as_str()).unwrap_or(follow[0]);
        check(base, &hist, last, &Scratch::new("c32r"), Some((d["fail_call"].as_u64().unwrap_or(1), f)));
        return report.finish();
    }

    let mut prefixes: Vec<Hist> = vec![vec![]];
    let mut level: Vec<Hist> = vec![vec![]];
    for _ in 1..depth {
        let mut next = vec![];
        for h in &level {
            for a in 0..w.alpha.len() {
                let mut h2 = h.clone();
                h2.push(a);
                next.push(h2);
            }
        }
        prefixes.extend(next.iter().cloned());
        level = next;
    }
    let mut items = vec![];
    for b in 0..w.bases.len() {
        for p in &prefixes {
            for l in 0..w.alpha.len() + 3 {
                // quick: on the 59-alias base (about 700 storage calls per step) only the steps that touch aliases
                if args.tier == engine::Tier::Quick && w.bases[b].0 == "alias_map_near_rehash" && !(l < w.alpha.len() && w.alpha[l].0.contains("alias")) {
                    continue;
                }
                items.push((b, p.clone(), l));
            }
        }
    }
    let scratch = Scratch::new("c32");
    let counts = |r: &Report| {
        r.set("evaluations", json!(scenarios.load(Ordering::SeqCst)));
        r.set("distinct_nontrivial", json!(faults.load(Ordering::SeqCst)));
        r.set("faulted_steps", json!(steps.load(Ordering::SeqCst)));
        r.set("fault_points", json!(faults.load(Ordering::SeqCst)));
        r.set("scenarios_fully_fine", json!(fine.load(Ordering::SeqCst)));
        r.set("distinct_final_states_of_fine_scenarios", json!(distinct.len()));
    };
    let last_name = |l: usize| if l < n_alpha { w.alpha[l].0 } else { maint_names[l - n_alpha] };
    if engine::run_items_isolated(args, &report, items.len(), &|i| check(items[i].0, &items[i].1, items[i].2, &scratch, None), &counts, &|i| (format!("step={}", last_name(items[i].2)), format!("faulting `{}`", last_name(items[i].2)), w.replay_json(items[i].0, &items[i].1, json!({"last": last_name(items[i].2)})))) {
        return 0;
    }
    report.sample(json!({"history": w.replay_json(items[3].0, &items[3].1, json!(null)), "faulted_step": w.alpha[items[3].2.min(n_alpha - 1)].0, "fault": "each storage write/resize call of the step fails once", "then": follow_names}));
    report.set("history_depth", json!(depth));
    report.set("follow_ups", json!(follow_names));
    report.set("exhaustive", json!(true));
    report.set("rule", json!("every history of <= depth steps over H (+ close, optimize_storage, shrink_to_fit as last step) from 6 base states on DbImpl<Faulty(FileStorage)>; for the last step every storage write/resize call (distinct_nontrivial = number of distinct (step, call ordinal) fault points) fails once without being performed; oracle: the query returns Err, the database is unchanged, each follow-up step behaves as on a never-faulted database, and close + reopen preserves the follow-up's effect"));
    report.assume("fault model: the n-th write/resize returns Err without side effect (disk full); read, flush, rename and backup never fail");
    report.finish()
}
