//! Checks of the agdb library (C01-C23, C32). `core_checks <Cxx> [--tier ..] [--replay file]`
mod c01;
mod c0203;
mod c04;
mod c0506;
mod c08;
mod refdb;
mod c13;
mod c19;
mod c23;
mod c32;
mod dbops;
mod storops;

#[global_allocator]
static ALLOC: engine::GuardAlloc = engine::GuardAlloc;

fn main() {
    let args = engine::parse_args();
    engine::install_quiet_panic_hook();
    // C04's BFS, C19's BFS and C23 keep their search state in one process: run that process
    // as a child so that an abort inside the subject is a violation, not a dead check
    if matches!(args.property.as_str(), "C04" | "C19" | "C23") {
        let level = "model_checking";
        if let Some(code) = engine::run_whole_in_child(&args, level) {
            std::process::exit(code);
        }
    }
    let code = match args.property.as_str() {
        "C01" => c01::run(&args),
        "C02" | "C03" => c0203::run(&args),
        "C04" => c04::run(&args),
        "C05" => c0506::run_c05(&args),
        "C06" => c0506::run_c06(&args),
        "C08" | "C09" | "C10" | "C11" | "C18" => c08::run(&args),
        "C13" => c13::run(&args),
        "C19" => c19::run(&args),
        "C23" => c23::run(&args),
        "C32" => c32::run(&args),
        other => engine::machinery_failure(&format!("core_checks: unknown property {other}")),
    };
    std::process::exit(code);
}
