//! C17 - path search returns a minimum-cost path.
//! Exhaustive over all small multigraphs (ordered edge sequences, plus
//! histories with removals), all (origin, destination) pairs incl. equal,
//! edge and missing ids, and ALL assignments pass/fail/stop to the elements
//! (realised by `ids(P) and not_beyond ids(S)`), plus a fixed set of other
//! condition forms. Reference: brute force over all simple paths.

use crate::common::*;
use crate::refeval::*;
use agdb::{Comparison, DbId, DbImpl, DbValue, KeyValueComparison, QueryBuilder, QueryCondition, QueryConditionData, QueryConditionLogic, QueryConditionModifier, QueryId, SearchQuery, StorageData};
use engine::{Args, DistinctCounter, Report};
use serde_json::{Value, json};
use std::sync::atomic::{AtomicU64, Ordering};

fn cond(logic: QueryConditionLogic, modifier: QueryConditionModifier, data: QueryConditionData) -> QueryCondition {
    QueryCondition { logic, modifier, data }
}

fn ids_data(ids: &[i64]) -> QueryConditionData {
    QueryConditionData::Ids(ids.iter().map(|i| QueryId::Id(DbId(*i))).collect())
}

/// conditions under which exactly `pass` pass, `stop` stop the search, the rest fail
fn assignment_conditions(pass: &[i64], stop: &[i64]) -> Vec<QueryCondition> {
    use QueryConditionLogic::And;
    use QueryConditionModifier::{None, NotBeyond};
    let mut v = vec![cond(And, None, ids_data(pass))];
    if !stop.is_empty() {
        v.push(cond(And, NotBeyond, ids_data(stop)));
    }
    v
}

fn key() -> DbValue {
    DbValue::String("k".into())
}

/// other condition forms, evaluated on graphs whose elements at even
/// positions carry k = position
fn condition_forms() -> Vec<(&'static str, Vec<QueryCondition>)> {
    use QueryConditionLogic::{And, Or};
    use QueryConditionModifier::{Beyond, None, Not, NotBeyond};
    let keys = || QueryConditionData::Keys(vec![key()]);
    vec![
        ("none", vec![]),
        ("node", vec![cond(And, None, QueryConditionData::Node)]),
        ("edge", vec![cond(And, None, QueryConditionData::Edge)]),
        ("keys", vec![cond(And, None, keys())]),
        ("not-keys", vec![cond(And, Not, keys())]),
        ("kv-eq-0", vec![cond(And, None, QueryConditionData::KeyValue(KeyValueComparison { key: key(), value: Comparison::Equal(DbValue::I64(0)) }))]),
        ("beyond-keys", vec![cond(And, Beyond, keys())]),
        ("not_beyond-keys", vec![cond(And, NotBeyond, keys())]),
        ("node-and-not_beyond-kv", vec![cond(And, None, QueryConditionData::Node), cond(And, NotBeyond, QueryConditionData::KeyValue(KeyValueComparison { key: key(), value: Comparison::Equal(DbValue::I64(2)) }))]),
        ("where(node-or-keys)", vec![cond(And, None, QueryConditionData::Where(vec![cond(And, None, QueryConditionData::Node), cond(Or, None, keys())]))]),
    ]
}

pub struct Failure {
    pub clause: String,
    pub what: String,
    pub expected: Value,
    pub observed: Value,
}

/// Err: the case is not judged. The result must be acceptable under at least
/// one reading of the open corners (only `beyond` failing at the origin matters here).
pub fn check_case<S: StorageData>(db: &DbImpl<S>, g: &RefGraph, q: &SearchQuery, origin: i64, destination: i64) -> Result<Option<Failure>, Undefined> {
    let out = run_search(db, q);
    let mut first = None;
    for r in readings_for(&q.conditions) {
        if r.distance != PLAIN_READING.distance || r.beyond_keeps_inner_stop {
            continue; // no distance conditions and no stoppable inner conditions in C17
        }
        match check_reading(g, q, origin, destination, &out, r)? {
            None => return Ok(None),
            Some(f) => first = first.or(Some(f)),
        }
    }
    Ok(first)
}

fn check_reading(g: &RefGraph, q: &SearchQuery, origin: i64, destination: i64, out: &Outcome, readings: Readings) -> Result<Option<Failure>, Undefined> {
    let reference = ref_paths(g, origin, destination, &q.conditions, readings)?;
    let endpoints_exist = g.exists(origin) && g.exists(destination);
    let fail = |clause: &str, what: String, expected: Value, observed: Value| Ok(Some(Failure { clause: clause.to_string(), what, expected, observed }));
    let ids = match out {
        Outcome::Ids(v) => v.clone(),
        Outcome::Error(_) if !endpoints_exist => return Ok(None), // documented: "must exist in the database, otherwise an error"
        other => return fail(&other.failure_clause().unwrap(), "path search failed".into(), json!({"acceptable": reference.acceptable}), other.to_json()),
    };
    match reference.min_cost {
        None => {
            if ids.is_empty() {
                return Ok(None);
            }
            // why is there no usable path?
            let clause = if origin == destination {
                "nonempty:origin-equals-destination"
            } else if !g.is_node(origin) || !g.is_node(destination) {
                "nonempty:endpoint-not-a-node"
            } else if usability(g, origin, true, &q.conditions, readings)? == Usable::Stop {
                "nonempty:search-stops-at-origin"
            } else {
                "nonempty:no-usable-path"
            };
            fail(clause, "a result is returned although no usable path exists".into(), json!([]), json!(ids))
        }
        Some(cost) => {
            if reference.acceptable.contains(&ids) {
                return Ok(None);
            }
            let expected = json!({"min_cost_excluding_origin": cost, "acceptable_results": reference.acceptable});
            if ids.is_empty() {
                return fail("empty-although-usable-path-exists", "empty result".into(), expected, json!(ids));
            }
            // is it at least the listing of some usable (but costlier) path?
            let mut any = false;
            all_listings(g, origin, destination, &q.conditions, readings, &mut |listing, _| any |= listing == ids);
            fail(if any { "path-not-minimal" } else { "not-a-usable-path" }, "result is not the listing of a minimum-cost path".into(), expected, json!(ids))
        }
    }
}

/// listings (elements that pass) of all usable simple paths, with cost
fn all_listings(g: &RefGraph, origin: i64, destination: i64, conds: &[QueryCondition], readings: Readings, f: &mut dyn FnMut(Vec<i64>, u64)) {
    let us: std::collections::BTreeMap<i64, Usable> = g.elements().into_iter().map(|id| (id, usability(g, id, id == origin, conds, readings).unwrap_or(Usable::Stop))).collect();
    fn walk(g: &RefGraph, us: &std::collections::BTreeMap<i64, Usable>, dest: i64, path: &mut Vec<i64>, nodes: &mut Vec<i64>, cost: u64, f: &mut dyn FnMut(Vec<i64>, u64)) {
        let node = *nodes.last().unwrap();
        if node == dest {
            f(path.iter().copied().filter(|i| us[i] == Usable::Pass).collect(), cost);
            return;
        }
        let edges: Vec<(i64, i64)> = g.out_edges(node).iter().map(|e| (e.id, e.to)).collect();
        for (e, to) in edges {
            if us[&e] == Usable::Stop || us[&to] == Usable::Stop || nodes.contains(&to) {
                continue;
            }
            let c = |u: Usable| if u == Usable::Pass { 1 } else { 2 };
            path.push(e);
            path.push(to);
            nodes.push(to);
            walk(g, us, dest, path, nodes, cost + c(us[&e]) + c(us[&to]), f);
            nodes.pop();
            path.pop();
            path.pop();
        }
    }
    if !g.is_node(origin) || !g.is_node(destination) || origin == destination || us[&origin] == Usable::Stop {
        return;
    }
    walk(g, &us, destination, &mut vec![origin], &mut vec![origin], 0, f);
}

fn path_query(origin: i64, destination: i64, conds: Vec<QueryCondition>) -> SearchQuery {
    let mut q = QueryBuilder::search().from(origin).to(destination).query();
    q.conditions = conds;
    q
}

fn signature(form: &str, clause: &str) -> String {
    // the clause classifies; the way the conditions were produced is only kept for failed executions
    if clause.starts_with("panic:") || clause.starts_with("error:") { format!("clause={clause}|conditions={}", form.split(':').next().unwrap_or(form)) } else { format!("clause={clause}") }
}

fn replay_value(spec: &GraphSpec, g: &RefGraph, q: &SearchQuery, origin: i64, destination: i64, form: &str, f: &Failure) -> Value {
    json!({
        "check": "C17", "graph": spec.to_json(), "graph_listing": g.listing(), "conditions_form": form,
        "origin": origin, "destination": destination, "query": query_json(q),
        "clause": f.clause, "expected": f.expected, "observed": f.observed,
    })
}

struct Counters {
    graphs: AtomicU64,
    searches: AtomicU64,
    undefined: AtomicU64,
    with_path: AtomicU64,
    with_choice: AtomicU64,
    build_failures: AtomicU64,
}

// ---------------------------------------------------------------------------
// family "route graphs": origin (slot 0) and destination (slot 1) joined by
// 2..3 internally disjoint routes of 1..3 edges each, optionally plus one more
// edge between any ordered pair of nodes (shortcut, back edge, loop, parallel).
// Up to 8 nodes / 10 edges: the place where "fewest elements" and "cheapest"
// disagree (a short route whose inner elements fail vs a longer one that passes).

fn route_specs(extra_edge_on_three_routes: bool) -> Vec<(String, GraphSpec)> {
    let mut out = vec![];
    for r in 2..=3usize {
        let mut lens = vec![1usize; r];
        loop {
            let mut ops = vec![];
            let mut next = 2u8;
            for l in &lens {
                let mut prev = 0u8;
                for step in 0..*l {
                    let to = if step + 1 == *l {
                        1
                    } else {
                        next += 1;
                        next - 1
                    };
                    ops.push(Op::Edge(prev, to));
                    prev = to;
                }
            }
            let nodes = next;
            let name = format!("routes:{}", lens.iter().map(|l| l.to_string()).collect::<Vec<_>>().join("-"));
            out.push((name.clone(), GraphSpec::plain(nodes, &ops)));
            for a in 0..nodes {
                for b in 0..nodes {
                    if r == 3 && !extra_edge_on_three_routes {
                        continue;
                    }
                    let mut o = ops.clone();
                    o.push(Op::Edge(a, b));
                    out.push((format!("{name}+E{a}-{b}"), GraphSpec::plain(nodes, &o)));
                }
            }
            // next length vector
            let mut i = 0;
            while i < r {
                if lens[i] < 3 {
                    lens[i] += 1;
                    break;
                }
                lens[i] = 1;
                i += 1;
            }
            if i == r {
                break;
            }
        }
    }
    out
}

/// (minimal cost, fewest elements among the minimal-cost paths, fewest elements among all usable paths)
fn cheapest_vs_shortest(g: &RefGraph, origin: i64, destination: i64, conds: &[QueryCondition]) -> Option<(u64, usize, usize)> {
    let us: std::collections::BTreeMap<i64, Usable> = g.elements().into_iter().map(|id| (id, usability(g, id, id == origin, conds, PLAIN_READING).unwrap_or(Usable::Stop))).collect();
    if us[&origin] == Usable::Stop {
        return None;
    }
    fn walk(g: &RefGraph, us: &std::collections::BTreeMap<i64, Usable>, dest: i64, nodes: &mut Vec<i64>, cost: u64, len: usize, best: &mut Option<(u64, usize, usize)>) {
        let node = *nodes.last().unwrap();
        if node == dest {
            *best = Some(match *best {
                None => (cost, len, len),
                Some((c, l, all)) => {
                    let all = all.min(len);
                    if cost < c {
                        (cost, len, all)
                    } else if cost == c {
                        (c, l.min(len), all)
                    } else {
                        (c, l, all)
                    }
                }
            });
            return;
        }
        let edges: Vec<(i64, i64)> = g.out_edges(node).iter().map(|e| (e.id, e.to)).collect();
        for (e, to) in edges {
            if us[&e] == Usable::Stop || us[&to] == Usable::Stop || nodes.contains(&to) {
                continue;
            }
            let c = |u: Usable| if u == Usable::Pass { 1 } else { 2 };
            nodes.push(to);
            walk(g, us, dest, nodes, cost + c(us[&e]) + c(us[&to]), len + 2, best);
            nodes.pop();
        }
    }
    let mut best = None;
    walk(g, &us, destination, &mut vec![origin], 0, 1, &mut best);
    best
}

#[derive(Default)]
struct RouteCounters {
    graphs: AtomicU64,
    searches: AtomicU64,
    pass_fail: AtomicU64,
    pass_fail_stop: AtomicU64,
    cheapest_is_not_shortest: AtomicU64,
    no_usable_path: AtomicU64,
}

/// every assignment pass/fail to the inner elements; every assignment
/// pass/fail/stop when there are at most `stop_limit` inner elements
fn explore_routes(report: &Report, rc: &RouteCounters, name: &str, spec: &GraphSpec, stop_limit: usize) {
    let (db, g) = build_memory(spec).unwrap_or_else(|e| engine::machinery_failure(&format!("{name}: {e}")));
    let (o, d) = (g.slots[0], g.slots[1]);
    let inner: Vec<i64> = g.elements().into_iter().filter(|id| *id != o && *id != d).collect();
    let k = inner.len();
    rc.graphs.fetch_add(1, Ordering::Relaxed);
    let mut seen = std::collections::HashSet::new();
    let (mut n, mut n_pf, mut n_pfs, mut n_diff, mut n_none) = (0u64, 0u64, 0u64, 0u64, 0u64);
    let mut case = |pass: Vec<i64>, stop: Vec<i64>| {
        let q = path_query(o, d, assignment_conditions(&pass, &stop));
        n += 1;
        match cheapest_vs_shortest(&g, o, d, &q.conditions) {
            None => n_none += 1,
            Some((_, l, all)) if l > all => n_diff += 1,
            _ => {}
        }
        if let Ok(Some(f)) = check_case(&db, &g, &q, o, d) {
            let sig = signature("route-assignment", &f.clause);
            let first = seen.insert(sig.clone());
            report.violation(&sig, &f.what, if first { replay_value(spec, &g, &q, o, d, &format!("route-assignment:{name}"), &f) } else { Value::Null });
        }
    };
    for a in 0..(1usize << k) {
        let mut pass = vec![o, d];
        pass.extend(inner.iter().enumerate().filter(|(i, _)| a >> i & 1 == 0).map(|(_, id)| *id));
        case(pass, vec![]);
        n_pf += 1;
    }
    if k <= stop_limit {
        for a in 0..3usize.pow(k as u32) {
            let (mut x, mut pass, mut stop, mut any_stop) = (a, vec![o, d], vec![], false);
            for id in &inner {
                match x % 3 {
                    0 => pass.push(*id),
                    2 => {
                        stop.push(*id);
                        any_stop = true;
                    }
                    _ => {}
                }
                x /= 3;
            }
            if any_stop {
                // assignments without a stop are the pass/fail ones above
                case(pass, stop);
                n_pfs += 1;
            }
        }
    }
    rc.searches.fetch_add(n, Ordering::Relaxed);
    rc.pass_fail.fetch_add(n_pf, Ordering::Relaxed);
    rc.pass_fail_stop.fetch_add(n_pfs, Ordering::Relaxed);
    rc.cheapest_is_not_shortest.fetch_add(n_diff, Ordering::Relaxed);
    rc.no_usable_path.fetch_add(n_none, Ordering::Relaxed);
}

/// endpoint pairs: every ordered pair of nodes incl. equal; one edge as
/// origin and as destination; a missing node id and a missing edge id
fn endpoint_pairs(g: &RefGraph) -> Vec<(i64, i64)> {
    let mut v = vec![];
    for a in &g.slots {
        for b in &g.slots {
            v.push((*a, *b));
        }
    }
    let n0 = g.slots[0];
    if let Some(e) = g.edges.last() {
        v.push((e.id, n0));
        v.push((n0, e.id));
    }
    let missing_node = g.slots.iter().max().unwrap() + 7;
    let missing_edge = g.edges.iter().map(|e| e.id).min().unwrap_or(0) - 7;
    v.push((missing_node, n0));
    v.push((n0, missing_node));
    v.push((n0, missing_edge));
    v
}

fn explore_graph(report: &Report, c: &Counters, spec: &GraphSpec, assignments: bool, outcomes: &DistinctCounter) {
    // properties for the condition forms: k = position on even positions
    let mut spec = spec.clone();
    let mut created = 0u8;
    let mut live: Vec<(u8, u8, u8)> = vec![];
    for op in &spec.ops {
        match *op {
            Op::Edge(a, b) => {
                live.push((created, a, b));
                created += 1;
            }
            Op::RemoveEdge(j) => {
                live.remove(j as usize);
            }
            Op::RenewNode(s) | Op::DropNode(s) => live.retain(|(_, a, b)| *a != s && *b != s),
                    Op::AddNode => {}
        }
    }
    let mut pos = 0i64;
    for s in 0..spec.nodes {
        if pos % 2 == 0 {
            spec.props.push((ElemRef::Node(s), key(), DbValue::I64(pos)));
        }
        pos += 1;
    }
    for (nth, _, _) in &live {
        if pos % 2 == 0 {
            spec.props.push((ElemRef::Edge(*nth), key(), DbValue::I64(pos)));
        }
        pos += 1;
    }
    let (db, g) = match build_memory(&spec) {
        Ok(x) => x,
        Err(e) => {
            if c.build_failures.fetch_add(1, Ordering::SeqCst) == 0 {
                eprintln!("build failed for {}: {e}", spec.to_json());
            }
            return;
        }
    };
    c.graphs.fetch_add(1, Ordering::Relaxed);
    let pairs = endpoint_pairs(&g);
    let elements = g.elements();
    let mut n_search = 0u64;
    let mut n_undef = 0u64;
    let mut n_path = 0u64;
    let mut n_choice = 0u64;
    let mut seen = std::collections::HashSet::new();
    let mut run = |form: &str, conds: Vec<QueryCondition>| {
        for &(o, d) in &pairs {
            let q = path_query(o, d, conds.clone());
            n_search += 1;
            match check_case(&db, &g, &q, o, d) {
                Err(_) => n_undef += 1,
                Ok(None) => {}
                Ok(Some(f)) => {
                    let sig = signature(form, &f.clause);
                    let first = seen.insert(sig.clone());
                    report.violation(&sig, &f.what, if first { replay_value(&spec, &g, &q, o, d, form, &f) } else { Value::Null });
                }
            }
        }
    };
    for (name, conds) in condition_forms() {
        run(&format!("form:{name}"), conds);
    }
    if assignments {
        // every assignment of pass(0)/fail(1)/stop(2) to the elements
        let k = elements.len();
        let total = 3usize.pow(k as u32);
        for a in 0..total {
            let mut x = a;
            let mut pass = vec![];
            let mut stop = vec![];
            for id in &elements {
                match x % 3 {
                    0 => pass.push(*id),
                    2 => stop.push(*id),
                    _ => {}
                }
                x /= 3;
            }
            run("ids-assignment", assignment_conditions(&pass, &stop));
        }
    }
    // coverage facts from the reference (unconditioned): how many pairs have a path / a choice between several paths
    for &(o, d) in &pairs {
        let mut n = 0;
        all_listings(&g, o, d, &[], PLAIN_READING, &mut |_, _| n += 1);
        if n > 0 {
            n_path += 1;
            let mut key = g.canonical();
            key.extend_from_slice(&o.to_le_bytes());
            key.extend_from_slice(&d.to_le_bytes());
            outcomes.insert(&key);
        }
        if n > 1 {
            n_choice += 1;
        }
    }
    c.searches.fetch_add(n_search, Ordering::Relaxed);
    c.undefined.fetch_add(n_undef, Ordering::Relaxed);
    c.with_path.fetch_add(n_path, Ordering::Relaxed);
    c.with_choice.fetch_add(n_choice, Ordering::Relaxed);
}

pub fn replay(args: &Args, path: &str) -> i32 {
    let report = Report::new(args, "model_checking");
    let r = load_replay(path);
    let spec = GraphSpec::from_json(&r["graph"]).unwrap_or_else(|e| engine::machinery_failure(&e));
    let q = query_from_json(&r["query"]).unwrap_or_else(|e| engine::machinery_failure(&e));
    let (o, d) = (r["origin"].as_i64().unwrap_or(0), r["destination"].as_i64().unwrap_or(0));
    let form = r["conditions_form"].as_str().unwrap_or("replay").to_string();
    let (db, g) = build_memory(&spec).unwrap_or_else(|e| engine::machinery_failure(&e));
    println!("replay C17: graph {}", g.listing());
    println!("query: {}", query_json(&q));
    println!("observed: {}", run_search(&db, &q).to_json());
    match check_case(&db, &g, &q, o, d) {
        Err(u) => println!("not judged: {}", u.name()),
        Ok(None) => println!("all clauses hold"),
        Ok(Some(f)) => {
            println!("clause violated: {} ({})", f.clause, f.what);
            println!("expected: {}", f.expected);
            println!("observed: {}", f.observed);
            report.violation(&signature(&form, &f.clause), &f.what, replay_value(&spec, &g, &q, o, d, &form, &f));
        }
    }
    report.set("evaluations", json!(1));
    report.set("distinct_nontrivial", json!(0));
    report.set("rule", json!("replay of one stored case"));
    finish_replay(&report)
}

pub fn run(args: &Args) -> i32 {
    if let Some(p) = &args.replay {
        return replay(args, p);
    }
    let report = Report::new(args, "model_checking");
    let env = |k: &str, d: usize| std::env::var(k).ok().and_then(|s| s.parse().ok()).unwrap_or(d);
    // (node slots, max edges with all assignments, max edges with the condition forms only, removals history length)
    let plans: Vec<(u8, usize, usize, usize)> = match args.tier {
        engine::Tier::Quick => vec![(1, 2, 3, 3), (2, 3, 4, 3), (3, 3, 4, 3)],
        engine::Tier::Thorough => vec![(1, 3, 4, 4), (2, 5, 5, 4), (3, 5, 5, 4), (4, 3, 4, 3)],
    };
    let c = Counters { graphs: AtomicU64::new(0), searches: AtomicU64::new(0), undefined: AtomicU64::new(0), with_path: AtomicU64::new(0), with_choice: AtomicU64::new(0), build_failures: AtomicU64::new(0) };
    let outcomes = DistinctCounter::default();
    let mut bounds = vec![];
    for (n, e_assign, e_forms, hist) in plans {
        let e_assign = env(&format!("VERIF_C17_ASSIGN{n}"), e_assign);
        let e_forms = env(&format!("VERIF_C17_FORMS{n}"), e_forms).max(e_assign);
        bounds.push(json!({"node_slots": n, "all_multigraphs_up_to_edges": e_forms, "all_pass_fail_stop_assignments_up_to_edges": e_assign, "histories_with_removals_up_to_length": hist}));
        // (a) all multigraphs as ordered edge sequences
        let alpha = alphabet(n, 0, false);
        let items = work_items(&alpha, e_forms, 2);
        engine::par_for(items.len(), args.seed, |_w, i| {
            let (prefix, subtree) = &items[i];
            let mut f = |h: &[Op]| explore_graph(&report, &c, &GraphSpec::plain(n, h), h.len() <= e_assign, &outcomes);
            if *subtree { for_each_history(&alpha, prefix, e_forms, &mut f) } else { f(prefix) }
        });
        // (b) histories that contain at least one removal (re-used ids, re-ordered adjacency)
        let alpha = alphabet(n, hist.saturating_sub(1) as u8, true);
        let items = work_items(&alpha, hist, 2);
        engine::par_for(items.len(), args.seed, |_w, i| {
            let (prefix, subtree) = &items[i];
            let mut f = |h: &[Op]| {
                if h.iter().any(|o| !matches!(o, Op::Edge(..))) {
                    explore_graph(&report, &c, &GraphSpec::plain(n, h), true, &outcomes)
                }
            };
            if *subtree { for_each_history(&alpha, prefix, hist, &mut f) } else { f(prefix) }
        });
    }
    if c.build_failures.load(Ordering::SeqCst) > 0 {
        engine::machinery_failure("graphs could not be built through the public API");
    }
    // (c) route graphs (both tiers)
    let routes = route_specs(args.tier == engine::Tier::Thorough);
    let rc = RouteCounters::default();
    let stop_limit = env("VERIF_C17_ROUTE_STOP", args.tier.pick(9, 11));
    engine::par_for(routes.len(), args.seed, |_w, i| explore_routes(&report, &rc, &routes[i].0, &routes[i].1, stop_limit));
    {
        let spec = GraphSpec::plain(3, &[Op::Edge(0, 1), Op::Edge(1, 2), Op::Edge(0, 2)]);
        let (db, g) = build_memory(&spec).unwrap();
        let q = path_query(g.slots[0], g.slots[2], assignment_conditions(&[g.slots[0], g.slots[1], g.slots[2], g.edges[0].id, g.edges[1].id], &[]));
        report.sample(json!({"graph": g.listing(), "query": query_json(&q), "result": run_search(&db, &q).to_json(), "note": "the direct edge fails the conditions (cost 2 + 1), the detour passes (cost 4): the direct path is cheaper"}));
    }
    report.set("evaluations", json!(c.searches.load(Ordering::SeqCst) + rc.searches.load(Ordering::SeqCst)));
    report.set("route_graphs", json!(rc.graphs.load(Ordering::SeqCst)));
    report.set("route_graph_searches", json!(rc.searches.load(Ordering::SeqCst)));
    report.set("route_graph_pass_fail_assignments", json!(rc.pass_fail.load(Ordering::SeqCst)));
    report.set("route_graph_assignments_with_a_stop", json!(rc.pass_fail_stop.load(Ordering::SeqCst)));
    report.set("route_graph_stop_assignments_up_to_inner_elements", json!(stop_limit));
    report.set("route_graph_cases_where_every_cheapest_path_has_more_elements_than_the_shortest_usable_path", json!(rc.cheapest_is_not_shortest.load(Ordering::SeqCst)));
    report.set("route_graph_cases_without_usable_path", json!(rc.no_usable_path.load(Ordering::SeqCst)));
    report.set("route_graph_family", json!("origin and destination joined by 2..3 internally disjoint routes of 1..3 edges each (36 shapes, up to 8 nodes), alone and with one extra edge for every ordered pair of nodes incl. loops (quick tier: the extra edge only on the 9 two-route shapes); endpoints pass; every pass/fail assignment of the inner elements, and every pass/fail/stop assignment when there are at most the stated number of inner elements"));
    report.set("distinct_nontrivial", json!(outcomes.len()));
    report.set("rule", json!("every multigraph as ordered edge sequence up to the stated number of edges, and every history with removals up to the stated length; for each: endpoint pairs = all ordered pairs of nodes incl. equal + an edge as origin/destination + missing ids; condition sets = 10 fixed forms, and (up to the stated size) every assignment of pass/fail/stop to the elements realised as `ids(P) and not_beyond ids(S)`; one evaluation = one path search on the real Db compared with brute force over all simple paths. distinct_nontrivial = distinct (graph structure, origin, destination) that have at least one path"));
    report.set("exhaustive", json!(true));
    report.set("bounds", json!(bounds));
    report.set("graphs", json!(c.graphs.load(Ordering::SeqCst)));
    report.set("pairs_with_a_path", json!(c.with_path.load(Ordering::SeqCst)));
    report.set("pairs_with_several_paths", json!(c.with_choice.load(Ordering::SeqCst)));
    report.set("cases_not_judged_documented_ambiguous", json!(c.undefined.load(Ordering::SeqCst)));
    report.set("excluded", json!(["distance conditions in path searches: the statement does not mention them and the documentation does not define the distance at which an element that lies on several candidate paths is evaluated ('Elements will never be examined twice during any search' even allows evaluating it once, at whatever distance it is met first), nor when a distance condition stops (= makes the element unusable); a conformant implementation can legitimately differ, so no expectation is demanded", "beyond whose condition fails at the origin: both readings accepted (the search stops at the origin => no path / beyond() does not block at the origin)"]));
    report.set("condition_forms", json!(condition_forms().iter().map(|f| f.0).collect::<Vec<_>>()));
    report.set("violating_cases", json!(report.violation_count()));
    report.assume("a missing id as endpoint may be answered with an error (documented) or an empty result");
    report.assume("the cost of the origin is the same on every path and does not take part in the comparison");
    report.finish()
}
