//! C14 - traversals without conditions return exactly the reachable elements
//! in documented order. Exhaustive over all histories (edge insertions, edge
//! removals, node renewals) up to a length on up to N node slots, every
//! origin (node or edge), BFS/DFS, forward/reverse. See NOTES.md.

use crate::common::*;
use crate::refeval::*;
use agdb::{CountComparison, DbImpl, QueryCondition, QueryConditionData, QueryConditionLogic, QueryConditionModifier, SearchQuery, StorageData};
use engine::{Args, DistinctCounter, Report, Scratch};
use serde_json::{Value, json};
use std::collections::BTreeSet;
use std::sync::atomic::{AtomicU64, Ordering};

pub struct Failure {
    pub clause: String,
    pub what: String,
    pub query: SearchQuery,
    pub expected: Value,
    pub observed: Value,
}

fn distance_gt(k: u64) -> Vec<QueryCondition> {
    vec![QueryCondition { logic: QueryConditionLogic::And, modifier: QueryConditionModifier::None, data: QueryConditionData::Distance(CountComparison::GreaterThan(k)) }]
}

/// All clauses of the statement for one (graph, origin, kind). Returns the
/// first failing clause in a fixed order, and the number of searches run.
pub fn check_case<S: StorageData>(db: &DbImpl<S>, g: &RefGraph, kind: Kind, origin: i64) -> (Option<Failure>, u64) {
    let mut searches = 1;
    let q = kind.query(origin);
    let reference = ref_traverse(g, origin, kind, &[], PLAIN_READING).expect("no conditions: always defined");
    let ref_ids: Vec<i64> = reference.iter().map(|v| v.id).collect();
    let dist = |id: i64| reference.iter().find(|v| v.id == id).map(|v| v.distance);
    let fail = |clause: &str, what: String, q: &SearchQuery, expected: Value, observed: Value| Some(Failure { clause: clause.to_string(), what, query: q.clone(), expected, observed });

    let out = run_search(db, &q);
    let ids = match &out {
        Outcome::Ids(ids) => ids.clone(),
        other => {
            return (fail(&other.failure_clause().unwrap(), "search failed".into(), &q, json!({"reachable": ref_ids}), other.to_json()), searches);
        }
    };
    if ids.first() != Some(&origin) {
        return (fail("origin-not-first", format!("first element is {:?}, origin is {origin}", ids.first()), &q, json!({"first": origin}), json!(ids)), searches);
    }
    let set: BTreeSet<i64> = ids.iter().copied().collect();
    if set.len() != ids.len() {
        return (fail("duplicate", "an element is returned more than once".into(), &q, json!({"reachable": ref_ids}), json!(ids)), searches);
    }
    let ref_set: BTreeSet<i64> = ref_ids.iter().copied().collect();
    let extra: Vec<i64> = ids.iter().copied().filter(|i| !ref_set.contains(i)).collect();
    if !extra.is_empty() {
        // narrow class for the known defect: everything extra is reachable
        // from the node the origin edge hangs on (its siblings and beyond)
        let mut class = "other";
        if let Some(e) = g.edge(origin) {
            let hub = if kind.is_reverse() { e.to } else { e.from };
            let from_hub: BTreeSet<i64> = ref_traverse(g, hub, kind, &[], PLAIN_READING).unwrap().iter().map(|v| v.id).collect();
            if extra.iter().all(|x| from_hub.contains(x)) && extra.iter().any(|x| *x < 0 && g.edge(*x).map(|s| if kind.is_reverse() { s.to } else { s.from }) == Some(hub)) {
                class = "siblings-of-origin-edge";
            }
        }
        return (
            fail(&format!("extra-unreachable:{class}"), format!("returned {extra:?} which cannot be reached from {origin}"), &q, json!({"reachable_set": ref_ids}), json!(ids)),
            searches,
        );
    }
    let missing: Vec<i64> = ref_ids.iter().copied().filter(|i| !set.contains(i)).collect();
    if !missing.is_empty() {
        return (fail("missing-reachable", format!("reachable {missing:?} not returned"), &q, json!({"reachable_set": ref_ids}), json!(ids)), searches);
    }
    if kind.is_dfs() {
        // newest-first + "follows each branch to its end" + never twice => unique pre-order
        if ids != ref_ids {
            return (fail("dfs-preorder", "not the depth-first pre-order with a node's edges newest first".into(), &q, json!(ref_ids), json!(ids)), searches);
        }
    } else {
        let ds: Vec<u64> = ids.iter().map(|i| dist(*i).unwrap()).collect();
        if ds.windows(2).any(|w| w[0] > w[1]) {
            return (fail("bfs-distance-order", "distances decrease along the result".into(), &q, json!({"distances": reference.iter().map(|v| json!([v.id, v.distance])).collect::<Vec<_>>()}), json!(ids)), searches);
        }
        // each node's edges (in the examined direction) newest -> oldest; the origin is exempt (it is first)
        for n in ids.iter().copied().filter(|i| *i > 0) {
            let want: Vec<i64> = if kind.is_reverse() { g.in_edges(n) } else { g.out_edges(n) }.iter().map(|e| e.id).filter(|e| *e != origin).collect();
            let got: Vec<i64> = ids.iter().copied().filter(|i| want.contains(i)).collect();
            if got != want {
                return (fail("bfs-edge-order", format!("edges of node {n} are not examined newest to oldest"), &q, json!({"node": n, "edges_newest_first": want}), json!(ids)), searches);
            }
        }
    }
    // distance counts every node and edge step: `distance > k` must select exactly the elements deeper than k
    let max_d = reference.iter().map(|v| v.distance).max().unwrap_or(0);
    for k in 0..=max_d {
        let mut qd = q.clone();
        qd.conditions = distance_gt(k);
        searches += 1;
        let want: BTreeSet<i64> = reference.iter().filter(|v| v.distance > k).map(|v| v.id).collect();
        match run_search(db, &qd) {
            Outcome::Ids(got) => {
                let got_set: BTreeSet<i64> = got.iter().copied().collect();
                if got_set != want || got_set.len() != got.len() {
                    return (
                        fail("distance-count", format!("`distance > {k}` does not select the elements more than {k} steps away"), &qd, json!({"distances": reference.iter().map(|v| json!([v.id, v.distance])).collect::<Vec<_>>(), "selected": want}), json!(got)),
                        searches,
                    );
                }
            }
            other => return (fail(&other.failure_clause().unwrap(), "search with a distance condition failed".into(), &qd, json!(want), other.to_json()), searches),
        }
    }
    (None, searches)
}

fn signature(kind: Kind, g: &RefGraph, origin: i64, clause: &str) -> String {
    format!("kind={}|origin={}|clause={}", kind.name(), g.kind(origin), clause)
}

fn replay_value(spec: &GraphSpec, g: &RefGraph, kind: Kind, origin: i64, f: &Failure, backend: &str) -> Value {
    json!({
        "check": "C14", "backend": backend,
        "graph": spec.to_json(), "graph_listing": g.listing(),
        "kind": kind.name(), "origin": origin, "query": query_json(&f.query),
        "clause": f.clause, "expected": f.expected, "observed": f.observed,
    })
}

struct Counters {
    histories: AtomicU64,
    searches: AtomicU64,
    cases: AtomicU64,
    build_failures: AtomicU64,
}

fn explore_history<S: StorageData>(report: &Report, c: &Counters, db: &mut DbImpl<S>, spec: &GraphSpec, backend: &str, graphs: Option<&DistinctCounter>, results: Option<&DistinctCounter>) -> Option<RefGraph> {
    let g = match build(db, spec) {
        Ok(g) => g,
        Err(e) if e.starts_with(LINKS_PREFIX) => {
            // the links every traversal starts from are wrong: reported as a violation of C14, the database is not searched
            c.histories.fetch_add(1, Ordering::Relaxed);
            report.violation(
                "kind=all|origin=node-or-edge|clause=graph-links-inconsistent",
                &e,
                json!({"check": "C14", "backend": backend, "graph": spec.to_json(), "clause": "graph-links-inconsistent", "expected": "every node's first outgoing/incoming edge is one of its edges (0 if none), every edge joins the nodes it was inserted between", "observed": e}),
            );
            return None;
        }
        Err(e) => {
            if c.build_failures.fetch_add(1, Ordering::SeqCst) == 0 {
                eprintln!("build failed for {}: {e}", spec.to_json());
            }
            return None;
        }
    };
    c.histories.fetch_add(1, Ordering::Relaxed);
    if let Some(gr) = graphs {
        let mut key = g.canonical();
        for id in g.elements() {
            key.extend_from_slice(&id.to_le_bytes());
        }
        gr.insert(&key);
    }
    let mut n_search = 0;
    let mut n_cases = 0;
    for origin in g.elements() {
        for kind in KINDS {
            let (f, s) = check_case(db, &g, kind, origin);
            n_search += s;
            n_cases += 1;
            if let Some(f) = f {
                // a failing case must reproduce identically before it is reported
                let (again, _) = check_case(db, &g, kind, origin);
                if again.map(|a| a.clause) != Some(f.clause.clone()) {
                    c.build_failures.fetch_add(1, Ordering::SeqCst);
                    eprintln!("failing case did not reproduce: {}", spec.to_json());
                }
                report.violation(&signature(kind, &g, origin, &f.clause), &f.what, replay_value(spec, &g, kind, origin, &f, backend));
            }
        }
    }
    if let Some(rs) = results {
        // non-trivial graph: from some origin at least 3 elements are reachable
        if g.elements().into_iter().any(|o| ref_traverse(&g, o, Kind::Dfs, &[], PLAIN_READING).unwrap().len() >= 3) {
            rs.insert(&g.canonical());
        }
    }
    c.searches.fetch_add(n_search, Ordering::Relaxed);
    c.cases.fetch_add(n_cases, Ordering::Relaxed);
    Some(g)
}

pub fn replay(args: &Args, path: &str) -> i32 {
    let report = Report::new(args, "model_checking");
    let r = load_replay(path);
    let spec = GraphSpec::from_json(&r["graph"]).unwrap_or_else(|e| engine::machinery_failure(&e));
    let kind = KINDS.into_iter().find(|k| Some(k.name()) == r["kind"].as_str()).unwrap_or(Kind::Bfs);
    let origin = r["origin"].as_i64().unwrap_or(0);
    let (db, g) = match build_memory(&spec) {
        Ok(x) => x,
        Err(e) if e.starts_with(LINKS_PREFIX) => {
            println!("replay C14: history {}", spec.to_json()["ops"]);
            println!("clause violated: graph-links-inconsistent\nexpected: every node's first outgoing/incoming edge is one of its edges (0 if none)\nobserved: {e}");
            report.violation("kind=all|origin=node-or-edge|clause=graph-links-inconsistent", &e, r.clone());
            report.set("evaluations", json!(1));
            report.set("distinct_nontrivial", json!(0));
            report.set("rule", json!("replay of one stored case"));
            return finish_replay(&report);
        }
        Err(e) => engine::machinery_failure(&e),
    };
    if r["clause"].as_str() == Some("graph-links-inconsistent") {
        println!("replay C14: history {}: the links of graph {} are consistent; all clauses hold", spec.to_json()["ops"], g.listing());
        report.set("evaluations", json!(1));
        report.set("distinct_nontrivial", json!(0));
        report.set("rule", json!("replay of one stored case"));
        return finish_replay(&report);
    }
    println!("replay C14: graph {} kind {} origin {origin}", g.listing(), kind.name());
    let (f, _) = check_case(&db, &g, kind, origin);
    match f {
        Some(f) => {
            println!("query: {}", query_json(&f.query));
            println!("clause violated: {} ({})", f.clause, f.what);
            println!("expected: {}", f.expected);
            println!("observed: {}", f.observed);
            report.violation(&signature(kind, &g, origin, &f.clause), &f.what, replay_value(&spec, &g, kind, origin, &f, "memory"));
        }
        None => {
            let out = run_search(&db, &kind.query(origin));
            println!("observed: {}", out.to_json());
            println!("all clauses hold");
        }
    }
    report.set("evaluations", json!(1));
    report.set("distinct_nontrivial", json!(0));
    report.set("rule", json!("replay of one stored case"));
    finish_replay(&report)
}

pub fn run(args: &Args) -> i32 {
    if let Some(p) = &args.replay {
        return replay(args, p);
    }
    let report = Report::new(args, "model_checking");
    let env = |k: &str, d: usize| std::env::var(k).ok().and_then(|s| s.parse().ok()).unwrap_or(d);
    // bounds
    let max_nodes = env("VERIF_C14_NODES", 4) as u8;
    let depth_for = |n: u8| -> usize {
        let d = match n {
            1 => args.tier.pick(5, 7),
            2 => args.tier.pick(5, 7),
            3 => args.tier.pick(5, 6),
            _ => args.tier.pick(3, 5),
        };
        env(&format!("VERIF_C14_DEPTH{n}"), d)
    };
    let file_depth = env("VERIF_C14_FILE_DEPTH", args.tier.pick(0, 3));

    let counters = Counters { histories: AtomicU64::new(0), searches: AtomicU64::new(0), cases: AtomicU64::new(0), build_failures: AtomicU64::new(0) };
    let graphs = DistinctCounter::default();
    let nontrivial = DistinctCounter::default();
    let mut bounds = vec![];
    for n in 1..=max_nodes {
        let depth = depth_for(n);
        let alpha = alphabet(n, depth.saturating_sub(1) as u8, true);
        bounds.push(json!({"node_slots": n, "max_history_length": depth, "alphabet": alpha.iter().map(|o| o.text()).collect::<Vec<_>>()}));
        let items = work_items(&alpha, depth, 2);
        engine::par_for(items.len(), args.seed, |_w, i| {
            let (prefix, subtree) = &items[i];
            let mut f = |h: &[Op]| {
                let spec = GraphSpec::plain(n, h);
                let mut db = agdb::DbMemory::new(MEMORY_DB_NAME).unwrap();
                explore_history(&report, &counters, &mut db, &spec, "memory", Some(&graphs), Some(&nontrivial));
            };
            if *subtree { for_each_history(&alpha, prefix, depth, &mut f) } else { f(prefix) }
        });
    }
    // (b) id-reuse histories: nodes are also added and dropped, so that an id freed by an EDGE is
    // taken by a NODE and vice versa (part (a) only re-uses node ids for nodes and edge ids for edges).
    // Only histories that contain AddNode or DropNode are run here, the others are part of (a).
    let reuse_histories = AtomicU64::new(0);
    for n in 1..=3u8 {
        let depth = env(&format!("VERIF_C14_REUSE_DEPTH{n}"), match n {
            1 => args.tier.pick(6, 7),
            2 => args.tier.pick(5, 6),
            _ => args.tier.pick(4, 5),
        });
        let alpha = reuse_alphabet(n, depth.saturating_sub(1) as u8);
        bounds.push(json!({"family": "id-reuse histories (contain AddNode N or DropNode DN a)", "initial_node_slots": n, "max_node_slots": n + 1, "max_history_length": depth, "alphabet": alpha.iter().map(|o| o.text()).collect::<Vec<_>>()}));
        let items = work_items_in(&alpha, n, n + 1, depth, 2);
        engine::par_for(items.len(), args.seed, |_w, i| {
            let (prefix, subtree) = &items[i];
            let mut f = |h: &[Op]| {
                if !h.iter().any(|o| matches!(o, Op::AddNode | Op::DropNode(_))) {
                    return;
                }
                reuse_histories.fetch_add(1, Ordering::Relaxed);
                let spec = GraphSpec::plain(n, h);
                if std::env::var("VERIF_C14_TRACE").is_ok() {
                    eprintln!("history {} {}", n, spec.to_json()["ops"]);
                }
                let mut db = agdb::DbMemory::new(MEMORY_DB_NAME).unwrap();
                explore_history(&report, &counters, &mut db, &spec, "memory", Some(&graphs), Some(&nontrivial));
            };
            if *subtree { for_each_history_in(&alpha, n, n + 1, prefix, depth, &mut f) } else { f(prefix) }
        });
    }
    // file-backed variant on a sub-space (thorough): same histories, DbFile, results must also satisfy the clauses
    let mut file_histories = 0u64;
    if file_depth > 0 {
        let n = 3u8.min(max_nodes);
        let alpha = alphabet(n, file_depth.saturating_sub(1) as u8, true);
        let items = work_items(&alpha, file_depth, 2);
        let before = counters.histories.load(Ordering::SeqCst);
        engine::par_for(items.len(), args.seed, |_w, i| {
            let scratch = Scratch::new("c14");
            let (prefix, subtree) = &items[i];
            let mut k = 0;
            let mut f = |h: &[Op]| {
                k += 1;
                let spec = GraphSpec::plain(n, h);
                let path = scratch.path(&format!("g{k}.agdb"));
                if let Ok(mut db) = agdb::DbFile::new(&path) {
                    explore_history(&report, &counters, &mut db, &spec, "file", None, None);
                } else {
                    counters.build_failures.fetch_add(1, Ordering::SeqCst);
                }
                scratch.clear();
            };
            if *subtree { for_each_history(&alpha, prefix, file_depth, &mut f) } else { f(prefix) }
        });
        file_histories = counters.histories.load(Ordering::SeqCst) - before;
        bounds.push(json!({"backend": "DbFile", "node_slots": n, "max_history_length": file_depth}));
    }
    if counters.build_failures.load(Ordering::SeqCst) > 0 {
        engine::machinery_failure(&format!("{} graphs could not be built through the public API", counters.build_failures.load(Ordering::SeqCst)));
    }
    // samples
    for ops in [vec![Op::Edge(0, 1), Op::Edge(0, 2)], vec![Op::Edge(0, 1), Op::Edge(1, 0), Op::RemoveEdge(0), Op::Edge(0, 0)]] {
        let spec = GraphSpec::plain(3, &ops);
        if let Ok((db, g)) = build_memory(&spec) {
            let origin = g.elements()[0];
            let o = run_search(&db, &Kind::Dfs.query(origin));
            report.sample(json!({"history": spec.to_json()["ops"], "graph": g.listing(), "query": "search().depth_first().from(origin)", "origin": origin, "result": o.to_json()}));
        }
    }
    let searches = counters.searches.load(Ordering::SeqCst);
    report.set("evaluations", json!(searches));
    report.set("distinct_nontrivial", json!(nontrivial.len()));
    report.set(
        "rule",
        json!("every valid history (ordered sequence of edge insertions E a-b, removals of the j-th oldest live edge XE j, node renewals XN a) up to the stated length on each number of node slots, plus every valid id-reuse history (the same operations and AddNode N, DropNode DN a on one more slot) that adds or drops a node; for each resulting graph every live node and edge as origin x {bfs,dfs} x {from,to}; one evaluation = one search executed on the real Db (plain search plus one `distance > k` search per level). distinct_nontrivial = distinct graph structures (node slots + live edges in connection order) in which at least 3 elements are reachable from some origin"),
    );
    report.set("exhaustive", json!(true));
    report.set("bounds", json!(bounds));
    report.set("histories", json!(counters.histories.load(Ordering::SeqCst)));
    report.set("histories_on_file_backend", json!(file_histories));
    report.set("id_reuse_histories", json!(reuse_histories.load(Ordering::SeqCst)));
    report.set("distinct_graphs_with_ids", json!(graphs.len()));
    report.set("origin_kind_cases", json!(counters.cases.load(Ordering::SeqCst)));
    report.set("violating_cases", json!(report.violation_count()));
    report.assume("the reference graph learns element ids from the insert results and only constrains sign and freshness");
    report.assume("'most recently connected' = insertion order of the edges that currently exist; removal of other edges does not reorder the remaining ones");
    report.assume("within one breadth-first level only the relative order of the edges of one node is constrained (newest first); the order of nodes within a level is not");
    report.finish()
}
