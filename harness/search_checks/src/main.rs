//! Checks of the agdb search queries (C14-C17).
//! `search_checks <C14|C15|C16|C17> [--tier quick|thorough] [--replay file]`
mod c14;
mod c15;
mod c16;
mod c17;
mod common;
mod refeval;

fn main() {
    let args = engine::parse_args();
    engine::install_quiet_panic_hook();
    let code = match args.property.as_str() {
        "C14" => c14::run(&args),
        "C15" => c15::run(&args),
        "C16" => c16::run(&args),
        "C17" => c17::run(&args),
        other => engine::machinery_failure(&format!("search_checks: unknown property {other}")),
    };
    std::process::exit(code);
}
