//! Shared by C14-C17: graph specifications (histories of public-API
//! operations), the reference graph that mirrors them, building a real
//! database from a specification, running a search on the real code with
//! panic containment, JSON forms for replay files.

use agdb::{DbId, DbImpl, DbKeyValue, DbValue, QueryBuilder, QueryId, SearchQuery, StorageData};
use engine::{Panicked, catch};
use serde_json::{Value, json};
use std::collections::BTreeMap;

// ---------------------------------------------------------------------------
// graph specification = history of operations on `nodes` node slots

#[derive(Clone, Copy, Debug, PartialEq, Eq, Hash)]
pub enum Op {
    /// insert an edge from the node in slot a to the node in slot b
    Edge(u8, u8),
    /// remove the j-th oldest live edge
    RemoveEdge(u8),
    /// remove the node in the slot (and with it all its edges), insert a new
    /// node into the slot (usually re-using the id)
    RenewNode(u8),
    /// insert a new node into a new slot (it takes the most recently freed id,
    /// which may be the id of a removed EDGE)
    AddNode,
    /// remove the node in the slot (and with it all its edges); the slot stays
    /// empty, its id is free for the next inserted node OR edge
    DropNode(u8),
}

impl Op {
    pub fn text(&self) -> String {
        match self {
            Op::Edge(a, b) => format!("E{a}-{b}"),
            Op::RemoveEdge(j) => format!("XE{j}"),
            Op::RenewNode(a) => format!("XN{a}"),
            Op::AddNode => "N".to_string(),
            Op::DropNode(a) => format!("DN{a}"),
        }
    }
    pub fn parse(s: &str) -> Option<Op> {
        if let Some(r) = s.strip_prefix("XE") {
            return r.parse().ok().map(Op::RemoveEdge);
        }
        if let Some(r) = s.strip_prefix("XN") {
            return r.parse().ok().map(Op::RenewNode);
        }
        if let Some(r) = s.strip_prefix("DN") {
            return r.parse().ok().map(Op::DropNode);
        }
        if s == "N" {
            return Some(Op::AddNode);
        }
        let r = s.strip_prefix('E')?;
        let (a, b) = r.split_once('-')?;
        Some(Op::Edge(a.parse().ok()?, b.parse().ok()?))
    }
}

/// element reference independent of the ids the database hands out
#[derive(Clone, Copy, Debug, PartialEq, Eq, Hash, PartialOrd, Ord)]
pub enum ElemRef {
    /// node in slot
    Node(u8),
    /// edge created by the k-th `Op::Edge` of the history (0-based)
    Edge(u8),
}

impl ElemRef {
    pub fn text(&self) -> String {
        match self {
            ElemRef::Node(s) => format!("N{s}"),
            ElemRef::Edge(k) => format!("E{k}"),
        }
    }
    pub fn parse(s: &str) -> Option<ElemRef> {
        if let Some(r) = s.strip_prefix('N') {
            return r.parse().ok().map(ElemRef::Node);
        }
        s.strip_prefix('E')?.parse().ok().map(ElemRef::Edge)
    }
}

#[derive(Clone, Debug, Default)]
pub struct GraphSpec {
    pub nodes: u8,
    pub ops: Vec<Op>,
    /// properties set after the history on elements that are still live
    pub props: Vec<(ElemRef, DbValue, DbValue)>,
    pub aliases: Vec<(u8, String)>,
    /// further nodes (slots nodes, nodes+1, ...), each inserted by ONE
    /// `insert().nodes().values([[...]])` with exactly this key-value list -
    /// the list may repeat a key (a new element is written without replacing)
    pub valued_nodes: Vec<Vec<(DbValue, DbValue)>>,
}

impl GraphSpec {
    pub fn plain(nodes: u8, ops: &[Op]) -> Self {
        GraphSpec { nodes, ops: ops.to_vec(), props: vec![], aliases: vec![], valued_nodes: vec![] }
    }

    pub fn to_json(&self) -> Value {
        json!({
            "nodes": self.nodes,
            "ops": self.ops.iter().map(|o| o.text()).collect::<Vec<_>>(),
            "props": self.props.iter().map(|(e, k, v)| json!([e.text(), k, v])).collect::<Vec<_>>(),
            "aliases": self.aliases.iter().map(|(s, a)| json!([s, a])).collect::<Vec<_>>(),
            "valued_nodes": self.valued_nodes.iter().map(|kv| kv.iter().map(|(k, v)| json!([k, v])).collect::<Vec<_>>()).collect::<Vec<_>>(),
        })
    }

    pub fn from_json(v: &Value) -> Result<Self, String> {
        let nodes = v["nodes"].as_u64().ok_or("graph.nodes")? as u8;
        let mut ops = vec![];
        for o in v["ops"].as_array().ok_or("graph.ops")? {
            ops.push(Op::parse(o.as_str().ok_or("graph.ops[]")?).ok_or("bad op")?);
        }
        let mut props = vec![];
        for p in v["props"].as_array().cloned().unwrap_or_default() {
            let e = ElemRef::parse(p[0].as_str().ok_or("prop elem")?).ok_or("bad elem ref")?;
            let k: DbValue = serde_json::from_value(p[1].clone()).map_err(|e| e.to_string())?;
            let val: DbValue = serde_json::from_value(p[2].clone()).map_err(|e| e.to_string())?;
            props.push((e, k, val));
        }
        let mut aliases = vec![];
        for a in v["aliases"].as_array().cloned().unwrap_or_default() {
            aliases.push((a[0].as_u64().ok_or("alias slot")? as u8, a[1].as_str().ok_or("alias")?.to_string()));
        }
        let mut valued_nodes = vec![];
        for n in v["valued_nodes"].as_array().cloned().unwrap_or_default() {
            let mut kvs = vec![];
            for kv in n.as_array().cloned().unwrap_or_default() {
                let k: DbValue = serde_json::from_value(kv[0].clone()).map_err(|e| e.to_string())?;
                let val: DbValue = serde_json::from_value(kv[1].clone()).map_err(|e| e.to_string())?;
                kvs.push((k, val));
            }
            valued_nodes.push(kvs);
        }
        Ok(GraphSpec { nodes, ops, props, aliases, valued_nodes })
    }
}

// ---------------------------------------------------------------------------
// reference graph

#[derive(Clone, Debug)]
pub struct RefEdge {
    pub id: i64,
    pub from: i64,
    pub to: i64,
    /// index of the creating `Op::Edge` among the Edge ops of the history
    pub nth: u8,
}

#[derive(Clone, Debug, Default)]
pub struct RefGraph {
    /// slot -> node id (0 = the slot is empty: node dropped)
    pub slots: Vec<i64>,
    /// live edges, oldest first (insertion order = "connection" order)
    pub edges: Vec<RefEdge>,
    pub props: BTreeMap<i64, Vec<(DbValue, DbValue)>>,
    pub aliases: BTreeMap<String, i64>,
}

impl RefGraph {
    pub fn is_node(&self, id: i64) -> bool {
        id > 0 && self.slots.contains(&id)
    }
    pub fn edge(&self, id: i64) -> Option<&RefEdge> {
        self.edges.iter().find(|e| e.id == id)
    }
    pub fn exists(&self, id: i64) -> bool {
        self.is_node(id) || self.edge(id).is_some()
    }
    /// outgoing edges of a node, most recently connected first
    pub fn out_edges(&self, node: i64) -> Vec<&RefEdge> {
        self.edges.iter().rev().filter(|e| e.from == node).collect()
    }
    /// incoming edges of a node, most recently connected first
    pub fn in_edges(&self, node: i64) -> Vec<&RefEdge> {
        self.edges.iter().rev().filter(|e| e.to == node).collect()
    }
    /// every element id: nodes by slot, then edges oldest first
    pub fn elements(&self) -> Vec<i64> {
        let mut v: Vec<i64> = self.slots.iter().copied().filter(|s| *s != 0).collect();
        v.extend(self.edges.iter().map(|e| e.id));
        v
    }
    pub fn value(&self, id: i64, key: &DbValue) -> Option<&DbValue> {
        self.props.get(&id).and_then(|kv| kv.iter().find(|(k, _)| k == key).map(|(_, v)| v))
    }
    pub fn resolve(&self, r: ElemRef) -> Option<i64> {
        match r {
            ElemRef::Node(s) => self.slots.get(s as usize).copied(),
            ElemRef::Edge(k) => self.edges.iter().find(|e| e.nth == k).map(|e| e.id),
        }
    }
    pub fn kind(&self, id: i64) -> &'static str {
        if id > 0 { "node" } else { "edge" }
    }
    /// structure only, independent of the ids handed out: used to count
    /// distinct graphs. Adjacency order is part of the structure.
    pub fn canonical(&self) -> Vec<u8> {
        let mut out = vec![self.slots.len() as u8];
        out.extend(self.slots.iter().map(|s| (*s != 0) as u8));
        let slot_of = |id: i64| self.slots.iter().position(|s| *s == id).unwrap_or(255) as u8;
        for e in &self.edges {
            out.push(slot_of(e.from));
            out.push(slot_of(e.to));
        }
        out
    }
    /// readable listing for replay files
    pub fn listing(&self) -> Value {
        json!({
            "nodes": self.slots.iter().filter(|s| **s != 0).collect::<Vec<_>>(),
            "edges_oldest_first": self.edges.iter().map(|e| json!({"id": e.id, "from": e.from, "to": e.to})).collect::<Vec<_>>(),
            "props": self.props.iter().map(|(id, kv)| json!({"id": id, "values": kv.iter().map(|(k, v)| json!([k.to_string(), format!("{v:?}")])).collect::<Vec<_>>()})).collect::<Vec<_>>(),
            "aliases": self.aliases,
        })
    }
}

// ---------------------------------------------------------------------------
// building the real database through the public API

fn one_id(r: Result<agdb::QueryResult, agdb::DbError>, what: &str) -> Result<i64, String> {
    let r = r.map_err(|e| format!("{what}: {}", e.description))?;
    if r.elements.len() != 1 {
        return Err(format!("{what}: returned {} elements", r.elements.len()));
    }
    Ok(r.elements[0].id.0)
}

fn build_inner<S: StorageData>(db: &mut DbImpl<S>, spec: &GraphSpec) -> Result<RefGraph, String> {
    let mut g = RefGraph::default();
    for _ in 0..spec.nodes {
        let id = one_id(db.exec_mut(QueryBuilder::insert().nodes().count(1).query()), "insert node")?;
        if id <= 0 || g.slots.contains(&id) {
            return Err(format!("insert node returned id {id} (live: {:?})", g.slots));
        }
        g.slots.push(id);
    }
    for kvs in &spec.valued_nodes {
        let values: Vec<DbKeyValue> = kvs.iter().map(|(k, v)| DbKeyValue { key: k.clone(), value: v.clone() }).collect();
        let id = one_id(db.exec_mut(QueryBuilder::insert().nodes().values(vec![values]).query()), "insert node with values")?;
        if id <= 0 || g.slots.contains(&id) {
            return Err(format!("insert node returned id {id} (live: {:?})", g.slots));
        }
        g.slots.push(id);
        g.props.insert(id, kvs.clone());
    }
    let mut nth = 0u8;
    for (nth_op, op) in spec.ops.iter().enumerate() {
        match *op {
            Op::Edge(a, b) => {
                let (from, to) = (g.slots[a as usize], g.slots[b as usize]);
                if from == 0 || to == 0 {
                    return Err("invalid history: edge at an empty slot".into());
                }
                let id = one_id(db.exec_mut(QueryBuilder::insert().edges().from(from).to(to).query()), "insert edge")?;
                if id >= 0 || g.edge(id).is_some() {
                    return Err(format!("insert edge returned id {id}"));
                }
                g.edges.push(RefEdge { id, from, to, nth });
                nth += 1;
            }
            Op::RemoveEdge(j) => {
                let j = j as usize;
                if j >= g.edges.len() {
                    return Err("invalid history: RemoveEdge beyond the live edges".into());
                }
                let id = g.edges[j].id;
                db.exec_mut(QueryBuilder::remove().ids(id).query()).map_err(|e| format!("remove edge: {}", e.description))?;
                g.edges.remove(j);
            }
            Op::AddNode => {
                let id = one_id(db.exec_mut(QueryBuilder::insert().nodes().count(1).query()), "insert node")?;
                if id <= 0 || g.slots.contains(&id) {
                    return Err(format!("insert node returned id {id} (live: {:?})", g.slots));
                }
                g.slots.push(id);
            }
            Op::DropNode(s) => {
                let old = *g.slots.get(s as usize).filter(|x| **x != 0).ok_or("invalid history: DropNode of an empty slot")?;
                db.exec_mut(QueryBuilder::remove().ids(old).query()).map_err(|e| format!("remove node: {}", e.description))?;
                g.edges.retain(|e| e.from != old && e.to != old);
                g.slots[s as usize] = 0;
            }
            Op::RenewNode(s) => {
                let old = g.slots[s as usize];
                db.exec_mut(QueryBuilder::remove().ids(old).query()).map_err(|e| format!("remove node: {}", e.description))?;
                g.edges.retain(|e| e.from != old && e.to != old);
                g.slots[s as usize] = 0;
                let id = one_id(db.exec_mut(QueryBuilder::insert().nodes().count(1).query()), "insert node")?;
                if id <= 0 || g.slots.contains(&id) {
                    return Err(format!("insert node returned id {id} (live: {:?})", g.slots));
                }
                g.slots[s as usize] = id;
            }
        }
        check_links(db, &g).map_err(|e| format!("{LINKS_PREFIX} after {} (operation {}): {e}", op.text(), nth_op + 1))?;
    }
    for (s, alias) in &spec.aliases {
        let id = g.slots[*s as usize];
        db.exec_mut(QueryBuilder::insert().aliases(alias.as_str()).ids(id).query()).map_err(|e| format!("insert alias: {}", e.description))?;
        g.aliases.insert(alias.clone(), id);
    }
    for (r, k, v) in &spec.props {
        let id = g.resolve(*r).ok_or_else(|| format!("invalid spec: property on missing element {}", r.text()))?;
        db.exec_mut(QueryBuilder::insert().values(vec![vec![DbKeyValue { key: k.clone(), value: v.clone() }]]).ids(id).query())
            .map_err(|e| format!("insert values: {}", e.description))?;
        let kv = g.props.entry(id).or_default();
        if let Some(slot) = kv.iter_mut().find(|(kk, _)| kk == k) {
            slot.1 = v.clone();
        } else {
            kv.push((k.clone(), v.clone()));
        }
    }
    Ok(g)
}

pub const LINKS_PREFIX: &str = "graph links inconsistent";

/// After every operation of a history: what the database reports as the ends
/// of every edge and as the FIRST outgoing / incoming edge of every node
/// (`DbElement::from` / `to`, public and documented) must fit the reference
/// graph: an edge's ends are its nodes; a node's first edge is 0 exactly when
/// it has no edge in that direction and otherwise one of ITS live edges. A
/// database that fails this is not operated further (removals and searches
/// walk these links and may not terminate on a corrupt list).
fn check_links<S: StorageData>(db: &DbImpl<S>, g: &RefGraph) -> Result<(), String> {
    let r = db.exec(QueryBuilder::search().elements().query()).map_err(|e| format!("elements search: {}", e.description))?;
    for id in g.elements() {
        let Some(e) = r.elements.iter().find(|e| e.id.0 == id) else {
            return Err(format!("element {id} is not listed by the elements search"));
        };
        if id < 0 {
            let edge = g.edge(id).unwrap();
            if (e.from.0, e.to.0) != (edge.from, edge.to) {
                return Err(format!("edge {id} is reported as {} -> {}, it was inserted as {} -> {}", e.from.0, e.to.0, edge.from, edge.to));
            }
        } else {
            for (dir, head, mine) in [("outgoing", e.from.0, g.out_edges(id)), ("incoming", e.to.0, g.in_edges(id))] {
                let ok = if mine.is_empty() { head == 0 } else { mine.iter().any(|x| x.id == head) };
                if !ok {
                    return Err(format!("node {id}: first {dir} edge is reported as {head}, its {dir} edges are {:?}", mine.iter().map(|x| x.id).collect::<Vec<_>>()));
                }
            }
        }
    }
    Ok(())
}

/// Replays the history on `db`. `Err` = the database could not be brought
/// into the wanted state (not a verdict of C14-C17: machinery failure).
pub fn build<S: StorageData>(db: &mut DbImpl<S>, spec: &GraphSpec) -> Result<RefGraph, String> {
    match catch(|| build_inner(db, spec)) {
        Ok(r) => r,
        Err(p) => Err(format!("panic while building: {} at {}", p.message, p.location)),
    }
}

pub fn build_memory(spec: &GraphSpec) -> Result<(agdb::DbMemory, RefGraph), String> {
    let mut db = agdb::DbMemory::new(MEMORY_DB_NAME).map_err(|e| e.description)?;
    let g = build(&mut db, spec)?;
    Ok((db, g))
}

// ---------------------------------------------------------------------------
// running a search on the real code

#[derive(Debug, Clone)]
pub enum Outcome {
    Ids(Vec<i64>),
    Error(String),
    Panic(Panicked),
}

impl Outcome {
    pub fn to_json(&self) -> Value {
        match self {
            Outcome::Ids(v) => json!(v),
            Outcome::Error(e) => json!({"error": e}),
            Outcome::Panic(p) => json!({"panic": p.message, "at": p.location}),
        }
    }
    /// signature fragment for a failed execution
    pub fn failure_clause(&self) -> Option<String> {
        match self {
            Outcome::Ids(_) => None,
            Outcome::Error(e) => Some(format!("error:{}", engine::normalise(e))),
            Outcome::Panic(p) => Some(format!("panic:{}:{}", p.file(), p.normalised())),
        }
    }
}

pub fn run_search<S: StorageData>(db: &DbImpl<S>, q: &SearchQuery) -> Outcome {
    match catch(|| db.exec(q)) {
        Ok(Ok(r)) => {
            let ids: Vec<i64> = r.elements.iter().map(|e| e.id.0).collect();
            if r.result != ids.len() as u64 {
                return Outcome::Error(format!("result count {} differs from the {} elements returned", r.result, ids.len()));
            }
            Outcome::Ids(ids)
        }
        Ok(Err(e)) => Outcome::Error(e.description),
        Err(p) => Outcome::Panic(p),
    }
}

#[derive(Clone, Copy, Debug, PartialEq, Eq, Hash)]
pub enum Kind {
    Bfs,
    Dfs,
    BfsRev,
    DfsRev,
}

pub const KINDS: [Kind; 4] = [Kind::Bfs, Kind::Dfs, Kind::BfsRev, Kind::DfsRev];

impl Kind {
    pub fn name(&self) -> &'static str {
        match self {
            Kind::Bfs => "bfs-from",
            Kind::Dfs => "dfs-from",
            Kind::BfsRev => "bfs-to",
            Kind::DfsRev => "dfs-to",
        }
    }
    pub fn is_dfs(&self) -> bool {
        matches!(self, Kind::Dfs | Kind::DfsRev)
    }
    pub fn is_reverse(&self) -> bool {
        matches!(self, Kind::BfsRev | Kind::DfsRev)
    }
    /// the query, built with the public builder
    pub fn query(&self, origin: i64) -> SearchQuery {
        match self {
            Kind::Bfs => QueryBuilder::search().from(origin).query(),
            Kind::Dfs => QueryBuilder::search().depth_first().from(origin).query(),
            Kind::BfsRev => QueryBuilder::search().to(origin).query(),
            Kind::DfsRev => QueryBuilder::search().depth_first().to(origin).query(),
        }
    }
    /// classify a stored query (replay)
    pub fn of(q: &SearchQuery) -> Option<(Kind, i64)> {
        let id = |q: &QueryId| match q {
            QueryId::Id(DbId(i)) => *i,
            QueryId::Alias(_) => 0,
        };
        let (o, d) = (id(&q.origin), id(&q.destination));
        let dfs = match q.algorithm {
            agdb::SearchQueryAlgorithm::BreadthFirst => false,
            agdb::SearchQueryAlgorithm::DepthFirst => true,
            _ => return None,
        };
        match (o != 0, d != 0, dfs) {
            (true, false, false) => Some((Kind::Bfs, o)),
            (true, false, true) => Some((Kind::Dfs, o)),
            (false, true, false) => Some((Kind::BfsRev, d)),
            (false, true, true) => Some((Kind::DfsRev, d)),
            _ => None,
        }
    }
}

pub fn query_json(q: &SearchQuery) -> Value {
    serde_json::to_value(q).unwrap_or(Value::Null)
}

pub fn query_from_json(v: &Value) -> Result<SearchQuery, String> {
    serde_json::from_value(v.clone()).map_err(|e| format!("query: {e}"))
}

pub fn load_replay(path: &str) -> Value {
    let text = std::fs::read_to_string(path).unwrap_or_else(|e| engine::machinery_failure(&format!("{path}: {e}")));
    let v: Value = serde_json::from_str(&text).unwrap_or_else(|e| engine::machinery_failure(&format!("{path}: {e}")));
    if v.get("replay").is_some() {
        let mut r = v["replay"].clone();
        r["signature_of_case"] = v["signature"].clone();
        r
    } else {
        v
    }
}

/// `Report::finish` for a replay: prints the verdict lines but keeps the
/// evidence file of the last full run (a replay is not coverage).
pub fn finish_replay(report: &engine::Report) -> i32 {
    let path = format!("{}/evidence/{}.json", engine::out_root(), report.property);
    let old = std::fs::read(&path).ok();
    let rc = report.finish();
    if let Some(o) = old {
        let _ = std::fs::write(&path, o);
    }
    rc
}

// ---------------------------------------------------------------------------
// enumeration of histories

/// Alphabet for `nodes` slots: all edges (a,b), removal of the j-th oldest
/// live edge (j < max_live), renewal of each node.
pub fn alphabet(nodes: u8, max_live: u8, with_removals: bool) -> Vec<Op> {
    let mut a = vec![];
    for x in 0..nodes {
        for y in 0..nodes {
            a.push(Op::Edge(x, y));
        }
    }
    if with_removals {
        for j in 0..max_live {
            a.push(Op::RemoveEdge(j));
        }
        for x in 0..nodes {
            a.push(Op::RenewNode(x));
        }
    }
    a
}

/// Calls `f` for every valid history of length <= depth that starts with `prefix`
/// (the prefix itself included). A history is valid if every RemoveEdge(j)
/// addresses a live edge; renewing a node is always valid. Histories ending in
/// a removal that leaves a graph already produced by a shorter history are
/// still enumerated (ids and adjacency order may differ).
pub fn for_each_history(alpha: &[Op], prefix: &[Op], depth: usize, f: &mut dyn FnMut(&[Op])) {
    // alphabets without AddNode/DropNode never address a missing slot
    for_each_history_in(alpha, 63, 63, prefix, depth, f)
}

/// The same over alphabets that add and drop nodes: `nodes` slots exist at
/// the start, at most `max_slots` ever; an edge needs two occupied slots,
/// DropNode/RenewNode an occupied slot, AddNode a slot number below `max_slots`.
pub fn for_each_history_in(alpha: &[Op], nodes: u8, max_slots: u8, prefix: &[Op], depth: usize, f: &mut dyn FnMut(&[Op])) {
    fn valid(ops: &[Op], nodes: u8, max_slots: u8) -> bool {
        let mut live: Vec<(u8, u8)> = vec![];
        let mut count = nodes;
        let mut occupied: u64 = if nodes >= 63 { u64::MAX } else { (1u64 << nodes) - 1 };
        let has = |occupied: u64, s: u8| s < 64 && occupied >> s & 1 == 1;
        for op in ops {
            match *op {
                Op::Edge(a, b) => {
                    if !has(occupied, a) || !has(occupied, b) {
                        return false;
                    }
                    live.push((a, b))
                }
                Op::RemoveEdge(j) => {
                    if (j as usize) >= live.len() {
                        return false;
                    }
                    live.remove(j as usize);
                }
                Op::RenewNode(s) => {
                    if !has(occupied, s) {
                        return false;
                    }
                    live.retain(|(a, b)| *a != s && *b != s)
                }
                Op::AddNode => {
                    if count >= max_slots {
                        return false;
                    }
                    occupied |= 1u64 << count;
                    count += 1;
                }
                Op::DropNode(s) => {
                    if !has(occupied, s) {
                        return false;
                    }
                    occupied &= !(1u64 << s);
                    live.retain(|(a, b)| *a != s && *b != s)
                }
            }
        }
        true
    }
    fn rec(alpha: &[Op], nodes: u8, max_slots: u8, cur: &mut Vec<Op>, depth: usize, f: &mut dyn FnMut(&[Op])) {
        f(cur);
        if cur.len() >= depth {
            return;
        }
        for op in alpha {
            cur.push(*op);
            if valid(cur, nodes, max_slots) {
                rec(alpha, nodes, max_slots, cur, depth, f);
            }
            cur.pop();
        }
    }
    if !valid(prefix, nodes, max_slots) || prefix.len() > depth {
        return;
    }
    let mut cur = prefix.to_vec();
    rec(alpha, nodes, max_slots, &mut cur, depth, f);
}

/// Alphabet of the id-reuse histories on `nodes` initial slots and one more
/// that AddNode can create: all edges over the nodes+1 slots, removal of the
/// j-th oldest edge, DropNode of every slot, AddNode, RenewNode of every slot.
pub fn reuse_alphabet(nodes: u8, max_live: u8) -> Vec<Op> {
    let slots = nodes + 1;
    let mut a = vec![Op::AddNode];
    for x in 0..slots {
        a.push(Op::DropNode(x));
    }
    for j in 0..max_live {
        a.push(Op::RemoveEdge(j));
    }
    for x in 0..slots {
        for y in 0..slots {
            a.push(Op::Edge(x, y));
        }
    }
    for x in 0..slots {
        a.push(Op::RenewNode(x));
    }
    a
}

pub fn work_items_in(alpha: &[Op], nodes: u8, max_slots: u8, depth: usize, split: usize) -> Vec<(Vec<Op>, bool)> {
    let split = split.min(depth);
    let mut items = vec![];
    for_each_history_in(alpha, nodes, max_slots, &[], split, &mut |h| {
        items.push((h.to_vec(), h.len() == split));
    });
    items
}

/// Work items for `par_for`: every valid history of length exactly
/// `min(split, depth)` (each stands for its whole subtree) and every shorter
/// valid history with `false` (stands for itself only).
pub fn work_items(alpha: &[Op], depth: usize, split: usize) -> Vec<(Vec<Op>, bool)> {
    let split = split.min(depth);
    let mut items = vec![];
    for_each_history(alpha, &[], split, &mut |h| {
        items.push((h.to_vec(), h.len() == split));
    });
    items
}

/// `DbMemory::new(name)` loads the file `name` if it exists; this one never does.
pub const MEMORY_DB_NAME: &str = "/nonexistent/verif-search-checks-memory-db";
