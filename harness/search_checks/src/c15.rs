//! C15 - search conditions select and prune exactly as documented.
//! Part "grid": every (stored value, comparison, operand) over a value corpus
//! of all nine value types, through a real search (type-strictness).
//! Part "lists": every condition list up to a length over an atom alphabet x
//! modifiers x logic, plus nested where-groups, on fixed property-bearing
//! graphs x every origin x bfs/dfs x from/to (+ elements search), compared
//! with the reference evaluator of refeval.rs. See NOTES.md.

use crate::common::*;
use crate::refeval::*;
use agdb::{
    Comparison, CountComparison, DbId, DbImpl, DbMemory, DbValue, KeyValueComparison, QueryBuilder, QueryCondition, QueryConditionData, QueryConditionLogic as L,
    QueryConditionModifier as M, QueryId, SearchQuery, SearchQueryAlgorithm, StorageData,
};
use engine::{Args, Report};
use serde_json::{Value, json};
use std::collections::{BTreeSet, HashMap, HashSet};
use std::sync::Mutex;
use std::sync::atomic::{AtomicU64, Ordering};

// ---------------------------------------------------------------------------
// abstract atoms (independent of the ids a graph hands out)

#[derive(Clone, Debug, PartialEq)]
enum A {
    Node,
    Edge,
    Distance(CountComparison),
    EdgeCount(CountComparison),
    EdgeCountFrom(CountComparison),
    EdgeCountTo(CountComparison),
    Ids(Vec<ElemRef>),
    IdsAlias(&'static str),
    IdsMissing,
    Keys(Vec<&'static str>),
    Kv(&'static str, Comparison),
    Where(Vec<C>),
}

#[derive(Clone, Debug, PartialEq)]
struct C {
    logic: L,
    modifier: M,
    atom: A,
}

fn s(x: &str) -> DbValue {
    DbValue::String(x.to_string())
}

fn resolve_atom(a: &A, g: &RefGraph) -> QueryConditionData {
    match a {
        A::Node => QueryConditionData::Node,
        A::Edge => QueryConditionData::Edge,
        A::Distance(c) => QueryConditionData::Distance(c.clone()),
        A::EdgeCount(c) => QueryConditionData::EdgeCount(c.clone()),
        A::EdgeCountFrom(c) => QueryConditionData::EdgeCountFrom(c.clone()),
        A::EdgeCountTo(c) => QueryConditionData::EdgeCountTo(c.clone()),
        A::Ids(refs) => QueryConditionData::Ids(refs.iter().filter_map(|r| g.resolve(*r)).map(|i| QueryId::Id(DbId(i))).collect()),
        A::IdsAlias(a) => QueryConditionData::Ids(vec![QueryId::Alias(a.to_string())]),
        A::IdsMissing => QueryConditionData::Ids(vec![QueryId::Id(DbId(99)), QueryId::Id(DbId(-99)), QueryId::Alias("nobody".into())]),
        A::Keys(k) => QueryConditionData::Keys(k.iter().map(|x| s(x)).collect()),
        A::Kv(k, cmp) => QueryConditionData::KeyValue(KeyValueComparison { key: s(k), value: cmp.clone() }),
        A::Where(inner) => QueryConditionData::Where(resolve(inner, g)),
    }
}

fn resolve(list: &[C], g: &RefGraph) -> Vec<QueryCondition> {
    list.iter().map(|c| QueryCondition { logic: c.logic, modifier: c.modifier, data: resolve_atom(&c.atom, g) }).collect()
}

fn count_name(c: &CountComparison) -> &'static str {
    match c {
        CountComparison::Equal(_) => "eq",
        CountComparison::GreaterThan(_) => "gt",
        CountComparison::GreaterThanOrEqual(_) => "ge",
        CountComparison::LessThan(_) => "lt",
        CountComparison::LessThanOrEqual(_) => "le",
        CountComparison::NotEqual(_) => "ne",
    }
}

fn atom_kind(a: &A) -> String {
    match a {
        A::Node => "node".into(),
        A::Edge => "edge".into(),
        A::Distance(c) => format!("distance:{}", count_name(c)),
        A::EdgeCount(c) => format!("edge_count:{}", count_name(c)),
        A::EdgeCountFrom(c) => format!("edge_count_from:{}", count_name(c)),
        A::EdgeCountTo(c) => format!("edge_count_to:{}", count_name(c)),
        A::Ids(_) | A::IdsAlias(_) | A::IdsMissing => "ids".into(),
        A::Keys(_) => "keys".into(),
        A::Kv(_, c) => format!("kv:{}", comparison_name(c)),
        A::Where(_) => "where".into(),
    }
}

fn all_counts(ns: &[u64]) -> Vec<CountComparison> {
    let mut v = vec![];
    for n in ns {
        v.extend([
            CountComparison::Equal(*n),
            CountComparison::GreaterThan(*n),
            CountComparison::GreaterThanOrEqual(*n),
            CountComparison::LessThan(*n),
            CountComparison::LessThanOrEqual(*n),
            CountComparison::NotEqual(*n),
        ]);
    }
    v
}

/// full atom alphabet (lists of length <= 2)
fn full_atoms(thorough: bool) -> Vec<A> {
    let mut v = vec![A::Node, A::Edge];
    v.extend(all_counts(&[0, 1, 2]).into_iter().map(A::Distance));
    // edge counts: all 6 comparisons in the thorough tier, ==, > and <= in the quick tier
    let counts = |n: u64| -> Vec<CountComparison> {
        if thorough { all_counts(&[n]) } else { vec![CountComparison::Equal(n), CountComparison::GreaterThan(n), CountComparison::LessThanOrEqual(n)] }
    };
    v.extend(counts(2).into_iter().map(A::EdgeCount));
    v.extend(counts(1).into_iter().map(A::EdgeCountFrom));
    v.extend(counts(1).into_iter().map(A::EdgeCountTo));
    v.extend([
        A::Ids(vec![ElemRef::Node(0)]),
        A::Ids(vec![ElemRef::Edge(1)]),
        A::Ids(vec![ElemRef::Node(1), ElemRef::Edge(0)]),
        A::IdsAlias("root"),
        A::Ids(vec![]),
        A::IdsMissing,
    ]);
    v.extend([A::Keys(vec!["age"]), A::Keys(vec!["age", "name"]), A::Keys(vec!["nokey"]), A::Keys(vec![])]);
    v.extend([
        A::Kv("age", Comparison::Equal(DbValue::I64(40))),
        A::Kv("age", Comparison::Equal(DbValue::U64(40))),
        A::Kv("age", Comparison::GreaterThan(DbValue::I64(30))),
        A::Kv("age", Comparison::LessThan(DbValue::I64(30))),
        A::Kv("age", Comparison::GreaterThanOrEqual(DbValue::U64(5))),
        A::Kv("age", Comparison::LessThanOrEqual(DbValue::F64(31.0.into()))),
        A::Kv("age", Comparison::NotEqual(DbValue::I64(20))),
        A::Kv("name", Comparison::Contains(s("li"))),
        A::Kv("name", Comparison::StartsWith(s("b"))),
        A::Kv("name", Comparison::EndsWith(s("e"))),
        A::Kv("age", Comparison::Contains(DbValue::VecI64(vec![40, 40]))),
        A::Kv("name", Comparison::Contains(DbValue::VecString(vec!["l".to_string(), "i".to_string(), "l".to_string()]))),
        A::Kv("w", Comparison::GreaterThan(DbValue::I64(0))),
        A::Kv("nokey", Comparison::NotEqual(DbValue::I64(1))),
    ]);
    v
}

/// core alphabet (lists of length 3, where-groups)
fn core_atoms(thorough: bool) -> Vec<A> {
    let mut v = vec![
        A::Node,
        A::Edge,
        A::Distance(CountComparison::Equal(2)),
        A::Distance(CountComparison::LessThan(2)),
        A::Distance(CountComparison::GreaterThan(1)),
        A::EdgeCountFrom(CountComparison::Equal(1)),
        A::Ids(vec![ElemRef::Node(1), ElemRef::Edge(0)]),
        A::Keys(vec!["age"]),
        A::Kv("age", Comparison::GreaterThan(DbValue::I64(30))),
        A::Kv("age", Comparison::Equal(DbValue::I64(40))),
    ];
    if thorough {
        v.extend([A::Distance(CountComparison::LessThanOrEqual(1)), A::EdgeCount(CountComparison::GreaterThan(2)), A::Ids(vec![ElemRef::Node(0)]), A::Kv("name", Comparison::Contains(s("li")))]);
    }
    v
}

const MODS: [M; 4] = [M::None, M::Not, M::Beyond, M::NotBeyond];
const LOGICS: [L; 2] = [L::And, L::Or];

fn statically_excluded(c: &C) -> bool {
    c.logic == L::Or && matches!(c.modifier, M::Beyond | M::NotBeyond)
}

/// all single conditions over `atoms` with the given logic choices
fn conditions(atoms: &[A], logics: &[L]) -> Vec<C> {
    let mut v = vec![];
    for l in logics {
        for m in MODS {
            for a in atoms {
                let c = C { logic: *l, modifier: m, atom: a.clone() };
                if !statically_excluded(&c) {
                    v.push(c);
                }
            }
        }
    }
    v
}

// ---------------------------------------------------------------------------
// fixed graphs

fn graphs() -> Vec<(&'static str, GraphSpec)> {
    use Op::*;
    let p = |e: ElemRef, k: &str, v: DbValue| (e, s(k), v);
    let n = ElemRef::Node;
    let e = ElemRef::Edge;
    vec![
        (
            "diamond-with-cycle",
            GraphSpec {
                nodes: 3,
                ops: vec![Edge(0, 1), Edge(0, 2), Edge(1, 2), Edge(2, 0)],
                props: vec![
                    p(n(0), "age", DbValue::I64(40)),
                    p(n(0), "name", s("alice")),
                    p(n(1), "age", DbValue::U64(5)),
                    p(n(1), "name", s("bob")),
                    p(n(2), "age", DbValue::I64(20)),
                    p(e(0), "w", DbValue::I64(1)),
                    p(e(1), "w", DbValue::I64(3)),
                    p(e(1), "age", DbValue::F64(31.0.into())),
                    p(e(3), "w", s("x")),
                ],
                aliases: vec![(0, "root".into())],
                valued_nodes: vec![],
            },
        ),
        (
            "parallel-and-loops",
            GraphSpec {
                nodes: 2,
                ops: vec![Edge(0, 1), Edge(0, 1), Edge(1, 1), Edge(1, 0)],
                props: vec![
                    p(n(0), "age", DbValue::I64(31)),
                    p(n(1), "age", s("40")),
                    p(n(1), "name", s("lisa")),
                    p(e(0), "age", DbValue::I64(40)),
                    p(e(1), "name", s("be")),
                    p(e(2), "age", DbValue::Bytes(vec![1, 2])),
                    p(e(2), "w", DbValue::I64(0)),
                    p(e(3), "age", DbValue::VecI64(vec![40])),
                ],
                aliases: vec![(1, "root".into())],
                valued_nodes: vec![],
            },
        ),
        (
            "deep-chain-with-shortcut",
            GraphSpec {
                nodes: 4,
                ops: vec![Edge(0, 1), Edge(1, 2), Edge(2, 3), Edge(0, 3), Edge(3, 1)],
                props: vec![
                    p(n(0), "age", DbValue::I64(30)),
                    p(n(1), "age", DbValue::I64(41)),
                    p(n(1), "name", s("li")),
                    p(n(2), "age", DbValue::U64(40)),
                    p(n(3), "age", DbValue::I64(40)),
                    p(n(3), "name", s("eve")),
                    p(e(0), "w", DbValue::I64(2)),
                    p(e(2), "age", DbValue::I64(29)),
                    p(e(3), "age", DbValue::F64(30.5.into())),
                    p(e(4), "name", s("bible")),
                ],
                aliases: vec![(0, "root".into())],
                valued_nodes: vec![],
            },
        ),
        (
            "after-removals",
            GraphSpec {
                nodes: 3,
                ops: vec![Edge(0, 1), Edge(1, 2), Edge(0, 2), RemoveEdge(0), RenewNode(2), Edge(1, 2), Edge(0, 1), Edge(2, 2), Edge(2, 0)],
                props: vec![
                    p(n(0), "age", DbValue::I64(40)),
                    p(n(1), "age", DbValue::I64(31)),
                    p(n(1), "name", s("bo")),
                    p(n(2), "age", DbValue::U64(31)),
                    p(e(3), "age", DbValue::I64(20)),
                    p(e(4), "w", DbValue::I64(5)),
                    p(e(5), "name", s("alice")),
                    p(e(6), "w", DbValue::U64(1)),
                ],
                aliases: vec![(2, "root".into())],
                valued_nodes: vec![],
            },
        ),
    ]
}

// ---------------------------------------------------------------------------
// checking one condition list on one graph

#[derive(Clone, Copy, Debug, PartialEq, Eq, Hash)]
enum Walk {
    Kind(Kind, i64),
    Elements,
}

impl Walk {
    fn name(&self) -> &'static str {
        match self {
            Walk::Kind(k, _) => k.name(),
            Walk::Elements => "elements",
        }
    }
    fn query(&self, conds: Vec<QueryCondition>) -> SearchQuery {
        let mut q = match self {
            Walk::Kind(k, o) => k.query(*o),
            Walk::Elements => QueryBuilder::search().elements().query(),
        };
        q.conditions = conds;
        q
    }
}

/// thorough: every element is an origin; quick: every node, the oldest and the newest edge
fn walks(g: &RefGraph, thorough: bool) -> Vec<Walk> {
    let mut v = vec![];
    let mut origins = g.elements();
    if !thorough && g.edges.len() > 2 {
        origins = g.slots.clone();
        origins.push(g.edges[0].id);
        origins.push(g.edges[g.edges.len() - 1].id);
    }
    for o in origins {
        for k in KINDS {
            v.push(Walk::Kind(k, o));
        }
    }
    v.push(Walk::Elements);
    v
}

/// reference selections: one per reading of the documentation that can
/// matter for this list (see `Readings`). Err = not judged.
fn reference_sets(g: &RefGraph, w: Walk, conds: &[QueryCondition]) -> Result<Vec<BTreeSet<i64>>, Undefined> {
    match w {
        Walk::Elements => {
            let mut set = BTreeSet::new();
            for id in g.elements() {
                let ev = eval_conditions(&EvalCtx { g, readings: PLAIN_READING, distance: None }, id, conds)?;
                if ev.sel {
                    set.insert(id);
                }
            }
            Ok(vec![set])
        }
        Walk::Kind(k, o) => {
            let mut sets = vec![];
            for r in readings_for(conds) {
                let v = ref_traverse(g, o, k, conds, r)?;
                let set: BTreeSet<i64> = selected(&v).into_iter().collect();
                if !sets.contains(&set) {
                    sets.push(set);
                }
            }
            Ok(sets)
        }
    }
}

struct CaseFailure {
    walk: Walk,
    clause: String,
    /// element that differs (for blaming a key-value atom)
    witness: Option<i64>,
    query: SearchQuery,
    expected: Value,
    observed: Value,
}

#[derive(Default)]
struct ListStats {
    searches: u64,
    undefined: HashMap<Undefined, u64>,
    /// the reference selects a proper non-empty subset of what is reachable, for some walk
    nontrivial: bool,
    policy_dependent: u64,
    outcome_hashes: Vec<u64>,
}

fn check_list<S: StorageData>(db: &DbImpl<S>, g: &RefGraph, gi: usize, conds: &[QueryCondition], ws: &[Walk], stats: &mut ListStats, found: &mut dyn FnMut(CaseFailure)) {
    for w in ws {
        let sets = match reference_sets(g, *w, conds) {
            Ok(s) => s,
            Err(u) => {
                *stats.undefined.entry(u).or_default() += 1;
                continue;
            }
        };
        if sets.len() > 1 {
            stats.policy_dependent += 1;
        }
        let q = w.query(conds.to_vec());
        stats.searches += 1;
        let out = run_search(db, &q);
        let reach = match w {
            Walk::Kind(k, o) => ref_traverse(g, *o, *k, &[], PLAIN_READING).map(|v| v.len()).unwrap_or(0),
            Walk::Elements => g.elements().len(),
        };
        if !sets[0].is_empty() && sets[0].len() < reach {
            stats.nontrivial = true;
        }
        let expected = || json!({"acceptable_selections": sets});
        match &out {
            Outcome::Ids(ids) => {
                let set: BTreeSet<i64> = ids.iter().copied().collect();
                stats.outcome_hashes.push(engine::fnv(format!("{gi}|{w:?}|{set:?}").as_bytes()));
                if set.len() != ids.len() {
                    found(CaseFailure { walk: *w, clause: "duplicate".into(), witness: None, query: q, expected: expected(), observed: json!(ids) });
                    continue;
                }
                if sets.contains(&set) {
                    continue;
                }
                let extra: Vec<i64> = set.difference(&sets[0]).copied().collect();
                let missing: Vec<i64> = sets[0].difference(&set).copied().collect();
                let clause = match (extra.is_empty(), missing.is_empty()) {
                    (false, true) => "selected-extra",
                    (true, false) => "selected-missing",
                    _ => "selected-extra-and-missing",
                };
                found(CaseFailure { walk: *w, clause: clause.into(), witness: extra.first().or(missing.first()).copied(), query: q, expected: expected(), observed: json!(ids) });
            }
            other => found(CaseFailure { walk: *w, clause: other.failure_clause().unwrap(), witness: None, query: q, expected: expected(), observed: other.to_json() }),
        }
    }
}

/// class of an atom for signatures; for key-value atoms includes whether the
/// witness element's stored value has the operand's type
fn atom_class(a: &A, g: &RefGraph, witness: Option<i64>) -> String {
    match a {
        A::Kv(key, cmp) => {
            let operand = comparison_operand(cmp);
            let pair = match witness.and_then(|w| g.value(w, &s(key))) {
                None => "missing-key".to_string(),
                Some(v) if type_name(v) == type_name(operand) => format!("same-type:{}", type_name(v)),
                Some(_) => "cross-type".to_string(),
            };
            format!("kv:{}:{pair}", comparison_name(cmp))
        }
        other => atom_kind(other),
    }
}

fn flatten<'a>(list: &'a [C], out: &mut Vec<&'a A>) {
    for c in list {
        match &c.atom {
            A::Where(inner) => flatten(inner, out),
            a => out.push(a),
        }
    }
}

fn shape(list: &[C]) -> String {
    list.iter()
        .map(|c| {
            let inner = match &c.atom {
                A::Where(i) => format!("where({})", shape(i)),
                a => atom_kind(a),
            };
            format!("{}.{}.{inner}", if c.logic == L::And { "and" } else { "or" }, format!("{:?}", c.modifier).to_lowercase())
        })
        .collect::<Vec<_>>()
        .join("+")
}

/// coarse class of a list for signatures of violations that no single atom explains:
/// which modifiers and logic operators occur, whether groups are nested, whether a
/// condition that can stop on its own (distance) occurs. Bounded and small.
fn coarse_shape(list: &[C]) -> String {
    fn walk(list: &[C], mods: &mut BTreeSet<&'static str>, logic: &mut BTreeSet<&'static str>, nested: &mut bool, distance: &mut bool, top: bool) {
        for (i, c) in list.iter().enumerate() {
            match c.modifier {
                M::None => {}
                M::Not => {
                    mods.insert("not");
                }
                M::Beyond => {
                    mods.insert("beyond");
                }
                M::NotBeyond => {
                    mods.insert("not_beyond");
                }
            }
            if i > 0 || !top {
                logic.insert(if c.logic == L::And { "and" } else { "or" });
            }
            match &c.atom {
                A::Where(inner) => {
                    *nested = true;
                    walk(inner, mods, logic, nested, distance, false);
                }
                A::Distance(_) => *distance = true,
                _ => {}
            }
        }
    }
    let (mut mods, mut logic, mut nested, mut distance) = (BTreeSet::new(), BTreeSet::new(), false, false);
    walk(list, &mut mods, &mut logic, &mut nested, &mut distance, true);
    let join = |s: &BTreeSet<&'static str>| if s.is_empty() { "none".to_string() } else { s.iter().copied().collect::<Vec<_>>().join("+") };
    format!("modifiers={}|logic={}|nested={}|distance={}", join(&mods), join(&logic), nested, distance)
}

// ---------------------------------------------------------------------------
// part "grid"

/// Value corpus of the grid. Scalars of every type, and for strings and the
/// four list types the same systematic set of shapes (as stored value AND as
/// operand, the grid is the full cross product): empty, one element, repeated
/// element, two elements in both orders, longer with a repetition, three
/// elements, a non-contiguous sub-sequence, a proper suffix, the last element,
/// a list with the first element repeated at the end - so that operands
/// shorter than / as long as / longer than the stored value, with and without
/// repetitions, proper prefixes/suffixes and non-contiguous sub-sequences all occur.
fn corpus() -> Vec<DbValue> {
    let f = |x: f64| agdb::DbF64::from(x);
    let mut v = vec![DbValue::Bytes(vec![]), DbValue::Bytes(vec![1]), DbValue::Bytes(vec![1, 2])];
    v.extend([-1, 0, 1, 2, 3, 5, 30, 40].map(DbValue::I64));
    v.extend([0, 1, 2, 3, 5, 30, 40].map(DbValue::U64));
    v.extend([-1.0, 0.0, 1.0, 2.0, 3.0, 5.0, 30.5].map(|x| DbValue::F64(f(x))));
    const SHAPES: [&[u8]; 11] = [&[], &[1], &[1, 1], &[1, 2], &[2, 1], &[1, 1, 2], &[1, 2, 3], &[1, 3], &[2, 3], &[3], &[1, 2, 1]];
    let letter = |x: u8| ["a", "b", "c"][x as usize - 1].to_string();
    for sh in SHAPES {
        v.push(DbValue::String(sh.iter().map(|x| letter(*x)).collect::<String>()));
    }
    v.push(s("1"));
    for sh in SHAPES {
        v.push(DbValue::VecI64(sh.iter().map(|x| *x as i64).collect()));
        v.push(DbValue::VecU64(sh.iter().map(|x| *x as u64).collect()));
        v.push(DbValue::VecF64(sh.iter().map(|x| f(*x as f64)).collect()));
        v.push(DbValue::VecString(sh.iter().map(|x| letter(*x)).collect()));
    }
    v.push(DbValue::VecString(vec!["ab".to_string(), "c".to_string()]));
    v.push(DbValue::VecString(vec!["bc".to_string(), "a".to_string(), "bc".to_string()]));
    v
}

fn comparisons(o: &DbValue) -> Vec<Comparison> {
    vec![
        Comparison::Equal(o.clone()),
        Comparison::GreaterThan(o.clone()),
        Comparison::GreaterThanOrEqual(o.clone()),
        Comparison::LessThan(o.clone()),
        Comparison::LessThanOrEqual(o.clone()),
        Comparison::NotEqual(o.clone()),
        Comparison::Contains(o.clone()),
        Comparison::StartsWith(o.clone()),
        Comparison::EndsWith(o.clone()),
    ]
}

fn grid_spec(stored: &DbValue) -> GraphSpec {
    GraphSpec { nodes: 2, ops: vec![Op::Edge(0, 1)], props: vec![(ElemRef::Node(0), s("k"), stored.clone()), (ElemRef::Edge(0), s("k"), stored.clone())], aliases: vec![], valued_nodes: vec![] }
}

fn grid_query(g: &RefGraph, cmp: &Comparison) -> SearchQuery {
    let mut q = Kind::Bfs.query(g.slots[0]);
    q.conditions = vec![QueryCondition { logic: L::And, modifier: M::None, data: QueryConditionData::KeyValue(KeyValueComparison { key: s("k"), value: cmp.clone() }) }];
    q
}

/// Some(failure signature, what, expected, observed) for one grid cell; Ok(None) = holds; Err = not judged
fn check_cell(db: &DbMemory, g: &RefGraph, stored: &DbValue, cmp: &Comparison) -> Result<Option<(String, String, Value, Value)>, Undefined> {
    let want = ref_compare(cmp, stored).ok_or(Undefined::ComparisonCell)?;
    let q = grid_query(g, cmp);
    let operand = comparison_operand(cmp);
    let pair = if type_name(stored) == type_name(operand) { format!("same-type:{}", type_name(stored)) } else { "cross-type".to_string() };
    let expected: BTreeSet<i64> = if want { [g.slots[0], g.edges[0].id].into_iter().collect() } else { BTreeSet::new() };
    match run_search(db, &q) {
        Outcome::Ids(ids) => {
            let set: BTreeSet<i64> = ids.iter().copied().collect();
            if set == expected && set.len() == ids.len() {
                return Ok(None);
            }
            Ok(Some((
                format!("kv:{}:{pair}|part=grid|expected={want}", comparison_name(cmp)),
                format!("stored {stored:?} {} operand {operand:?} must be {want}", comparison_name(cmp)),
                json!(expected),
                json!(ids),
            )))
        }
        other => Ok(Some((format!("kv:{}:{pair}|part=grid|clause={}", comparison_name(cmp), other.failure_clause().unwrap()), "search failed".into(), json!(expected), other.to_json()))),
    }
}

// ---------------------------------------------------------------------------

fn list_replay(name: &str, spec: &GraphSpec, g: &RefGraph, f: &CaseFailure, list: &[C]) -> Value {
    json!({
        "check": "C15", "part": "lists", "graph_name": name, "graph": spec.to_json(), "graph_listing": g.listing(),
        "conditions_shape": shape(list), "walk": f.walk.name(), "query": query_json(&f.query), "clause": f.clause,
        "expected": f.expected, "observed": f.observed,
    })
}

fn walk_of_query(q: &SearchQuery) -> Option<Walk> {
    if q.algorithm == SearchQueryAlgorithm::Elements {
        return Some(Walk::Elements);
    }
    Kind::of(q).map(|(k, o)| Walk::Kind(k, o))
}

pub fn replay(args: &Args, path: &str) -> i32 {
    let report = Report::new(args, "model_checking");
    let r = load_replay(path);
    let spec = GraphSpec::from_json(&r["graph"]).unwrap_or_else(|e| engine::machinery_failure(&e));
    let q = query_from_json(&r["query"]).unwrap_or_else(|e| engine::machinery_failure(&e));
    let (db, g) = build_memory(&spec).unwrap_or_else(|e| engine::machinery_failure(&e));
    println!("replay C15: graph {}", g.listing());
    println!("query: {}", query_json(&q));
    println!("observed: {}", run_search(&db, &q).to_json());
    let sig = r["signature_of_case"].as_str().unwrap_or("replay").to_string();
    if r["part"].as_str() == Some("grid") {
        let stored: DbValue = serde_json::from_value(r["stored"].clone()).unwrap_or_else(|e| engine::machinery_failure(&e.to_string()));
        let cmp = match &q.conditions[0].data {
            QueryConditionData::KeyValue(kv) => kv.value.clone(),
            _ => engine::machinery_failure("replay: grid query without key-value condition"),
        };
        match check_cell(&db, &g, &stored, &cmp) {
            Err(u) => println!("not judged: {}", u.name()),
            Ok(None) => println!("expected: as observed; all clauses hold"),
            Ok(Some((sig, what, expected, observed))) => {
                println!("violated: {sig} ({what})\nexpected: {expected}\nobserved: {observed}");
                report.violation(&sig, &what, r.clone());
            }
        }
    } else {
        let w = walk_of_query(&q).unwrap_or_else(|| engine::machinery_failure("replay: cannot classify the query"));
        if let (true, Walk::Kind(k, o)) = (q.conditions.is_empty(), w) {
            // a walk without conditions is judged by all clauses of C14 (as in the pre-pass of the explorer)
            match crate::c14::check_case(&db, &g, k, o).0 {
                None => println!("the search without conditions satisfies all clauses of C14"),
                Some(f) => {
                    println!("clause violated: {} ({})\nexpected: {}\nobserved: {}", f.clause, f.what, f.expected, f.observed);
                    report.violation(&format!("part=lists|traversal-without-conditions-wrong|search={}|origin={}|clause={}", w.name(), g.kind(o), f.clause), &f.what, r.clone());
                }
            }
            report.set("evaluations", json!(1));
            report.set("distinct_nontrivial", json!(0));
            report.set("rule", json!("replay of one stored case"));
            return finish_replay(&report);
        }
        let mut stats = ListStats::default();
        let mut failures = vec![];
        check_list(&db, &g, 0, &q.conditions, &[w], &mut stats, &mut |f| failures.push(f));
        for (u, _) in &stats.undefined {
            println!("not judged: {}", u.name());
        }
        if failures.is_empty() && stats.undefined.is_empty() {
            println!("selection is one of the acceptable selections; all clauses hold");
        }
        for f in failures {
            println!("clause violated: {}\nexpected: {}\nobserved: {}", f.clause, f.expected, f.observed);
            let mut doc = r.clone();
            doc["observed"] = f.observed.clone();
            report.violation(&sig, &f.clause, doc);
        }
    }
    report.set("evaluations", json!(1));
    report.set("distinct_nontrivial", json!(0));
    report.set("rule", json!("replay of one stored case"));
    finish_replay(&report)
}

pub fn run(args: &Args) -> i32 {
    if let Some(p) = &args.replay {
        return replay(args, p);
    }
    let report = Report::new(args, "model_checking");
    let thorough = args.tier == engine::Tier::Thorough;

    // ---- part "grid"
    let values = corpus();
    let grid_cells = AtomicU64::new(0);
    let grid_undefined = AtomicU64::new(0);
    let grid_true = AtomicU64::new(0);
    engine::par_for(values.len(), args.seed, |_w, i| {
        let stored = &values[i];
        let spec = grid_spec(stored);
        let (db, g) = build_memory(&spec).unwrap_or_else(|e| engine::machinery_failure(&e));
        for operand in &values {
            for cmp in comparisons(operand) {
                match check_cell(&db, &g, stored, &cmp) {
                    Err(_) => {
                        grid_undefined.fetch_add(1, Ordering::Relaxed);
                    }
                    Ok(r) => {
                        grid_cells.fetch_add(1, Ordering::Relaxed);
                        if ref_compare(&cmp, stored) == Some(true) {
                            grid_true.fetch_add(1, Ordering::Relaxed);
                        }
                        if let Some((sig, what, expected, observed)) = r {
                            report.violation(
                                &sig,
                                &what,
                                json!({"check": "C15", "part": "grid", "graph": spec.to_json(), "graph_listing": g.listing(), "stored": stored, "query": query_json(&grid_query(&g, &cmp)), "expected": expected, "observed": observed}),
                            );
                        }
                    }
                }
            }
        }
    });

    // ---- part "lists"
    let gs = graphs();
    let built: Vec<(String, GraphSpec, RefGraph)> = gs
        .iter()
        .map(|(n, spec)| {
            let (_, g) = build_memory(spec).unwrap_or_else(|e| engine::machinery_failure(&format!("{n}: {e}")));
            (n.to_string(), spec.clone(), g)
        })
        .collect();
    let full = full_atoms(thorough);
    let core = core_atoms(thorough);

    // pass -1: the walks themselves, without conditions. A walk whose plain traversal is already
    // wrong (C14's subject) is reported once under its own signature and not used to judge conditions.
    let mut sound_walks: Vec<Vec<Walk>> = vec![];
    let mut skipped_walks = 0u64;
    for (gi, (name, spec, g)) in built.iter().enumerate() {
        let (db, _) = build_memory(spec).unwrap();
        let mut ok = vec![];
        for w in walks(g, thorough) {
            // all clauses of C14 (set, order, distances) for graph walks; the plain selection for the elements search
            let failure: Option<(String, Value)> = match w {
                Walk::Kind(k, o) => crate::c14::check_case(&db, g, k, o).0.map(|f| (f.clause.clone(), json!({"check": "C15", "part": "lists", "graph_name": name, "graph": spec.to_json(), "graph_listing": g.listing(), "conditions_shape": "", "walk": w.name(), "query": query_json(&f.query), "clause": f.clause, "expected": f.expected, "observed": f.observed}))),
                Walk::Elements => {
                    let mut stats = ListStats::default();
                    let mut failure = None;
                    check_list(&db, g, gi, &[], &[w], &mut stats, &mut |f| failure = Some(f));
                    failure.map(|f| (f.clause.clone(), list_replay(name, spec, g, &f, &[])))
                }
            };
            match failure {
                None => ok.push(w),
                Some((clause, doc)) => {
                    skipped_walks += 1;
                    let origin = match w {
                        Walk::Kind(_, o) => g.kind(o),
                        Walk::Elements => "none",
                    };
                    report.violation(&format!("part=lists|traversal-without-conditions-wrong|search={}|origin={origin}|clause={clause}", w.name()), "the search without conditions violates a clause of C14 (reachable set, order or distances); this walk is not used to judge conditions", doc);
                }
            }
        }
        sound_walks.push(ok);
    }

    // pass 0: single unmodified atoms; those that fail alone are "bad atoms" used to classify longer lists
    let mut bad: Vec<HashMap<String, String>> = vec![HashMap::new(); built.len()]; // graph -> atom debug -> class
    {
        let mut all_atoms = full.clone();
        for a in &core {
            if !all_atoms.contains(a) {
                all_atoms.push(a.clone());
            }
        }
        for (gi, (_, spec, g)) in built.iter().enumerate() {
            let (db, _) = build_memory(spec).unwrap();
            let ws = sound_walks[gi].clone();
            for a in &all_atoms {
                let list = vec![C { logic: L::And, modifier: M::None, atom: a.clone() }];
                let mut stats = ListStats::default();
                check_list(&db, g, gi, &resolve(&list, g), &ws, &mut stats, &mut |f| {
                    bad[gi].entry(format!("{a:?}")).or_insert_with(|| atom_class(a, g, f.witness));
                });
            }
        }
    }

    let searches = AtomicU64::new(0);
    let lists = AtomicU64::new(0);
    let nontrivial = AtomicU64::new(0);
    let policy_dependent = AtomicU64::new(0);
    let undefined: Mutex<HashMap<&'static str, u64>> = Mutex::new(HashMap::new());
    let outcomes: Mutex<HashSet<u64>> = Mutex::new(HashSet::new());
    let violating = AtomicU64::new(0);

    // runs every list produced by `gen` for work item i
    let run_lists = |n_items: usize, gen_lists: &(dyn Fn(usize, &mut dyn FnMut(&[C])) + Sync)| {
        engine::par_for(n_items, args.seed, |_w, i| {
            let dbs: Vec<DbMemory> = built.iter().map(|(_, spec, _)| build_memory(spec).unwrap().0).collect();
            let wss: &Vec<Vec<Walk>> = &sound_walks;
            let mut local_out: HashSet<u64> = HashSet::new();
            let mut local_undef: HashMap<&'static str, u64> = HashMap::new();
            let mut seen: HashSet<String> = HashSet::new();
            let (mut n_lists, mut n_search, mut n_nontrivial, mut n_policy) = (0u64, 0u64, 0u64, 0u64);
            gen_lists(i, &mut |list: &[C]| {
                n_lists += 1;
                let mut any_nontrivial = false;
                for (gi, (name, spec, g)) in built.iter().enumerate() {
                    let conds = resolve(list, g);
                    let mut stats = ListStats::default();
                    check_list(&dbs[gi], g, gi, &conds, &wss[gi], &mut stats, &mut |f| {
                        violating.fetch_add(1, Ordering::Relaxed);
                        let sig = if f.clause.starts_with("panic:") || f.clause.starts_with("error:") {
                            format!("part=lists|clause={}", f.clause)
                        } else {
                            let mut atoms = vec![];
                            flatten(list, &mut atoms);
                            match atoms.iter().find_map(|a| bad[gi].get(&format!("{a:?}"))) {
                                Some(class) => format!("{class}|part=lists"),
                                None => format!("part=lists|cause=combination|{}|clause={}", coarse_shape(list), f.clause),
                            }
                        };
                        let first = seen.insert(sig.clone());
                        report.violation(&sig, &format!("{} on {}: {}", shape(list), name, f.clause), if first { list_replay(name, spec, g, &f, list) } else { Value::Null });
                    });
                    n_search += stats.searches;
                    n_policy += stats.policy_dependent;
                    any_nontrivial |= stats.nontrivial;
                    for (u, n) in stats.undefined {
                        *local_undef.entry(u.name()).or_default() += n;
                    }
                    local_out.extend(stats.outcome_hashes);
                }
                if any_nontrivial {
                    n_nontrivial += 1;
                }
            });
            lists.fetch_add(n_lists, Ordering::Relaxed);
            searches.fetch_add(n_search, Ordering::Relaxed);
            nontrivial.fetch_add(n_nontrivial, Ordering::Relaxed);
            policy_dependent.fetch_add(n_policy, Ordering::Relaxed);
            outcomes.lock().unwrap().extend(local_out);
            let mut u = undefined.lock().unwrap();
            for (k, n) in local_undef {
                *u.entry(k).or_default() += n;
            }
        });
    };

    // length 0 and 1, full alphabet
    let first_full = conditions(&full, &[L::And]);
    let second_full = conditions(&full, &LOGICS);
    run_lists(1, &|_, f| {
        f(&[]);
        for c in &first_full {
            f(std::slice::from_ref(c));
        }
    });
    // length 2, full alphabet: item = first condition
    run_lists(first_full.len(), &|i, f| {
        for c2 in &second_full {
            f(&[first_full[i].clone(), c2.clone()]);
        }
    });
    // where-groups of length <= 2 over the core alphabet
    let first_core = conditions(&core, &[L::And]);
    let second_core = conditions(&core, &LOGICS);
    let mut groups: Vec<A> = vec![];
    for c1 in &first_core {
        groups.push(A::Where(vec![c1.clone()]));
        for c2 in &second_core {
            groups.push(A::Where(vec![c1.clone(), c2.clone()]));
        }
    }
    // a group alone under every modifier: item = group
    run_lists(groups.len(), &|i, f| {
        for m in MODS {
            f(&[C { logic: L::And, modifier: m, atom: groups[i].clone() }]);
        }
    });
    let mut where_pairs = "not enumerated in the quick tier";
    let mut length3 = "not enumerated in the quick tier";
    if thorough {
        // a group combined with one core condition before or after it (unmodified or negated)
        let side: Vec<C> = second_core.iter().filter(|c| matches!(c.modifier, M::None | M::Not)).cloned().collect();
        run_lists(groups.len(), &|i, f| {
            for m in MODS {
                for c in &side {
                    // [c, group]
                    for l in LOGICS {
                        let gc = C { logic: l, modifier: m, atom: groups[i].clone() };
                        if !statically_excluded(&gc) {
                            f(&[C { logic: L::And, ..c.clone() }, gc]);
                        }
                    }
                    // [group, c]
                    f(&[C { logic: L::And, modifier: m, atom: groups[i].clone() }, c.clone()]);
                }
            }
        });
        where_pairs = "group x {before, after} x core condition (unmodified or negated) x and/or";
        // length 3 over the core alphabet: item = (c1, c2)
        let n2 = second_core.len();
        run_lists(first_core.len() * n2, &|i, f| {
            let (c1, c2) = (&first_core[i / n2], &second_core[i % n2]);
            for c3 in &second_core {
                f(&[c1.clone(), c2.clone(), c3.clone()]);
            }
        });
        length3 = "all lists of length 3 over the core alphabet";
    }

    // samples
    {
        let (name, spec, g) = &built[0];
        let (db, _) = build_memory(spec).unwrap();
        for list in [
            vec![C { logic: L::And, modifier: M::None, atom: A::Kv("age", Comparison::GreaterThan(DbValue::I64(30))) }],
            vec![C { logic: L::And, modifier: M::NotBeyond, atom: A::Ids(vec![ElemRef::Node(1), ElemRef::Edge(0)]) }, C { logic: L::And, modifier: M::None, atom: A::Node }],
        ] {
            let q = Walk::Kind(Kind::Dfs, g.slots[0]).query(resolve(&list, g));
            report.sample(json!({"graph": name, "listing": g.listing(), "conditions": shape(&list), "query": query_json(&q), "result": run_search(&db, &q).to_json(), "reference": reference_sets(g, Walk::Kind(Kind::Dfs, g.slots[0]), &q.conditions).ok()}));
        }
    }
    let total = searches.load(Ordering::SeqCst) + grid_cells.load(Ordering::SeqCst);
    report.set("evaluations", json!(total));
    report.set("distinct_nontrivial", json!(nontrivial.load(Ordering::SeqCst)));
    report.set("rule", json!("grid: every (stored value, one of 9 comparisons, operand) over the value corpus (all nine types; strings and lists in 11 systematic shapes each), each through a real search; lists: every condition list of the stated shapes over the stated alphabets (each list is generated once) on 4 fixed graphs x every element as origin (quick tier: every node, the oldest and the newest edge) x bfs/dfs x from/to + elements search; one evaluation = one search on the real Db compared with the reference evaluator. distinct_nontrivial = condition lists whose reference selection is a proper non-empty subset of the reachable elements for at least one (graph, origin, search)"));
    report.set("exhaustive", json!(true));
    report.set("grid_corpus_values", json!(values.len()));
    report.set("grid_cells_judged", json!(grid_cells.load(Ordering::SeqCst)));
    report.set("grid_cells_expected_true", json!(grid_true.load(Ordering::SeqCst)));
    report.set("grid_cells_not_judged_undocumented", json!(grid_undefined.load(Ordering::SeqCst)));
    report.set("condition_lists", json!(lists.load(Ordering::SeqCst)));
    report.set("list_searches", json!(searches.load(Ordering::SeqCst)));
    report.set("distinct_outcomes", json!(outcomes.lock().unwrap().len()));
    report.set("searches_whose_reference_depends_on_the_reading_of_an_open_corner", json!(policy_dependent.load(Ordering::SeqCst)));
    report.set("cases_not_judged_documented_ambiguous", json!(*undefined.lock().unwrap()));
    report.set(
        "bounds",
        json!({
            "full_alphabet_atoms": full.iter().map(|a| format!("{a:?}")).collect::<Vec<_>>(),
            "core_alphabet_atoms": core.iter().map(|a| format!("{a:?}")).collect::<Vec<_>>(),
            "modifiers": ["none", "not", "beyond", "not_beyond"], "logic": ["and", "or"],
            "lists": ["length 0, 1, 2 over the full alphabet", "where-group of length 1..2 over the core alphabet, alone, under each modifier"],
            "where_pairs": where_pairs, "length3": length3,
            "graphs": built.iter().map(|b| b.0.clone()).collect::<Vec<_>>(),
        }),
    );
    report.set(
        "excluded_corners",
        json!([
            "beyond/not_beyond joined by `or` (modifier table contradicts the prose): never generated",
            "beyond whose condition fails at the origin: both readings accepted (stops there as queries.md literally says / does not block as the rustdoc of beyond() says)",
            "beyond over a condition that itself evaluates to Stop(true): both readings of `&& Continue(true)` accepted (Stop kept / dropped)",
            "when a distance condition stops the search: any of 4 sound policies accepted (never; false from here on; false beyond here; the former plus Equal(n) at n)",
            "same-type ordering of vectors and bytes: grid cell not judged",
            "starts/ends-with with a LIST operand: judged only where the two readings (the list is a leading/trailing sub-sequence; every listed element matches at the beginning/end) agree, otherwise the grid cell is not judged",
            "distance conditions in elements search: case not judged",
        ]),
    );
    report.set("violating_cases", json!(violating.load(Ordering::SeqCst)));
    report.set("walks_not_used_because_the_plain_traversal_is_wrong", json!(skipped_walks));
    report.assume("selections are compared as sets (order is C14's subject)");
    report.assume("a key-value condition on an element without the key is false for every comparison, including NotEqual (documented: 'has the key and its value satisfies')");
    report.finish()
}
