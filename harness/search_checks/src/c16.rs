//! C16 - limit, offset and ordering slice and sort without failing.
//! Differential: sliced search == slice of the same search without
//! limit/offset; ordered search == stable sort of the unordered search.
//! Exhaustive over a fixed graph family x search kinds/origins x condition
//! variants x order_by lists x the full (offset, limit) grid. See NOTES.md.

use crate::common::*;
use crate::refeval::type_name;
use agdb::{
    CountComparison, DbImpl, DbKeyOrder, DbValue, QueryCondition, QueryConditionData, QueryConditionLogic, QueryConditionModifier, QueryId, SearchQuery,
    SearchQueryAlgorithm, StorageData,
};
use engine::{Args, DistinctCounter, Report};
use serde_json::{Value, json};
use std::cmp::Ordering;
use std::sync::atomic::{AtomicU64, Ordering as AO};

// ---------------------------------------------------------------------------
// graph family

fn shapes() -> Vec<(&'static str, u8, Vec<Op>)> {
    use Op::*;
    vec![
        ("single-node", 1, vec![]),
        ("two-nodes-one-edge", 2, vec![Edge(0, 1)]),
        ("chain-3", 3, vec![Edge(0, 1), Edge(1, 2)]),
        ("star-3", 4, vec![Edge(0, 1), Edge(0, 2), Edge(0, 3)]),
        ("cycle-3", 3, vec![Edge(0, 1), Edge(1, 2), Edge(2, 0)]),
        ("parallel-and-loop", 2, vec![Edge(0, 1), Edge(0, 1), Edge(0, 0)]),
        ("diamond", 4, vec![Edge(0, 1), Edge(0, 2), Edge(1, 3), Edge(2, 3)]),
        ("reused-ids", 3, vec![Edge(0, 1), Edge(1, 2), Edge(0, 2), RemoveEdge(0), RenewNode(1), Edge(0, 1), Edge(1, 2)]),
        // a new node (slot 3) takes the id freed by an edge, then gets edges of its own
        ("edge-id-reused-by-node", 3, vec![Edge(0, 1), Edge(1, 2), RemoveEdge(0), AddNode, Edge(3, 1), Edge(0, 3)]),
    ]
}

fn k(s: &str) -> DbValue {
    DbValue::String(s.to_string())
}

/// property pattern p for the i-th element (nodes by slot, then edges by creation)
fn pattern(p: usize, i: usize) -> Vec<(DbValue, DbValue)> {
    let mut v = vec![];
    match p {
        // ties on k1, k2 missing on every other element
        0 => {
            v.push((k("k1"), DbValue::I64([2, 1, 2, 1, 0, 2, 1, 0][i % 8])));
            if i % 2 == 0 {
                v.push((k("k2"), k(["b", "a", "c"][(i / 2) % 3])));
            }
        }
        // k1 missing on every third element, otherwise descending; k2 two classes
        1 => {
            if i % 3 != 0 {
                v.push((k("k1"), DbValue::I64(5 - i as i64)));
            }
            v.push((k("k2"), DbValue::I64((i % 2) as i64)));
        }
        // k1 of mixed types (and missing), k2 constant: everything ties on k2
        _ => {
            let mixed = [
                Some(DbValue::I64(1)),
                Some(DbValue::U64(1)),
                Some(k("1")),
                Some(DbValue::F64(1.5.into())),
                None,
                Some(DbValue::VecI64(vec![1])),
                Some(DbValue::Bytes(vec![1])),
                Some(DbValue::I64(0)),
            ];
            if let Some(x) = &mixed[i % 8] {
                v.push((k("k1"), x.clone()));
            }
            v.push((k("k2"), DbValue::I64(7)));
        }
    }
    v
}

pub const PATTERNS: usize = 3;

fn family(thorough: bool) -> Vec<(String, GraphSpec)> {
    let mut out = vec![];
    let mut all: Vec<(String, u8, Vec<Op>)> = shapes().into_iter().map(|(n, k, o)| (n.to_string(), k, o)).collect();
    if thorough {
        // every valid history (insertions, removals, renewals) of length <= 3 on two and <= 2 on three node slots
        for (slots, depth) in [(2u8, 3usize), (3, 2)] {
            let alpha = alphabet(slots, depth as u8 - 1, true);
            for_each_history(&alpha, &[], depth, &mut |h| {
                if !h.is_empty() {
                    all.push((format!("history{slots}:{}", h.iter().map(|o| o.text()).collect::<Vec<_>>().join(",")), slots, h.to_vec()));
                }
            });
        }
    }
    for (name, nodes, ops) in all {
        for p in 0..PATTERNS {
            let mut spec = GraphSpec::plain(nodes, &ops);
            // element refs of the live elements: nodes by slot, edges by creation index (those that survive)
            let mut live: Vec<u8> = vec![];
            let mut nth = 0u8;
            let mut created: Vec<(u8, u8, u8)> = vec![]; // (nth, a, b)
            for op in &ops {
                match *op {
                    Op::Edge(a, b) => {
                        created.push((nth, a, b));
                        nth += 1;
                    }
                    Op::RemoveEdge(j) => {
                        created.remove(j as usize);
                    }
                    Op::RenewNode(s) | Op::DropNode(s) => created.retain(|(_, a, b)| *a != s && *b != s),
                    Op::AddNode => {}
                }
            }
            live.extend(created.iter().map(|c| c.0));
            let mut i = 0;
            for s in 0..nodes {
                for (key, val) in pattern(p, i) {
                    spec.props.push((ElemRef::Node(s), key, val));
                }
                i += 1;
            }
            for e in live {
                for (key, val) in pattern(p, i) {
                    spec.props.push((ElemRef::Edge(e), key, val));
                }
                i += 1;
            }
            out.push((format!("{name}/p{p}"), spec));
        }
    }
    out.extend(duplicate_key_graphs());
    out
}

/// Graphs whose elements store the SAME key more than once: a hub node with an
/// edge to each of several nodes that were inserted with a values list
/// repeating a key (new elements are written without replacing). The repeated
/// key (k1) comes before or after the other order key (k2), with equal and
/// with different values. Reading of a repeated key: its FIRST stored
/// occurrence decides (assumption, stated in the evidence).
fn duplicate_key_graphs() -> Vec<(String, GraphSpec)> {
    let i = DbValue::I64;
    let kv = |key: &str, v: i64| (k(key), i(v));
    let sets: Vec<(&str, Vec<Vec<(DbValue, DbValue)>>)> = vec![
        (
            "duplicate-key-before-the-other",
            vec![
                vec![kv("k1", 1), kv("k1", 1), kv("k2", 2)],
                vec![kv("k1", 1), kv("k2", 1)],
                vec![kv("k1", 1), kv("k1", 1), kv("k2", 0)],
                vec![kv("k1", 0), kv("k2", 5)],
                vec![kv("k1", 1)],
                vec![kv("k1", 1), kv("k1", 1), kv("k1", 1), kv("k2", 3)],
            ],
        ),
        (
            "duplicate-key-after-the-other",
            vec![
                vec![kv("k2", 2), kv("k1", 1), kv("k1", 1)],
                vec![kv("k2", 1), kv("k1", 1)],
                vec![kv("k2", 2), kv("k2", 2), kv("k1", 0)],
                vec![kv("k1", 1), kv("k1", 1)],
                vec![kv("k3", 7), kv("k2", 0), kv("k2", 0), kv("k1", 1)],
            ],
        ),
        (
            "duplicate-key-with-different-values",
            vec![
                vec![kv("k1", 1), kv("k1", 2), kv("k2", 3)],
                vec![kv("k1", 2), kv("k1", 1), kv("k2", 1)],
                vec![kv("k1", 1), kv("k2", 2)],
                vec![kv("k1", 2), kv("k2", 0)],
                vec![kv("k2", 1), kv("k2", 4), kv("k1", 1)],
            ],
        ),
    ];
    sets.into_iter()
        .map(|(name, nodes)| {
            let ops: Vec<Op> = (0..nodes.len()).map(|n| Op::Edge(0, 1 + n as u8)).collect();
            (name.to_string(), GraphSpec { nodes: 1, ops, props: vec![], aliases: vec![], valued_nodes: nodes })
        })
        .collect()
}

// ---------------------------------------------------------------------------
// search kinds, conditions, orderings

#[derive(Clone, Debug)]
enum Search {
    Walk(Kind, i64),
    Path(i64, i64),
    Elements,
}

impl Search {
    fn name(&self) -> &'static str {
        match self {
            Search::Walk(k, _) => k.name(),
            Search::Path(..) => "path",
            Search::Elements => "elements",
        }
    }
    fn query(&self) -> SearchQuery {
        match self {
            Search::Walk(k, o) => k.query(*o),
            Search::Path(a, b) => agdb::QueryBuilder::search().from(*a).to(*b).query(),
            Search::Elements => agdb::QueryBuilder::search().elements().query(),
        }
    }
}

fn cond(modifier: QueryConditionModifier, data: QueryConditionData) -> QueryCondition {
    QueryCondition { logic: QueryConditionLogic::And, modifier, data }
}

/// Condition variants. The last three produce Stop (the traversal is pruned at
/// some elements): a handler that loses the Stop of an element inside the
/// skipped offset prefix walks further than the unsliced search.
fn condition_variants(g: &RefGraph) -> Vec<(&'static str, Vec<QueryCondition>)> {
    // "x": the second element examined by most searches is not the origin for most origins: take the last node and the newest edge
    let mut x = vec![QueryId::Id(agdb::DbId(*g.slots.last().unwrap()))];
    if let Some(e) = g.edges.last() {
        x.push(QueryId::Id(agdb::DbId(e.id)));
    }
    vec![
        ("none", vec![]),
        ("node", vec![cond(QueryConditionModifier::None, QueryConditionData::Node)]),
        ("not-keys-k2", vec![cond(QueryConditionModifier::Not, QueryConditionData::Keys(vec![k("k2")]))]),
        ("distance<=2", vec![cond(QueryConditionModifier::None, QueryConditionData::Distance(CountComparison::LessThanOrEqual(2)))]),
        ("not_beyond-keys-k2", vec![cond(QueryConditionModifier::NotBeyond, QueryConditionData::Keys(vec![k("k2")]))]),
        ("not_beyond-ids-x", vec![cond(QueryConditionModifier::NotBeyond, QueryConditionData::Ids(x))]),
        ("beyond-keys-k1", vec![cond(QueryConditionModifier::Beyond, QueryConditionData::Keys(vec![k("k1")]))]),
    ]
}

const CONDITION_VARIANT_NAMES: [&str; 7] = ["none", "node", "not-keys-k2", "distance<=2", "not_beyond-keys-k2", "not_beyond-ids-x", "beyond-keys-k1"];

fn orderings() -> Vec<Vec<DbKeyOrder>> {
    let a = |s: &str| DbKeyOrder::Asc(k(s));
    let d = |s: &str| DbKeyOrder::Desc(k(s));
    vec![
        vec![],
        vec![a("k1")],
        vec![d("k1")],
        vec![a("k2")],
        vec![d("k2")],
        vec![a("k1"), a("k2")],
        vec![a("k1"), d("k2")],
        vec![d("k1"), a("k2")],
        vec![d("k1"), d("k2")],
        vec![a("k2"), a("k1")],
        vec![a("k2"), d("k1")],
        vec![d("k2"), a("k1")],
        vec![d("k2"), d("k1")],
        vec![a("k3")],
        vec![d("k3"), a("k1")],
    ]
}

/// Order of two stored values under one key: natural order between values
/// of one type; between values of different types the statement does not
/// define an order and the public `Ord` of `DbValue` is used (assumption).
fn value_order(l: &DbValue, r: &DbValue) -> Ordering {
    match (l, r) {
        (DbValue::I64(a), DbValue::I64(b)) => a.cmp(b),
        (DbValue::U64(a), DbValue::U64(b)) => a.cmp(b),
        (DbValue::String(a), DbValue::String(b)) => a.as_str().cmp(b.as_str()),
        (DbValue::F64(a), DbValue::F64(b)) => a.to_f64().partial_cmp(&b.to_f64()).unwrap_or(Ordering::Equal),
        _ => l.cmp(r),
    }
}

/// "Ordering by keys is a stable sort by the listed keys in the given
/// directions, with elements lacking a key placed after those that have it."
fn reference_order(g: &RefGraph, order: &[DbKeyOrder], l: i64, r: i64) -> Ordering {
    for o in order {
        let (key, desc) = match o {
            DbKeyOrder::Asc(key) => (key, false),
            DbKeyOrder::Desc(key) => (key, true),
        };
        let ord = match (g.value(l, key), g.value(r, key)) {
            (None, None) => Ordering::Equal,
            (None, Some(_)) => Ordering::Greater,
            (Some(_), None) => Ordering::Less,
            (Some(a), Some(b)) => {
                let o = value_order(a, b);
                if desc { o.reverse() } else { o }
            }
        };
        if ord != Ordering::Equal {
            return ord;
        }
    }
    Ordering::Equal
}

fn order_text(order: &[DbKeyOrder]) -> String {
    if order.is_empty() {
        return "none".into();
    }
    order
        .iter()
        .map(|o| match o {
            DbKeyOrder::Asc(key) => format!("asc({key})"),
            DbKeyOrder::Desc(key) => format!("desc({key})"),
        })
        .collect::<Vec<_>>()
        .join(",")
}

/// expected slice per the statement: positions O..O+L-1 clipped; 0 = no limit / no offset
fn expected_slice(full: &[i64], offset: u64, limit: u64) -> Vec<i64> {
    let start = (offset.min(full.len() as u64)) as usize;
    let rest = &full[start..];
    if limit == 0 { rest.to_vec() } else { rest[..(limit.min(rest.len() as u64)) as usize].to_vec() }
}

pub struct Failure {
    pub signature: String,
    pub what: String,
    pub query: SearchQuery,
    pub expected: Value,
    pub observed: Value,
}

fn where_class(len: usize, offset: u64, limit: u64) -> &'static str {
    let len = len as u64;
    if offset == 0 && limit == 0 {
        "no-slice"
    } else if offset > len {
        "offset-beyond-end"
    } else if limit != 0 && offset.saturating_add(limit) > len {
        "offset+limit-beyond-end"
    } else {
        "inside"
    }
}

/// Checks one (search, conditions, ordering): the unsliced result (ordering
/// clause) and every (offset, limit) of `grid`. Calls `found` per failure.
#[allow(clippy::too_many_arguments)]
fn check_group<S: StorageData>(db: &DbImpl<S>, g: &RefGraph, search: &Search, conds: &[QueryCondition], order: &[DbKeyOrder], pairs: &[(u64, u64)], found: &mut dyn FnMut(Failure)) -> u64 {
    let mut n = 0;
    let mut base = search.query();
    base.conditions = conds.to_vec();
    let ord_class = if order.is_empty() { "none" } else { "keys" };
    // a failed execution is classified by where it failed (file + message), not by the search kind
    // (all kinds share the slicing code); wrong results are classified by search kind
    let sig = |clause: &str, wh: &str| {
        if clause.starts_with("panic:") || clause.starts_with("error:") {
            format!("where={wh}|clause={clause}")
        } else {
            format!("search={}|order={ord_class}|where={wh}|clause={clause}", search.name())
        }
    };
    // the same search without ordering and slicing
    n += 1;
    let unordered = match run_search(db, &base) {
        Outcome::Ids(v) => v,
        other => {
            found(Failure { signature: sig(&other.failure_clause().unwrap(), "no-slice"), what: "plain search failed".into(), query: base.clone(), expected: json!("a result"), observed: other.to_json() });
            return n;
        }
    };
    let mut full_q = base.clone();
    full_q.order_by = order.to_vec();
    let full = if order.is_empty() {
        unordered.clone()
    } else {
        n += 1;
        match run_search(db, &full_q) {
            Outcome::Ids(v) => {
                let mut want = unordered.clone();
                want.sort_by(|l, r| reference_order(g, order, *l, *r)); // stable
                if v != want {
                    found(Failure { signature: sig("ordering", "no-slice"), what: format!("order_by {} is not the stable sort of the unordered result", order_text(order)), query: full_q.clone(), expected: json!({"unordered": unordered, "sorted": want}), observed: json!(v) });
                }
                v
            }
            other => {
                found(Failure { signature: sig(&other.failure_clause().unwrap(), "no-slice"), what: "ordered search failed".into(), query: full_q.clone(), expected: json!("a result"), observed: other.to_json() });
                return n;
            }
        }
    };
    {
        for &(offset, limit) in pairs {
            if offset == 0 && limit == 0 {
                continue;
            }
            let mut q = full_q.clone();
            q.offset = offset;
            q.limit = limit;
            n += 1;
            let want = expected_slice(&full, offset, limit);
            let wh = where_class(full.len(), offset, limit);
            match run_search(db, &q) {
                Outcome::Ids(v) => {
                    if v != want {
                        found(Failure { signature: sig("slice-mismatch", wh), what: format!("offset {offset} limit {limit} of a result of {} elements", full.len()), query: q, expected: json!({"full": full, "slice": want}), observed: json!(v) });
                    }
                }
                other => {
                    found(Failure {
                        signature: sig(&other.failure_clause().unwrap(), wh),
                        what: format!("offset {offset} limit {limit} of a result of {} elements fails instead of returning {} elements", full.len(), want.len()),
                        query: q,
                        expected: json!({"full": full, "slice": want}),
                        observed: other.to_json(),
                    });
                }
            }
        }
    }
    n
}

fn searches_of(g: &RefGraph) -> Vec<Search> {
    let mut v = vec![];
    for o in g.elements() {
        for kind in KINDS {
            v.push(Search::Walk(kind, o));
        }
    }
    for a in &g.slots {
        for b in &g.slots {
            if a != b {
                v.push(Search::Path(*a, *b));
            }
        }
    }
    v.push(Search::Elements);
    v
}

fn grid_for(g: &RefGraph) -> Vec<(u64, u64)> {
    let n = g.elements().len() as u64;
    let mut grid: Vec<u64> = (0..=n + 3).collect();
    grid.push(u64::MAX - 1);
    grid.push(u64::MAX);
    let mut pairs = vec![];
    for o in &grid {
        for l in &grid {
            pairs.push((*o, *l));
        }
    }
    pairs
}

fn replay_value(name: &str, spec: &GraphSpec, g: &RefGraph, f: &Failure) -> Value {
    json!({
        "check": "C16", "graph_name": name, "graph": spec.to_json(), "graph_listing": g.listing(),
        "query": query_json(&f.query), "signature": f.signature, "expected": f.expected, "observed": f.observed,
    })
}

fn search_of_query(q: &SearchQuery) -> Option<Search> {
    let id = |q: &QueryId| match q {
        QueryId::Id(i) => i.0,
        QueryId::Alias(_) => 0,
    };
    if q.algorithm == SearchQueryAlgorithm::Elements {
        return Some(Search::Elements);
    }
    let (o, d) = (id(&q.origin), id(&q.destination));
    if o != 0 && d != 0 {
        return Some(Search::Path(o, d));
    }
    Kind::of(q).map(|(k, o)| Search::Walk(k, o))
}

pub fn replay(args: &Args, path: &str) -> i32 {
    let report = Report::new(args, "model_checking");
    let r = load_replay(path);
    let spec = GraphSpec::from_json(&r["graph"]).unwrap_or_else(|e| engine::machinery_failure(&e));
    let q = query_from_json(&r["query"]).unwrap_or_else(|e| engine::machinery_failure(&e));
    let (db, g) = build_memory(&spec).unwrap_or_else(|e| engine::machinery_failure(&e));
    let search = search_of_query(&q).unwrap_or_else(|| engine::machinery_failure("replay: cannot classify the query"));
    println!("replay C16: graph {}", g.listing());
    println!("query: {}", query_json(&q));
    let mut failures = vec![];
    check_group(&db, &g, &search, &q.conditions, &q.order_by, &[(q.offset, q.limit)], &mut |f| failures.push(f));
    println!("observed: {}", run_search(&db, &q).to_json());
    if failures.is_empty() {
        println!("all clauses hold");
    }
    for f in failures {
        println!("violated: {} ({})", f.signature, f.what);
        println!("expected: {}", f.expected);
        println!("observed: {}", f.observed);
        report.violation(&f.signature, &f.what, replay_value(r["graph_name"].as_str().unwrap_or(""), &spec, &g, &f));
    }
    report.set("evaluations", json!(1));
    report.set("distinct_nontrivial", json!(0));
    report.set("rule", json!("replay of one stored case"));
    finish_replay(&report)
}

pub fn run(args: &Args) -> i32 {
    if let Some(p) = &args.replay {
        return replay(args, p);
    }
    let report = Report::new(args, "model_checking");
    let fam = family(args.tier == engine::Tier::Thorough);
    let orders = orderings();
    // work items: (graph, search index); built per item (cheap)
    let mut items = vec![];
    let mut built = vec![];
    for (name, spec) in &fam {
        let (db, g) = build_memory(spec).unwrap_or_else(|e| engine::machinery_failure(&format!("{name}: {e}")));
        drop(db);
        let ss = searches_of(&g);
        for si in 0..ss.len() {
            items.push((built.len(), si));
        }
        built.push((name.clone(), spec.clone(), g, ss));
    }
    let searches = AtomicU64::new(0);
    let groups = AtomicU64::new(0);
    let violating = AtomicU64::new(0);
    let distinct = DistinctCounter::default();
    let nontrivial = DistinctCounter::default();
    engine::par_for(items.len(), args.seed, |_w, i| {
        let (gi, si) = items[i];
        let (name, spec, _, ss) = &built[gi];
        let (db, g) = build_memory(spec).unwrap_or_else(|e| engine::machinery_failure(&e));
        let grid = grid_for(&g);
        let search = &ss[si];
        let conds = condition_variants(&g);
        let mut seen = std::collections::HashSet::new();
        for (ci, (_, c)) in conds.iter().enumerate() {
            for (oi, order) in orders.iter().enumerate() {
                groups.fetch_add(1, AO::Relaxed);
                let n = check_group(&db, &g, search, c, order, &grid, &mut |f| {
                    violating.fetch_add(1, AO::Relaxed);
                    // the replay document is only built for the first case of a signature seen by this work item
                    let first = seen.insert(f.signature.clone());
                    report.violation(&f.signature, &f.what, if first { replay_value(name, spec, &g, &f) } else { Value::Null });
                });
                searches.fetch_add(n, AO::Relaxed);
                // distinct unsliced results; non-trivial = at least 2 elements (so that order and slices matter)
                let mut q = search.query();
                q.conditions = c.clone();
                q.order_by = order.clone();
                if let Outcome::Ids(v) = run_search(&db, &q) {
                    let key = format!("{gi}|{si}|{ci}|{oi}|{v:?}");
                    distinct.insert(key.as_bytes());
                    if v.len() >= 2 {
                        nontrivial.insert(format!("{gi}|{v:?}").as_bytes());
                    }
                }
            }
        }
    });
    for (name, spec, g, _) in built.iter().take(2) {
        let (db, _) = build_memory(spec).unwrap();
        let mut q = Kind::Bfs.query(g.slots[0]);
        q.order_by = orders[6].clone();
        q.offset = 1;
        q.limit = 2;
        report.sample(json!({"graph": name, "listing": g.listing(), "query": query_json(&q), "result": run_search(&db, &q).to_json()}));
    }
    report.set("evaluations", json!(searches.load(AO::SeqCst)));
    report.set("distinct_nontrivial", json!(nontrivial.len()));
    report.set("rule", json!("graph family (9 shapes [thorough: + every history of length <= 3 on two and <= 2 on three node slots] x 3 property patterns, + 3 graphs whose nodes store a key more than once) x every search kind and origin (bfs/dfs from/to every element, path between every ordered pair of nodes, elements) x 7 condition variants (3 of them prune the traversal: not_beyond keys, not_beyond ids, beyond keys) x 15 order_by lists x every (offset, limit) in ([0..n+3] + {2^64-2, 2^64-1})^2; one evaluation = one search on the real Db. distinct_nontrivial = distinct (graph, unsliced result sequence) with at least 2 elements"));
    report.set("exhaustive", json!(true));
    report.set("graphs", json!(fam.len()));
    report.set("graph_names", json!(fam.iter().map(|f| f.0.clone()).take(40).collect::<Vec<_>>()));
    report.set("condition_variants", json!(CONDITION_VARIANT_NAMES));
    report.set("order_by_lists", json!(orders.iter().map(|o| order_text(o)).collect::<Vec<_>>()));
    report.set("search_groups", json!(groups.load(AO::SeqCst)));
    report.set("distinct_unsliced_results", json!(distinct.len()));
    report.set("violating_cases", json!(violating.load(AO::SeqCst)));
    report.set("types_under_one_key", json!(fam.iter().flat_map(|f| f.1.props.iter().map(|p| type_name(&p.2))).collect::<std::collections::BTreeSet<_>>()));
    report.assume("between stored values of different types under one key the order is the public Ord of DbValue (the statement defines none); within one type the natural order");
    report.assume("an element that stores a key more than once is ordered by the FIRST stored occurrence of that key (nothing documents repeated keys; first occurrence is what a lookup of the key finds)");
    report.assume("limit 0 = unlimited and offset 0 = none, as documented");
    report.finish()
}
