//! Independent reference evaluators, written from the documentation
//! (/repo/agdb_web/content/docs/03.references/01.queries.md, sections Search,
//! Breadth First, Depth First, Paths, Conditions, Truth tables) and from the
//! property statements. Nothing here calls into the search code of agdb; the
//! agdb types used are the *query language* (`QueryCondition`, `Comparison`,
//! `DbValue`, ...).

use crate::common::{Kind, RefGraph};
use agdb::{Comparison, CountComparison, DbValue, QueryCondition, QueryConditionData, QueryConditionLogic, QueryConditionModifier, QueryId};
use std::cmp::Ordering;
use std::collections::BTreeSet;

// ---------------------------------------------------------------------------
// value comparison (type-strict)

pub fn type_name(v: &DbValue) -> &'static str {
    match v {
        DbValue::Bytes(_) => "bytes",
        DbValue::I64(_) => "i64",
        DbValue::U64(_) => "u64",
        DbValue::F64(_) => "f64",
        DbValue::String(_) => "string",
        DbValue::VecI64(_) => "vec_i64",
        DbValue::VecU64(_) => "vec_u64",
        DbValue::VecF64(_) => "vec_f64",
        DbValue::VecString(_) => "vec_string",
    }
}

pub fn comparison_name(c: &Comparison) -> &'static str {
    match c {
        Comparison::Equal(_) => "eq",
        Comparison::GreaterThan(_) => "gt",
        Comparison::GreaterThanOrEqual(_) => "ge",
        Comparison::LessThan(_) => "lt",
        Comparison::LessThanOrEqual(_) => "le",
        Comparison::NotEqual(_) => "ne",
        Comparison::Contains(_) => "contains",
        Comparison::StartsWith(_) => "starts_with",
        Comparison::EndsWith(_) => "ends_with",
    }
}

pub fn comparison_operand(c: &Comparison) -> &DbValue {
    match c {
        Comparison::Equal(v)
        | Comparison::GreaterThan(v)
        | Comparison::GreaterThanOrEqual(v)
        | Comparison::LessThan(v)
        | Comparison::LessThanOrEqual(v)
        | Comparison::NotEqual(v)
        | Comparison::Contains(v)
        | Comparison::StartsWith(v)
        | Comparison::EndsWith(v) => v,
    }
}

/// Natural order between two values of the SAME scalar type. `None` when the
/// types differ or the documentation defines no order (vectors, bytes; NaN).
fn scalar_order(stored: &DbValue, operand: &DbValue) -> Option<Ordering> {
    match (stored, operand) {
        (DbValue::I64(a), DbValue::I64(b)) => Some(a.cmp(b)),
        (DbValue::U64(a), DbValue::U64(b)) => Some(a.cmp(b)),
        (DbValue::F64(a), DbValue::F64(b)) => a.to_f64().partial_cmp(&b.to_f64()),
        (DbValue::String(a), DbValue::String(b)) => Some(a.as_str().cmp(b.as_str())),
        _ => None,
    }
}

fn same_type(a: &DbValue, b: &DbValue) -> bool {
    type_name(a) == type_name(b)
}

/// structural equality of two values of the same type, written out (not `==` of DbValue)
fn equal_values(a: &DbValue, b: &DbValue) -> bool {
    match (a, b) {
        (DbValue::Bytes(x), DbValue::Bytes(y)) => x == y,
        (DbValue::I64(x), DbValue::I64(y)) => x == y,
        (DbValue::U64(x), DbValue::U64(y)) => x == y,
        (DbValue::F64(x), DbValue::F64(y)) => x.to_f64() == y.to_f64(),
        (DbValue::String(x), DbValue::String(y)) => x == y,
        (DbValue::VecI64(x), DbValue::VecI64(y)) => x == y,
        (DbValue::VecU64(x), DbValue::VecU64(y)) => x == y,
        (DbValue::VecF64(x), DbValue::VecF64(y)) => x.len() == y.len() && x.iter().zip(y).all(|(p, q)| p.to_f64() == q.to_f64()),
        (DbValue::VecString(x), DbValue::VecString(y)) => x == y,
        _ => false,
    }
}

fn f64s(v: &[agdb::DbF64]) -> Vec<f64> {
    v.iter().map(|x| x.to_f64()).collect()
}

/// `Some(b)`: the documentation determines the answer. `None`: it does not
/// (same-type ordering of vectors/bytes; starts/ends-with of a string against
/// a list of strings) - such cells are not judged.
///
/// Rules (queries.md "Conditions": "The condition comparators are type strict
/// ... Slight exception ... Contains ... allows vectorized version of the base
/// type ... StartsWith and EndsWith ... same semantics"; statement of C15):
///  * Equal: same type and equal. NotEqual: negation of Equal.
///  * >, >=, <, <=: same type and the natural order holds.
///  * Contains: string/substring; string/all listed substrings; list/element;
///    list/all listed elements; anything else false (bytes, scalars, other types).
///  * Contains with a list operand is element-wise ("vectorized version of the base
///    type", documented example `Contains(vec!["bc","ef"])` on "abcdefg"): every
///    listed element must be contained; repetitions and the length of the list do
///    not matter, the empty list is contained in everything of a matching type.
///  * StartsWith/EndsWith: string/prefix(suffix); list/first(last) element; with a
///    list operand judged only where "the list is a leading(trailing) sub-sequence"
///    and "every listed element matches at the beginning(end)" agree; anything else false.
pub fn ref_compare(cmp: &Comparison, stored: &DbValue) -> Option<bool> {
    let operand = comparison_operand(cmp);
    match cmp {
        Comparison::Equal(_) => Some(same_type(stored, operand) && equal_values(stored, operand)),
        Comparison::NotEqual(_) => Some(!(same_type(stored, operand) && equal_values(stored, operand))),
        Comparison::GreaterThan(_) | Comparison::GreaterThanOrEqual(_) | Comparison::LessThan(_) | Comparison::LessThanOrEqual(_) => {
            if !same_type(stored, operand) {
                return Some(false);
            }
            let ord = scalar_order(stored, operand)?;
            Some(match cmp {
                Comparison::GreaterThan(_) => ord == Ordering::Greater,
                Comparison::GreaterThanOrEqual(_) => ord != Ordering::Less,
                Comparison::LessThan(_) => ord == Ordering::Less,
                _ => ord != Ordering::Greater,
            })
        }
        Comparison::Contains(_) => Some(match (stored, operand) {
            (DbValue::String(s), DbValue::String(o)) => s.contains(o.as_str()),
            (DbValue::String(s), DbValue::VecString(o)) => o.iter().all(|x| s.contains(x.as_str())),
            (DbValue::VecI64(s), DbValue::I64(o)) => s.iter().any(|x| x == o),
            (DbValue::VecI64(s), DbValue::VecI64(o)) => o.iter().all(|x| s.iter().any(|y| y == x)),
            (DbValue::VecU64(s), DbValue::U64(o)) => s.iter().any(|x| x == o),
            (DbValue::VecU64(s), DbValue::VecU64(o)) => o.iter().all(|x| s.iter().any(|y| y == x)),
            (DbValue::VecF64(s), DbValue::F64(o)) => f64s(s).iter().any(|x| *x == o.to_f64()),
            (DbValue::VecF64(s), DbValue::VecF64(o)) => f64s(o).iter().all(|x| f64s(s).iter().any(|y| y == x)),
            (DbValue::VecString(s), DbValue::String(o)) => s.iter().any(|x| x == o),
            (DbValue::VecString(s), DbValue::VecString(o)) => o.iter().all(|x| s.iter().any(|y| y == x)),
            _ => false,
        }),
        Comparison::StartsWith(_) | Comparison::EndsWith(_) => {
            let start = matches!(cmp, Comparison::StartsWith(_));
            fn affix<T: PartialEq>(s: &[T], o: &[T], start: bool) -> bool {
                if o.len() > s.len() {
                    return false;
                }
                if start { s[..o.len()] == *o } else { s[s.len() - o.len()..] == *o }
            }
            // A list operand ("vectorized") can be read in two ways: the list as a sequence
            // must be a prefix/suffix (what slices and concatenated strings do), or - "the same
            // semantics as Contains" - every listed element on its own must match at the
            // beginning/end. Where the two readings disagree the cell is not judged.
            fn agree(a: bool, b: bool) -> Option<bool> {
                if a == b { Some(a) } else { None }
            }
            fn list_affix<T: PartialEq>(s: &[T], o: &[T], start: bool) -> Option<bool> {
                let edge = if start { s.first() } else { s.last() };
                agree(affix(s, o, start), o.iter().all(|x| Some(x) == edge))
            }
            match (stored, operand) {
                (DbValue::String(s), DbValue::String(o)) => Some(if start { s.starts_with(o.as_str()) } else { s.ends_with(o.as_str()) }),
                (DbValue::String(s), DbValue::VecString(o)) => {
                    let joined = o.concat();
                    let sequence = if start { s.starts_with(joined.as_str()) } else { s.ends_with(joined.as_str()) };
                    let each = o.iter().all(|x| if start { s.starts_with(x.as_str()) } else { s.ends_with(x.as_str()) });
                    agree(sequence, each)
                }
                (DbValue::VecI64(s), DbValue::I64(o)) => Some(affix(s, &[*o], start)),
                (DbValue::VecI64(s), DbValue::VecI64(o)) => list_affix(s, o, start),
                (DbValue::VecU64(s), DbValue::U64(o)) => Some(affix(s, &[*o], start)),
                (DbValue::VecU64(s), DbValue::VecU64(o)) => list_affix(s, o, start),
                (DbValue::VecF64(s), DbValue::F64(o)) => Some(affix(&f64s(s), &[o.to_f64()], start)),
                (DbValue::VecF64(s), DbValue::VecF64(o)) => list_affix(&f64s(s), &f64s(o), start),
                (DbValue::VecString(s), DbValue::String(o)) => Some(affix(s, std::slice::from_ref(o), start)),
                (DbValue::VecString(s), DbValue::VecString(o)) => list_affix(s, o, start),
                _ => Some(false),
            }
        }
    }
}

pub fn count_holds(c: &CountComparison, left: u64) -> bool {
    match c {
        CountComparison::Equal(n) => left == *n,
        CountComparison::GreaterThan(n) => left > *n,
        CountComparison::GreaterThanOrEqual(n) => left >= *n,
        CountComparison::LessThan(n) => left < *n,
        CountComparison::LessThanOrEqual(n) => left <= *n,
        CountComparison::NotEqual(n) => left != *n,
    }
}

// ---------------------------------------------------------------------------
// control values and the documented tables

#[derive(Clone, Copy, Debug, PartialEq, Eq)]
pub enum Ctl {
    Continue,
    Stop,
}

/// `SearchControl` without `Finish` (only produced by limit/offset)
#[derive(Clone, Copy, Debug, PartialEq, Eq)]
pub struct Ev {
    pub ctl: Ctl,
    pub sel: bool,
}

/// Truth table "And": Continue/Continue -> Continue, anything with Stop -> Stop; booleans and-ed.
fn table_and(l: Ev, r: Ev) -> Ev {
    let ctl = if l.ctl == Ctl::Stop || r.ctl == Ctl::Stop { Ctl::Stop } else { Ctl::Continue };
    Ev { ctl, sel: l.sel && r.sel }
}

/// Truth table "Or": Stop only if both are Stop; booleans or-ed.
fn table_or(l: Ev, r: Ev) -> Ev {
    let ctl = if l.ctl == Ctl::Stop && r.ctl == Ctl::Stop { Ctl::Stop } else { Ctl::Continue };
    Ev { ctl, sel: l.sel || r.sel }
}

/// Why a case is not judged at all
#[derive(Clone, Copy, Debug, PartialEq, Eq, Hash, PartialOrd, Ord)]
pub enum Undefined {
    /// `beyond`/`not_beyond` joined by `or`: the modifier table yields a
    /// selection of `true`, the prose says the modifiers never change selection
    TraversalModifierWithOr,
    /// comparison cell the documentation does not define
    ComparisonCell,
    /// distance condition in a search kind where "distance" is not defined
    DistanceUndefinedHere,
}

impl Undefined {
    pub fn name(&self) -> &'static str {
        match self {
            Undefined::TraversalModifierWithOr => "beyond-or-not_beyond-joined-by-or",
            Undefined::ComparisonCell => "undocumented-comparison-cell",
            Undefined::DistanceUndefinedHere => "distance-undefined-for-this-search",
        }
    }
}

/// When may a `distance` condition stop the search? The documentation only
/// says that it can ("Results" table; "can limit the depth of the search"),
/// not when. Every policy below is sound (stops only where no deeper element
/// reached through this one could satisfy the comparison, except `Never`
/// which never stops); a result is accepted if it matches ANY of them.
#[derive(Clone, Copy, Debug, PartialEq, Eq)]
pub enum DistancePolicy {
    Never,
    /// stop iff the comparison is false here and at every greater distance
    FalseFromHere,
    /// stop iff the comparison is false at every greater distance
    FalseBeyond,
    /// FalseFromHere, and Equal(n) also stops at n
    FalseFromHereEqualAtMatch,
}

pub const DISTANCE_POLICIES: [DistancePolicy; 4] =
    [DistancePolicy::FalseFromHereEqualAtMatch, DistancePolicy::Never, DistancePolicy::FalseFromHere, DistancePolicy::FalseBeyond];

fn false_from(c: &CountComparison, d: u64) -> bool {
    match c {
        CountComparison::Equal(n) => d > *n,
        CountComparison::LessThan(n) => d >= *n,
        CountComparison::LessThanOrEqual(n) => d > *n,
        CountComparison::GreaterThan(_) | CountComparison::GreaterThanOrEqual(_) | CountComparison::NotEqual(_) => false,
    }
}

fn distance_stops(p: DistancePolicy, c: &CountComparison, d: u64) -> bool {
    match p {
        DistancePolicy::Never => false,
        DistancePolicy::FalseFromHere => false_from(c, d),
        DistancePolicy::FalseBeyond => false_from(c, d + 1),
        DistancePolicy::FalseFromHereEqualAtMatch => false_from(c, d) || matches!(c, CountComparison::Equal(n) if *n == d),
    }
}

pub fn has_distance(conds: &[QueryCondition]) -> bool {
    conds.iter().any(|c| match &c.data {
        QueryConditionData::Distance(_) => true,
        QueryConditionData::Where(inner) => has_distance(inner),
        _ => false,
    })
}

fn has_beyond(conds: &[QueryCondition]) -> bool {
    conds.iter().any(|c| c.modifier == QueryConditionModifier::Beyond || matches!(&c.data, QueryConditionData::Where(inner) if has_beyond(inner)))
}

/// `beyond` directly over a condition that can itself evaluate to Stop (distance, nested where)
fn has_beyond_over_stoppable(conds: &[QueryCondition]) -> bool {
    conds.iter().any(|c| {
        (c.modifier == QueryConditionModifier::Beyond && matches!(&c.data, QueryConditionData::Distance(_) | QueryConditionData::Where(_)))
            || matches!(&c.data, QueryConditionData::Where(inner) if has_beyond_over_stoppable(inner))
    })
}

/// One consistent way of reading the corners the documentation leaves open.
/// A result is accepted if it is the reference result under ANY reading, so
/// that no documented-conformant implementation is flagged:
///  * when a `distance` condition stops the search (see `DistancePolicy`);
///  * `beyond` whose condition fails at the origin: queries.md is silent
///    (literally the search would stop at the origin), the rustdoc of
///    `beyond()` says it "does not block traversal from the starting element";
///  * `beyond` over a condition that itself evaluates to Stop(true): the
///    modifier table's `&& Continue(true)` can be read as keeping the Stop
///    (Stop && Continue = Stop) or as replacing the control by Continue.
#[derive(Clone, Copy, Debug, PartialEq, Eq)]
pub struct Readings {
    pub distance: DistancePolicy,
    pub beyond_blocks_at_origin: bool,
    pub beyond_keeps_inner_stop: bool,
}

pub const PLAIN_READING: Readings = Readings { distance: DistancePolicy::FalseFromHereEqualAtMatch, beyond_blocks_at_origin: false, beyond_keeps_inner_stop: false };

/// the readings that can make a difference for this condition list
pub fn readings_for(conds: &[QueryCondition]) -> Vec<Readings> {
    let distances: &[DistancePolicy] = if has_distance(conds) { &DISTANCE_POLICIES } else { &DISTANCE_POLICIES[..1] };
    let origin: &[bool] = if has_beyond(conds) { &[false, true] } else { &[false] };
    let inner: &[bool] = if has_beyond_over_stoppable(conds) { &[false, true] } else { &[false] };
    let mut v = vec![];
    for d in distances {
        for o in origin {
            for i in inner {
                v.push(Readings { distance: *d, beyond_blocks_at_origin: *o, beyond_keeps_inner_stop: *i });
            }
        }
    }
    v
}

pub struct EvalCtx<'a> {
    pub g: &'a RefGraph,
    pub readings: Readings,
    /// None: the search kind has no notion of distance (elements search)
    pub distance: Option<u64>,
}

fn eval_data(ctx: &EvalCtx, id: i64, data: &QueryConditionData) -> Result<Ev, Undefined> {
    let cont = |b: bool| Ok(Ev { ctl: Ctl::Continue, sel: b });
    let g = ctx.g;
    match data {
        QueryConditionData::Distance(c) => {
            let d = ctx.distance.ok_or(Undefined::DistanceUndefinedHere)?;
            Ok(Ev { ctl: if distance_stops(ctx.readings.distance, c, d) { Ctl::Stop } else { Ctl::Continue }, sel: count_holds(c, d) })
        }
        QueryConditionData::Edge => cont(id < 0),
        QueryConditionData::Node => cont(id > 0),
        // "if the element is a node and total number of edges (in and out) satisfies ...
        //  - self-referential edges are counted twice"
        QueryConditionData::EdgeCount(c) => cont(id > 0 && count_holds(c, (g.out_edges(id).len() + g.in_edges(id).len()) as u64)),
        QueryConditionData::EdgeCountFrom(c) => cont(id > 0 && count_holds(c, g.out_edges(id).len() as u64)),
        QueryConditionData::EdgeCountTo(c) => cont(id > 0 && count_holds(c, g.in_edges(id).len() as u64)),
        QueryConditionData::Ids(ids) => cont(ids.iter().any(|q| match q {
            QueryId::Id(i) => i.0 == id,
            QueryId::Alias(a) => g.aliases.get(a) == Some(&id),
        })),
        QueryConditionData::KeyValue(kv) => match g.value(id, &kv.key) {
            None => cont(false),
            Some(v) => cont(ref_compare(&kv.value, v).ok_or(Undefined::ComparisonCell)?),
        },
        QueryConditionData::Keys(keys) => cont(keys.iter().all(|k| g.value(id, k).is_some())),
        QueryConditionData::Where(inner) => eval_conditions(ctx, id, inner),
    }
}

/// "The conditions are applied one at a time to each visited element and
/// chained using logic operators", starting from `Continue(true)`.
pub fn eval_conditions(ctx: &EvalCtx, id: i64, conds: &[QueryCondition]) -> Result<Ev, Undefined> {
    let mut result = Ev { ctl: Ctl::Continue, sel: true };
    for c in conds {
        let inner = eval_data(ctx, id, &c.data)?;
        let traversal_only = matches!(c.modifier, QueryConditionModifier::Beyond | QueryConditionModifier::NotBeyond);
        if traversal_only && c.logic == QueryConditionLogic::Or {
            return Err(Undefined::TraversalModifierWithOr);
        }
        // Modifier table
        let modified = match c.modifier {
            QueryConditionModifier::None => inner,
            QueryConditionModifier::Not => Ev { ctl: inner.ctl, sel: !inner.sel },
            QueryConditionModifier::Beyond => {
                if inner.sel {
                    // `&& Continue(true)`
                    let keep = inner.ctl == Ctl::Stop && ctx.readings.beyond_keeps_inner_stop;
                    Ev { ctl: if keep { Ctl::Stop } else { Ctl::Continue }, sel: true }
                } else if ctx.distance == Some(0) && !ctx.readings.beyond_blocks_at_origin {
                    Ev { ctl: Ctl::Continue, sel: true }
                } else {
                    Ev { ctl: Ctl::Stop, sel: true } // `Stop(true)`
                }
            }
            QueryConditionModifier::NotBeyond => {
                if inner.sel {
                    Ev { ctl: Ctl::Stop, sel: true } // `&& Stop(true)`
                } else {
                    Ev { ctl: Ctl::Continue, sel: true } // `Continue(true)`
                }
            }
        };
        result = match c.logic {
            QueryConditionLogic::And => table_and(result, modified),
            QueryConditionLogic::Or => table_or(result, modified),
        };
    }
    Ok(result)
}

// ---------------------------------------------------------------------------
// reference traversals

/// successors of `id` in the examined direction, in documented order
fn successors(g: &RefGraph, id: i64, reverse: bool) -> Vec<i64> {
    if id > 0 {
        if reverse { g.in_edges(id).iter().map(|e| e.id).collect() } else { g.out_edges(id).iter().map(|e| e.id).collect() }
    } else {
        match g.edge(id) {
            Some(e) => vec![if reverse { e.from } else { e.to }],
            None => vec![],
        }
    }
}

/// One examined element of the reference traversal
#[derive(Clone, Copy, Debug, PartialEq, Eq)]
pub struct Visit {
    pub id: i64,
    pub distance: u64,
    pub selected: bool,
}

/// Reference traversal with conditions. Every element is examined at most
/// once ("Elements will never be examined twice during any search"); an
/// element whose conditions evaluate to Stop is not expanded.
/// BFS: level by level, a node's edges newest first. DFS: recursive
/// pre-order, a node's edges newest first.
pub fn ref_traverse(g: &RefGraph, origin: i64, kind: Kind, conds: &[QueryCondition], readings: Readings) -> Result<Vec<Visit>, Undefined> {
    let mut visited: BTreeSet<i64> = BTreeSet::new();
    let mut out = vec![];
    if !g.exists(origin) {
        return Ok(out);
    }
    let reverse = kind.is_reverse();
    let examine = |id: i64, d: u64, out: &mut Vec<Visit>| -> Result<bool, Undefined> {
        let ev = eval_conditions(&EvalCtx { g, readings, distance: Some(d) }, id, conds)?;
        out.push(Visit { id, distance: d, selected: ev.sel });
        Ok(ev.ctl == Ctl::Continue)
    };
    if kind.is_dfs() {
        // explicit stack of (id, distance); children pushed in reverse so that the newest is examined first
        let mut stack = vec![(origin, 0u64)];
        while let Some((id, d)) = stack.pop() {
            if !visited.insert(id) {
                continue;
            }
            if examine(id, d, &mut out)? {
                for s in successors(g, id, reverse).into_iter().rev() {
                    stack.push((s, d + 1));
                }
            }
        }
    } else {
        let mut queue = std::collections::VecDeque::from(vec![(origin, 0u64)]);
        while let Some((id, d)) = queue.pop_front() {
            if !visited.insert(id) {
                continue;
            }
            if examine(id, d, &mut out)? {
                for s in successors(g, id, reverse) {
                    queue.push_back((s, d + 1));
                }
            }
        }
    }
    Ok(out)
}

pub fn selected(visits: &[Visit]) -> Vec<i64> {
    visits.iter().filter(|v| v.selected).map(|v| v.id).collect()
}

// ---------------------------------------------------------------------------
// reference for path search

#[derive(Clone, Copy, Debug, PartialEq, Eq)]
pub enum Usable {
    /// passes the conditions: cost 1, listed in the result
    Pass,
    /// fails the conditions: cost 2, not listed
    Fail,
    /// the conditions stop the search here: cannot be used
    Stop,
}

pub fn usability(g: &RefGraph, id: i64, is_origin: bool, conds: &[QueryCondition], readings: Readings) -> Result<Usable, Undefined> {
    let ctx = EvalCtx { g, readings, distance: Some(if is_origin { 0 } else { 1 }) };
    let ev = eval_conditions(&ctx, id, conds)?;
    Ok(match (ev.ctl, ev.sel) {
        (Ctl::Stop, _) => Usable::Stop,
        (Ctl::Continue, true) => Usable::Pass,
        (Ctl::Continue, false) => Usable::Fail,
    })
}

pub struct PathReference {
    /// minimal cost over all usable paths (origin not counted: it is on every path); None = no usable path
    pub min_cost: Option<u64>,
    /// for every usable path of minimal cost: its elements that pass the conditions
    pub acceptable: BTreeSet<Vec<i64>>,
    pub usable_paths: u64,
}

/// Brute force over all directed paths origin -> destination that visit no
/// node twice (costs are positive, so a minimum-cost path never repeats a node).
pub fn ref_paths(g: &RefGraph, origin: i64, destination: i64, conds: &[QueryCondition], readings: Readings) -> Result<PathReference, Undefined> {
    let mut r = PathReference { min_cost: None, acceptable: BTreeSet::new(), usable_paths: 0 };
    if origin == destination || !g.is_node(origin) || !g.is_node(destination) {
        return Ok(r);
    }
    // usability of every element
    let mut us = std::collections::BTreeMap::new();
    for id in g.elements() {
        us.insert(id, usability(g, id, id == origin, conds, readings)?);
    }
    if us[&origin] == Usable::Stop {
        return Ok(r);
    }
    fn cost(u: Usable) -> u64 {
        if u == Usable::Pass { 1 } else { 2 }
    }
    struct Walk<'a> {
        g: &'a RefGraph,
        us: &'a std::collections::BTreeMap<i64, Usable>,
        dest: i64,
        r: &'a mut PathReference,
        path: Vec<i64>,
        on_path: Vec<i64>,
    }
    fn walk(w: &mut Walk, node: i64, cost_so_far: u64) {
        if node == w.dest {
            w.r.usable_paths += 1;
            let listed: Vec<i64> = w.path.iter().copied().filter(|id| w.us[id] == Usable::Pass).collect();
            match w.r.min_cost {
                Some(m) if cost_so_far > m => {}
                Some(m) if cost_so_far == m => {
                    w.r.acceptable.insert(listed);
                }
                _ => {
                    w.r.min_cost = Some(cost_so_far);
                    w.r.acceptable.clear();
                    w.r.acceptable.insert(listed);
                }
            }
            return;
        }
        let edges: Vec<(i64, i64)> = w.g.out_edges(node).iter().map(|e| (e.id, e.to)).collect();
        for (e, to) in edges {
            if w.us[&e] == Usable::Stop || w.us[&to] == Usable::Stop || w.on_path.contains(&to) {
                continue;
            }
            w.path.push(e);
            w.path.push(to);
            w.on_path.push(to);
            let c = cost_so_far + cost(w.us[&e]) + cost(w.us[&to]);
            walk(w, to, c);
            w.on_path.pop();
            w.path.pop();
            w.path.pop();
        }
    }
    let mut w = Walk { g, us: &us, dest: destination, r: &mut r, path: vec![origin], on_path: vec![origin] };
    walk(&mut w, origin, 0);
    Ok(r)
}
