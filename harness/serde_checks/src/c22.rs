//! C22 — user types stored with the derive macros read back unchanged; an
//! update through the id field updates exactly that element.
//! Exhaustive grid per user type (types::user), single inserts, batches of 3,
//! update of one element of three with bystander elements.

use crate::grid::*;
use crate::types::user::*;
use crate::types::{Attribute, Gap, GenericValue, OneTuple, Pair, Priority, ReprU8, Status, Tuple5};
use crate::viol::Collector;
use agdb::{DbAny, DbElement, DbError, DbId, DbType, QueryBuilder, QueryId, QueryResult};
use engine::{Args, DistinctCounter, Report, Scratch, catch, par_for};
use serde_json::{Value, json};
use std::fmt::Debug;
use std::net::{IpAddr, SocketAddr};
use std::path::PathBuf;
use std::sync::atomic::{AtomicU64, Ordering};
use std::time::SystemTime;

pub const CAP_PER_TYPE_QUICK: usize = 1200;
pub const CAP_PER_TYPE_THOROUGH: usize = 20_000;

pub trait UserCase: DbType<ValueType = Self> + Clone + Debug + Sized {
    const NAME: &'static str;
    const HAS_ID: bool;
    /// values as the user builds them (id unset)
    fn grid(b: usize) -> Vec<Self>;
    /// the same value addressed to element `id` (no-op without id field)
    fn with_id(&self, id: DbId) -> Self;
    /// what a read of element `id` must yield after storing `self`
    fn expected(&self, id: DbId) -> Self {
        self.with_id(id)
    }
    fn same(&self, other: &Self) -> bool;
    /// `self` with every optional field that is `None` taken from `old`
    /// (what the element holds if an omitted `None` leaves the old property behind)
    fn none_from(&self, _old: &Self) -> Self {
        self.clone()
    }
}

/// product of per-field grids -> constructor
macro_rules! field_product {
    ($b:expr; $($f:ident : $t:ty),+ ; $ctor:expr) => {{
        let budget: usize = $b;
        $( let $f: Vec<$t> = <$t as Grid>::grid(fb(budget)); )+
        let lens: Vec<usize> = vec![$($f.len()),+];
        let mut out = Vec::new();
        for idx in index_tuples(&lens, budget) {
            let mut _k = 0usize;
            $( let $f = { let v = $f[idx[_k]].clone(); _k += 1; v }; )+
            out.push($ctor);
        }
        out
    }};
}

macro_rules! same_fields {
    ($a:expr, $b:expr; $($f:ident),+) => { true $( && $a.$f.bit_eq(&$b.$f) )+ };
}

impl UserCase for Plain {
    const NAME: &'static str = "Plain";
    const HAS_ID: bool = false;
    fn grid(b: usize) -> Vec<Self> {
        field_product!(b; name: String, age: u64; Plain { name, age })
    }
    fn with_id(&self, _: DbId) -> Self {
        self.clone()
    }
    fn same(&self, o: &Self) -> bool {
        self == o
    }
}

impl UserCase for WithId {
    const NAME: &'static str = "WithId";
    const HAS_ID: bool = true;
    fn grid(b: usize) -> Vec<Self> {
        field_product!(b; name: String, age: u64; WithId { db_id: None, name, age })
    }
    fn with_id(&self, id: DbId) -> Self {
        WithId { db_id: Some(id), ..self.clone() }
    }
    fn same(&self, o: &Self) -> bool {
        self == o
    }
}

impl UserCase for WithQueryId {
    const NAME: &'static str = "WithQueryId";
    const HAS_ID: bool = true;
    fn grid(b: usize) -> Vec<Self> {
        field_product!(b; name: String, age: i64; WithQueryId { db_id: None, name, age })
    }
    fn with_id(&self, id: DbId) -> Self {
        WithQueryId { db_id: Some(QueryId::Id(id)), ..self.clone() }
    }
    fn same(&self, o: &Self) -> bool {
        self == o
    }
}

impl UserCase for WithPlainId {
    const NAME: &'static str = "WithPlainId";
    const HAS_ID: bool = true;
    fn grid(b: usize) -> Vec<Self> {
        field_product!(b; name: String, tags: Vec<String>; WithPlainId { db_id: DbId(0), name, tags })
    }
    fn with_id(&self, id: DbId) -> Self {
        WithPlainId { db_id: id, ..self.clone() }
    }
    fn same(&self, o: &Self) -> bool {
        self == o
    }
}

impl UserCase for AllScalars {
    const NAME: &'static str = "AllScalars";
    const HAS_ID: bool = true;
    fn grid(b: usize) -> Vec<Self> {
        field_product!(b; bytes: Vec<u8>, u64: u64, u32: u32, i64: i64, i32: i32, f64: f64, f32: f32, string: String, flag: bool;
            AllScalars { db_id: None, bytes, u64, u32, i64, i32, f64, f32, string, flag })
    }
    fn with_id(&self, id: DbId) -> Self {
        AllScalars { db_id: Some(id), ..self.clone() }
    }
    fn same(&self, o: &Self) -> bool {
        same_fields!(self, o; db_id, bytes, u64, u32, i64, i32, f64, f32, string, flag)
    }
}

impl UserCase for AllVecs {
    const NAME: &'static str = "AllVecs";
    const HAS_ID: bool = true;
    fn grid(b: usize) -> Vec<Self> {
        field_product!(b; vec_u64: Vec<u64>, vec_u32: Vec<u32>, vec_i64: Vec<i64>, vec_i32: Vec<i32>, vec_f64: Vec<f64>, vec_f32: Vec<f32>, vec_string: Vec<String>, vec_bool: Vec<bool>;
            AllVecs { db_id: None, vec_u64, vec_u32, vec_i64, vec_i32, vec_f64, vec_f32, vec_string, vec_bool })
    }
    fn with_id(&self, id: DbId) -> Self {
        AllVecs { db_id: Some(id), ..self.clone() }
    }
    fn same(&self, o: &Self) -> bool {
        same_fields!(self, o; db_id, vec_u64, vec_u32, vec_i64, vec_i32, vec_f64, vec_f32, vec_string, vec_bool)
    }
}

impl UserCase for WithOption {
    const NAME: &'static str = "WithOption";
    const HAS_ID: bool = true;
    fn grid(b: usize) -> Vec<Self> {
        field_product!(b; name: String, value: Option<u64>, text: Option<String>, list: Option<Vec<i64>>; WithOption { db_id: None, name, value, text, list })
    }
    fn with_id(&self, id: DbId) -> Self {
        WithOption { db_id: Some(id), ..self.clone() }
    }
    fn same(&self, o: &Self) -> bool {
        self == o
    }
    fn none_from(&self, old: &Self) -> Self {
        WithOption { db_id: self.db_id, name: self.name.clone(), value: self.value.or(old.value), text: self.text.clone().or(old.text.clone()), list: self.list.clone().or(old.list.clone()) }
    }
}

impl UserCase for WithCustom {
    const NAME: &'static str = "WithCustom";
    const HAS_ID: bool = true;
    fn grid(b: usize) -> Vec<Self> {
        field_product!(b; status: Status, attr: Attribute, statuses: Vec<Status>, attrs: Vec<Attribute>, opt: Option<Status>; WithCustom { db_id: None, status, attr, statuses, attrs, opt })
    }
    fn with_id(&self, id: DbId) -> Self {
        WithCustom { db_id: Some(id), ..self.clone() }
    }
    fn same(&self, o: &Self) -> bool {
        same_fields!(self, o; db_id, status, attr, statuses, attrs, opt)
    }
    fn none_from(&self, old: &Self) -> Self {
        WithCustom { opt: self.opt.clone().or(old.opt.clone()), ..self.clone() }
    }
}

impl UserCase for Flattened {
    const NAME: &'static str = "Flattened";
    const HAS_ID: bool = true;
    fn grid(b: usize) -> Vec<Self> {
        field_product!(b; category: String, inner: Plain; Flattened { db_id: None, category, inner })
    }
    fn with_id(&self, id: DbId) -> Self {
        Flattened { db_id: Some(id), ..self.clone() }
    }
    fn same(&self, o: &Self) -> bool {
        self == o
    }
}

impl UserCase for Renamed {
    const NAME: &'static str = "Renamed";
    const HAS_ID: bool = true;
    fn grid(b: usize) -> Vec<Self> {
        field_product!(b; category: String, count: u64; Renamed { db_id: None, category, count })
    }
    fn with_id(&self, id: DbId) -> Self {
        Renamed { db_id: Some(id), ..self.clone() }
    }
    fn same(&self, o: &Self) -> bool {
        self == o
    }
}

impl UserCase for Skipped {
    const NAME: &'static str = "Skipped";
    const HAS_ID: bool = true;
    fn grid(b: usize) -> Vec<Self> {
        field_product!(b; category: String, cache: u64, note: Option<String>; Skipped { db_id: None, category, cache, note })
    }
    fn with_id(&self, id: DbId) -> Self {
        Skipped { db_id: Some(id), ..self.clone() }
    }
    /// skipped fields are not stored: a read yields their defaults
    fn expected(&self, id: DbId) -> Self {
        Skipped { db_id: Some(id), category: self.category.clone(), cache: 0, note: None }
    }
    fn same(&self, o: &Self) -> bool {
        self == o
    }
}

impl UserCase for Elem {
    const NAME: &'static str = "Elem(DbElement)";
    const HAS_ID: bool = true;
    fn grid(b: usize) -> Vec<Self> {
        field_product!(b; name: String, n: i64; Elem { db_id: None, name, n })
    }
    fn with_id(&self, id: DbId) -> Self {
        Elem { db_id: Some(id), ..self.clone() }
    }
    fn same(&self, o: &Self) -> bool {
        self == o
    }
}

fn unicode_path_grid() -> Vec<PathBuf> {
    utf8_paths()
}

impl UserCase for StdTypes {
    const NAME: &'static str = "StdTypes";
    const HAS_ID: bool = true;
    fn grid(b: usize) -> Vec<Self> {
        // paths restricted to unicode and socket addresses to those whose text form is complete
        // (the lossy cases are C20 findings of the PathBuf / SocketAddr encodings themselves)
        let t = SystemTime::grid(fb(b));
        let p = unicode_path_grid();
        let a: Vec<SocketAddr> = SocketAddr::grid(64).into_iter().filter(|a| !matches!(a, SocketAddr::V6(v) if v.flowinfo() != 0)).collect();
        let ip = IpAddr::grid(fb(b));
        let ts = Vec::<SystemTime>::grid(6);
        let ps: Vec<Vec<PathBuf>> = vec![vec![], p.clone(), vec![p[1].clone()]];
        index_tuples(&[t.len(), p.len(), a.len(), ip.len(), ts.len(), ps.len()], b)
            .into_iter()
            .map(|i| StdTypes { db_id: None, t: t[i[0]], p: p[i[1]].clone(), a: a[i[2]], ip: ip[i[3]], ts: ts[i[4]].clone(), ps: ps[i[5]].clone() })
            .collect()
    }
    fn with_id(&self, id: DbId) -> Self {
        StdTypes { db_id: Some(id), ..self.clone() }
    }
    fn same(&self, o: &Self) -> bool {
        self == o
    }
}

impl UserCase for GenericHolder {
    const NAME: &'static str = "GenericHolder";
    const HAS_ID: bool = true;
    fn grid(b: usize) -> Vec<Self> {
        field_product!(b; gv: GenericValue<u64>, gs: GenericValue<String>; GenericHolder { db_id: None, gv, gs })
    }
    fn with_id(&self, id: DbId) -> Self {
        GenericHolder { db_id: Some(id), ..self.clone() }
    }
    fn same(&self, o: &Self) -> bool {
        self == o
    }
}

impl UserCase for RenamedShapes {
    const NAME: &'static str = "RenamedShapes";
    const HAS_ID: bool = true;
    fn grid(b: usize) -> Vec<Self> {
        field_product!(b; scalar: u64, float: f64, string: String, vec: Vec<i64>, opt: Option<u64>, opt_string: Option<String>, opt_vec: Option<Vec<i64>>, custom: Attribute, status: Status, vec_custom: Vec<Status>, opt_custom: Option<Attribute>;
            RenamedShapes { db_id: None, scalar, float, string, vec, opt, opt_string, opt_vec, custom, status, vec_custom, opt_custom })
    }
    fn with_id(&self, id: DbId) -> Self {
        RenamedShapes { db_id: Some(id), ..self.clone() }
    }
    fn same(&self, o: &Self) -> bool {
        same_fields!(self, o; db_id, scalar, float, string, vec, opt, opt_string, opt_vec, custom, status, vec_custom, opt_custom)
    }
    fn none_from(&self, old: &Self) -> Self {
        RenamedShapes {
            opt: self.opt.or(old.opt),
            opt_string: self.opt_string.clone().or(old.opt_string.clone()),
            opt_vec: self.opt_vec.clone().or(old.opt_vec.clone()),
            opt_custom: self.opt_custom.clone().or(old.opt_custom.clone()),
            ..self.clone()
        }
    }
}

impl UserCase for RenameSwap {
    const NAME: &'static str = "RenameSwap";
    const HAS_ID: bool = true;
    fn grid(b: usize) -> Vec<Self> {
        field_product!(b; first: u64, second: Option<u64>, third: Vec<String>, fourth: Option<Vec<String>>; RenameSwap { db_id: DbId(0), first, second, third, fourth })
    }
    fn with_id(&self, id: DbId) -> Self {
        RenameSwap { db_id: id, ..self.clone() }
    }
    fn same(&self, o: &Self) -> bool {
        self == o
    }
    fn none_from(&self, old: &Self) -> Self {
        RenameSwap { second: self.second.or(old.second), fourth: self.fourth.clone().or(old.fourth.clone()), ..self.clone() }
    }
}

impl UserCase for SkippedShapes {
    const NAME: &'static str = "SkippedShapes";
    const HAS_ID: bool = true;
    fn grid(b: usize) -> Vec<Self> {
        field_product!(b; kept: String, scalar: u64, string: String, vec: Vec<i64>, opt: Option<u64>, opt_vec: Option<Vec<i64>>, custom: Attribute, status: Status, vec_custom: Vec<Status>, renamed: i64, kept_opt: Option<i64>;
            SkippedShapes { db_id: None, kept, scalar, string, vec, opt, opt_vec, custom, status, vec_custom, renamed, kept_opt })
    }
    fn with_id(&self, id: DbId) -> Self {
        SkippedShapes { db_id: Some(QueryId::Id(id)), ..self.clone() }
    }
    fn expected(&self, id: DbId) -> Self {
        SkippedShapes {
            db_id: Some(QueryId::Id(id)),
            kept: self.kept.clone(),
            scalar: 0,
            string: String::new(),
            vec: vec![],
            opt: None,
            opt_vec: None,
            custom: Attribute::default(),
            status: Status::default(),
            vec_custom: vec![],
            renamed: 0,
            kept_opt: self.kept_opt,
        }
    }
    fn same(&self, o: &Self) -> bool {
        self == o
    }
    fn none_from(&self, old: &Self) -> Self {
        SkippedShapes { kept_opt: self.kept_opt.or(old.kept_opt), ..self.clone() }
    }
}

impl Grid for InnerRenamed {
    fn grid(b: usize) -> Vec<Self> {
        field_product!(b; n: u64, o: Option<String>, v: Vec<u64>; InnerRenamed { n, o, v })
    }
}
impl Grid for InnerCustom {
    fn grid(b: usize) -> Vec<Self> {
        field_product!(b; st: Status, ost: Option<Status>, sts: Vec<Status>, tmp: u64; InnerCustom { st, ost, sts, tmp })
    }
}
impl Grid for InnerLeaf {
    fn grid(b: usize) -> Vec<Self> {
        field_product!(b; leaf_name: String, leaf_list: Vec<i64>; InnerLeaf { leaf_name, leaf_list })
    }
}
impl Grid for InnerNest {
    fn grid(b: usize) -> Vec<Self> {
        field_product!(b; deep: InnerLeaf, x: i64; InnerNest { deep, x })
    }
}

impl UserCase for FlattenShapes {
    const NAME: &'static str = "FlattenShapes";
    const HAS_ID: bool = true;
    fn grid(b: usize) -> Vec<Self> {
        field_product!(b; own: String, a: InnerRenamed, b_: InnerCustom, c: InnerNest; FlattenShapes { db_id: None, own, a, b: b_, c })
    }
    fn with_id(&self, id: DbId) -> Self {
        FlattenShapes { db_id: Some(id), ..self.clone() }
    }
    fn expected(&self, id: DbId) -> Self {
        let mut e = self.with_id(id);
        e.b.tmp = 0; // skipped inside the flattened type
        e
    }
    fn same(&self, o: &Self) -> bool {
        self == o
    }
    fn none_from(&self, old: &Self) -> Self {
        let mut n = self.clone();
        n.a.o = n.a.o.or(old.a.o.clone());
        n.b.ost = n.b.ost.or(old.b.ost.clone());
        n
    }
}

impl UserCase for FlattenPlain {
    const NAME: &'static str = "FlattenPlain";
    const HAS_ID: bool = true;
    fn grid(b: usize) -> Vec<Self> {
        field_product!(b; own: u64, c: InnerNest, p: Plain; FlattenPlain { db_id: None, own, c, p })
    }
    fn with_id(&self, id: DbId) -> Self {
        FlattenPlain { db_id: Some(id), ..self.clone() }
    }
    fn same(&self, o: &Self) -> bool {
        self == o
    }
}

impl UserCase for ElemShapes {
    const NAME: &'static str = "ElemShapes(DbElement)";
    const HAS_ID: bool = true;
    fn grid(b: usize) -> Vec<Self> {
        field_product!(b; name: String, opt: Option<i64>, cache: Vec<u64>, inner: InnerLeaf; ElemShapes { db_id: None, name, opt, cache, inner })
    }
    fn with_id(&self, id: DbId) -> Self {
        ElemShapes { db_id: Some(id), ..self.clone() }
    }
    fn expected(&self, id: DbId) -> Self {
        ElemShapes { db_id: Some(id), cache: vec![], ..self.clone() }
    }
    fn same(&self, o: &Self) -> bool {
        self == o
    }
    fn none_from(&self, old: &Self) -> Self {
        ElemShapes { opt: self.opt.or(old.opt), ..self.clone() }
    }
}

impl UserCase for DeclShapes {
    const NAME: &'static str = "DeclShapes";
    const HAS_ID: bool = true;
    fn grid(b: usize) -> Vec<Self> {
        field_product!(b; prio: Priority, oprio: Option<Priority>, vprio: Vec<Priority>, gap: Gap, vrepr: Vec<ReprU8>, orepr: Option<ReprU8>, one: OneTuple, vone: Vec<OneTuple>, t5: Tuple5, pair: Pair<u64, String>, opair: Option<Pair<Priority, Gap>>;
            DeclShapes { db_id: None, prio, oprio, vprio, gap, vrepr, orepr, one, vone, t5, pair, opair })
    }
    fn with_id(&self, id: DbId) -> Self {
        DeclShapes { db_id: Some(id), ..self.clone() }
    }
    fn same(&self, o: &Self) -> bool {
        same_fields!(self, o; db_id, prio, oprio, vprio, gap, vrepr, orepr, one, vone, t5, pair, opair)
    }
    fn none_from(&self, old: &Self) -> Self {
        DeclShapes { oprio: self.oprio.or(old.oprio), orepr: self.orepr.or(old.orepr), opair: self.opair.clone().or(old.opair.clone()), ..self.clone() }
    }
}

// ---------------------------------------------------------------------------

struct Fail {
    clause: &'static str,
    kind: String,
    detail: String,
}

fn f(clause: &'static str, kind: &str, detail: String) -> Fail {
    Fail { clause, kind: kind.to_string(), detail }
}

fn dberr(clause: &'static str, what: &str) -> impl Fn(DbError) -> Fail {
    let what = what.to_string();
    move |e| f(clause, "error", format!("{what}: {}", e.description))
}

fn short(s: String) -> String {
    if s.chars().count() > 400 { format!("{}…", s.chars().take(400).collect::<String>()) } else { s }
}

fn read_one<T: UserCase>(db: &DbAny, id: DbId, typed_keys: bool, clause: &'static str) -> Result<T, Fail> {
    let r: QueryResult = if typed_keys { db.exec(QueryBuilder::select().elements::<T>().ids(id).query()) } else { db.exec(QueryBuilder::select().ids(id).query()) }.map_err(dberr(clause, "select"))?;
    let e = r.elements.first().ok_or_else(|| f(clause, "error", "select returned no element".into()))?;
    T::from_db_element(e).map_err(|e| f(clause, "conversion-error", format!("from_db_element: {}", e.description)))
}

fn dump(db: &DbAny, ids: &[DbId]) -> Result<Vec<DbElement>, DbError> {
    Ok(db.exec(QueryBuilder::select().ids(ids.to_vec()).query())?.elements)
}

/// The three clauses on one window of three consecutive grid values.
fn check_window<T: UserCase>(db: &mut DbAny, w: &[T; 3]) -> Result<(), Fail> {
    // bystanders (plain nodes and an edge with values)
    let by = db.exec_mut(QueryBuilder::insert().nodes().aliases(["by1", "by2"]).values([[("name", "bystander one").into(), ("age", 1_u64).into()], [("k", vec![1_i64, 2]).into(), ("db_id", 77).into()]]).query()).map_err(dberr("setup", "insert bystanders"))?;
    let e = db.exec_mut(QueryBuilder::insert().edges().from("by1").to("by2").values_uniform([("w", 1.5).into()]).query()).map_err(dberr("setup", "insert edge"))?;
    let mut others: Vec<DbId> = by.elements.iter().map(|e| e.id).collect();
    others.push(e.elements[0].id);

    // clause 1: single insert
    let r = db.exec_mut(QueryBuilder::insert().element(&w[0]).query()).map_err(dberr("single", "insert element"))?;
    let id0 = r.elements.first().map(|e| e.id).ok_or_else(|| f("single", "error", "insert element returned no id".into()))?;
    for typed in [true, false] {
        let y: T = read_one(db, id0, typed, "single")?;
        let want = w[0].expected(id0);
        if !y.same(&want) {
            return Err(f("single", "mismatch", short(format!("stored {:?} read back {:?} (select {})", w[0], y, if typed { "elements::<T>()" } else { "ids" }))));
        }
    }
    // clause 2: batch of three
    let batch = [w[0].clone(), w[1].clone(), w[2].clone()];
    let r = db.exec_mut(QueryBuilder::insert().elements(&batch).query()).map_err(dberr("batch", "insert elements"))?;
    let ids: Vec<DbId> = r.elements.iter().map(|e| e.id).collect();
    if ids.len() != 3 {
        return Err(f("batch", "error", format!("insert elements returned {} ids", ids.len())));
    }
    let got: Vec<T> = db.exec(QueryBuilder::select().elements::<T>().ids(ids.clone()).query()).map_err(dberr("batch", "select elements"))?.try_into().map_err(|e: DbError| f("batch", "conversion-error", e.description))?;
    if got.len() != 3 {
        return Err(f("batch", "mismatch", format!("selected {} elements", got.len())));
    }
    for k in 0..3 {
        if !got[k].same(&w[k].expected(ids[k])) {
            return Err(f("batch", "mismatch", short(format!("element {k} of the batch: stored {:?} read back {:?}", w[k], got[k]))));
        }
    }
    // clause 3: update through the id field
    if T::HAS_ID {
        let mut all: Vec<DbId> = others.clone();
        all.push(id0);
        all.extend(ids.iter().copied());
        let before = dump(db, &all).map_err(dberr("update", "dump before"))?;
        let count_before = db.exec(QueryBuilder::select().node_count().query()).map_err(dberr("update", "node count"))?.result;
        // element ids[1] currently holds w[1]; store w[2]'s content into it
        let upd = w[2].with_id(ids[1]);
        let r = db.exec_mut(QueryBuilder::insert().element(&upd).query()).map_err(dberr("update", "insert element with id"))?;
        if r.elements.len() > 1 || r.elements.first().is_some_and(|e| e.id != ids[1]) {
            return Err(f("update", "new-element", format!("update through db_id {:?} created/returned {:?}", ids[1], r.elements.iter().map(|e| e.id).collect::<Vec<_>>())));
        }
        let count_after = db.exec(QueryBuilder::select().node_count().query()).map_err(dberr("update", "node count"))?.result;
        if count_after != count_before {
            return Err(f("update", "new-element", format!("node count {count_before} -> {count_after}")));
        }
        let after = dump(db, &all).map_err(dberr("update", "dump after"))?;
        for (b, a) in before.iter().zip(after.iter()) {
            if b.id != ids[1] && b != a {
                return Err(f("update", "other-element-changed", short(format!("element {:?} changed from {:?} to {:?}", b.id, b, a))));
            }
        }
        for typed in [true, false] {
            let y: T = read_one(db, ids[1], typed, "update")?;
            let want = w[2].expected(ids[1]);
            if !y.same(&want) {
                // told apart: the only difference is that optional fields updated to None still hold the old value
                let kind = if y.same(&want.none_from(&w[1])) { "stale-optional-value" } else { "updated-element-mismatch" };
                return Err(f("update", kind, short(format!("element held {:?}, updated with {:?}, read back {:?}", w[1], upd, y))));
            }
        }
    }
    Ok(())
}

fn open_db(variant: usize, scratch: &Scratch) -> Result<DbAny, DbError> {
    scratch.clear();
    let p = scratch.path("c22.agdb");
    match variant {
        0 => DbAny::new_memory(&p),
        1 => DbAny::new_file(&p),
        _ => DbAny::new_mapped(&p),
    }
}

const VARIANT_NAMES: [&str; 3] = ["memory", "file", "mapped"];

type Failure = (String, String, String, Option<engine::Panicked>);

struct TypeRunner {
    name: &'static str,
    windows: fn(usize) -> usize,
    /// (cap, first window, end window, scratch, sink(window, variant, description, failure))
    run: fn(usize, usize, usize, &Scratch, &mut dyn FnMut(usize, usize, String, Option<Failure>)),
}

fn windows_of<T: UserCase>(cap: usize) -> usize {
    T::grid(cap).len()
}

/// every window on memory storage, every 8th also on file and mapped storage
fn variants_of(wi: usize) -> &'static [usize] {
    if wi % 8 == 0 { &[0, 1, 2] } else { &[0] }
}

fn run_windows<T: UserCase>(cap: usize, start: usize, end: usize, scratch: &Scratch, sink: &mut dyn FnMut(usize, usize, String, Option<Failure>)) {
    let g = T::grid(cap);
    let n = g.len();
    for wi in start..end {
        let w = [g[wi % n].clone(), g[(wi + 1) % n].clone(), g[(wi + 2) % n].clone()];
        let desc = short(format!("{:?}", w));
        for &variant in variants_of(wi) {
            let res = catch(|| {
                let mut db = open_db(variant, scratch).map_err(dberr("setup", "open"))?;
                check_window::<T>(&mut db, &w)
            });
            let failure = match res {
                Ok(Ok(())) => None,
                Ok(Err(fl)) => Some((fl.clause.to_string(), fl.kind, fl.detail, None)),
                Err(p) => Some(("?".into(), "panic".into(), format!("{} at {}", p.message, p.location), Some(p))),
            };
            sink(wi, variant, desc.clone(), failure);
        }
    }
}

fn runner<T: UserCase>() -> TypeRunner {
    TypeRunner { name: T::NAME, windows: windows_of::<T>, run: run_windows::<T> }
}

fn runners() -> Vec<TypeRunner> {
    vec![
        runner::<Plain>(),
        runner::<WithId>(),
        runner::<WithQueryId>(),
        runner::<WithPlainId>(),
        runner::<AllScalars>(),
        runner::<AllVecs>(),
        runner::<WithOption>(),
        runner::<WithCustom>(),
        runner::<Flattened>(),
        runner::<Renamed>(),
        runner::<Skipped>(),
        runner::<Elem>(),
        runner::<StdTypes>(),
        runner::<GenericHolder>(),
        runner::<RenamedShapes>(),
        runner::<RenameSwap>(),
        runner::<SkippedShapes>(),
        runner::<FlattenShapes>(),
        runner::<FlattenPlain>(),
        runner::<ElemShapes>(),
        runner::<DeclShapes>(),
    ]
}

const BLOCK: usize = 50;

pub fn run(args: &Args) -> i32 {
    if let Some(fl) = &args.replay {
        return replay(fl);
    }
    let report = Report::new(args, "exploration");
    let cap = args.tier.pick(CAP_PER_TYPE_QUICK, CAP_PER_TYPE_THOROUGH);
    let rs = runners();
    // work items: (type, block of windows)
    let mut items: Vec<(usize, usize, usize)> = vec![];
    let mut per_type = vec![];
    for (ti, r) in rs.iter().enumerate() {
        let n = (r.windows)(cap);
        per_type.push(json!([r.name, n]));
        let mut s = 0;
        while s < n {
            items.push((ti, s, (s + BLOCK).min(n)));
            s += BLOCK;
        }
    }
    let evaluations = AtomicU64::new(0);
    let distinct = DistinctCounter::default();
    let coll = Collector::default();
    let scratches: Vec<Scratch> = (0..engine::workers()).map(|_| Scratch::new("c22")).collect();
    par_for(items.len(), args.seed, |w, ii| {
        let (ti, s, e) = items[ii];
        let r = &rs[ti];
        (r.run)(cap, s, e, &scratches[w], &mut |wi, variant, desc, failure| {
            evaluations.fetch_add(1, Ordering::Relaxed);
            distinct.insert(format!("{}|{}", r.name, desc).as_bytes());
            if wi == 1 && variant == 0 && ti % 4 == 0 {
                report.sample(json!({"type": r.name, "window_of_three_values": desc}));
            }
            if let Some((clause, kind, detail, p)) = failure {
                let sig = match &p {
                    Some(p) => format!("{}|panic|{}|{}", r.name, p.normalised(), p.file()),
                    None => format!("{}|{}|{}", r.name, clause, kind),
                };
                let what = format!("{} ({} storage), clause {}: {}", r.name, VARIANT_NAMES[variant], clause, detail);
                coll.add(&sig, (desc.len(), wi * 4 + variant), &what, json!({"check": "C22", "type": r.name, "cap": cap, "window": wi, "variant": variant, "values": desc, "clause": clause, "failure": kind}));
            }
        });
    });
    report.set("evaluations", json!(evaluations.load(Ordering::Relaxed)));
    report.set("distinct_nontrivial", json!(distinct.len()));
    report.set(
        "rule",
        json!("per user type: full product of the per-field boundary grids (shortened longest-first to the cap, plus each cut-off field value once); every window of three consecutive grid values (cyclic) is one case: insert the first singly, insert all three as a batch, read back with select().elements::<T>() and select().ids() and compare bitwise (skipped fields: defaults), then store the third value into the second element through its db_id and require: no new element, every other element's dump (incl. bystander nodes and an edge) unchanged, the updated element reads back as the new value; on DbAny memory, every 8th window also on file and mapped storage; distinct_nontrivial = distinct (type, window values)"),
    );
    report.set("types", json!(rs.len()));
    report.set("cap_per_type", json!(cap));
    report.set("windows_per_type", Value::Array(per_type));
    report.set("violating_cases", json!(coll.total()));
    report.set("exhaustive", json!(true));
    coll.flush(&report);
    report.finish()
}

fn replay(file: &str) -> i32 {
    let text = std::fs::read_to_string(file).unwrap_or_else(|e| engine::machinery_failure(&format!("replay file: {e}")));
    let v: Value = serde_json::from_str(&text).unwrap_or_else(|e| engine::machinery_failure(&format!("replay file: {e}")));
    let r = if v.get("replay").is_some() { &v["replay"] } else { &v };
    let name = r["type"].as_str().unwrap_or("");
    let cap = r["cap"].as_u64().unwrap_or(CAP_PER_TYPE_QUICK as u64) as usize;
    let wi = r["window"].as_u64().unwrap_or(0) as usize;
    let variant = r["variant"].as_u64().unwrap_or(0) as usize;
    let Some(tr) = runners().into_iter().find(|t| t.name == name) else { engine::machinery_failure(&format!("unknown type {name}")) };
    let scratch = Scratch::new("c22r");
    let mut got: Option<(String, Option<Failure>)> = None;
    (tr.run)(cap, wi, wi + 1, &scratch, &mut |_, v, desc, failure| {
        if v == variant {
            got = Some((desc, failure));
        }
    });
    let Some((desc, failure)) = got else { engine::machinery_failure("window/variant not part of the enumeration") };
    println!("type={name} window={wi} storage={} values={desc}", VARIANT_NAMES[variant.min(2)]);
    match failure {
        Some((clause, kind, detail, _)) => {
            println!("OBSERVED clause={clause} failure={kind}: {detail}");
            println!("VIOLATION property=C22 replay={file}");
            1
        }
        None => {
            println!("OBSERVED all clauses hold");
            0
        }
    }
}
