//! Counting global allocator: any single request above `LIMIT` is recorded
//! and REFUSED: on a supervised subject thread (child.rs) the requesting
//! thread is suspended forever and abandoned; anywhere else null is returned.
//! `Vec::with_capacity` with an absurd size panics with
//! "capacity overflow" before reaching the allocator (catchable); a refused
//! request makes `handle_alloc_error` abort the process, which is why the
//! sweeps that can hit it run in child processes (see child.rs).
//!
//! When a result descriptor has been registered (child mode) the refusal is
//! logged there with a raw `write` that does not allocate, so that the
//! parent can tell "enormous allocation" from any other abort.

use std::alloc::{GlobalAlloc, Layout, System};
use std::io::Write;
use std::sync::OnceLock;
use std::sync::atomic::{AtomicPtr, AtomicU64, Ordering};

pub const LIMIT: usize = 256 * 1024 * 1024;

pub struct Counting;

/// number of refused requests so far (process-wide)
pub static REFUSED: AtomicU64 = AtomicU64::new(0);
/// size of the last refused request
pub static LAST_REFUSED_SIZE: AtomicU64 = AtomicU64::new(0);
/// largest single request that was granted (informational)
pub static LARGEST_GRANTED: AtomicU64 = AtomicU64::new(0);

static LOG: OnceLock<std::fs::File> = OnceLock::new();

pub fn set_log(f: std::fs::File) {
    let _ = LOG.set(f);
}

pub fn raw_log(prefix: &[u8], n: u64) {
    raw_log2(prefix, n, u64::MAX)
}

/// write `<prefix><n>[ <m>]\n` without allocating (m = u64::MAX: omitted)
pub fn raw_log2(prefix: &[u8], n: u64, m: u64) {
    if let Some(f) = LOG.get() {
        let mut buf = [0u8; 96];
        let mut k = 0;
        for b in prefix {
            buf[k] = *b;
            k += 1;
        }
        if m != u64::MAX {
            let mut digits = [0u8; 20];
            let mut d = 0;
            let mut v = n;
            loop {
                digits[d] = b'0' + (v % 10) as u8;
                d += 1;
                v /= 10;
                if v == 0 {
                    break;
                }
            }
            while d > 0 {
                d -= 1;
                buf[k] = digits[d];
                k += 1;
            }
            buf[k] = b' ';
            k += 1;
        }
        let n = if m != u64::MAX { m } else { n };
        let mut digits = [0u8; 20];
        let mut d = 0;
        let mut v = n;
        loop {
            digits[d] = b'0' + (v % 10) as u8;
            d += 1;
            v /= 10;
            if v == 0 {
                break;
            }
        }
        while d > 0 {
            d -= 1;
            buf[k] = digits[d];
            k += 1;
        }
        buf[k] = b'\n';
        k += 1;
        let mut w: &std::fs::File = f;
        let _ = w.write_all(&buf[..k]);
    }
}

thread_local! {
    /// set on threads that execute the subject under a supervisor (child.rs)
    static SUBJECT: std::cell::Cell<bool> = const { std::cell::Cell::new(false) };
}
/// size of the request on which a subject thread was suspended (0 = none)
pub static SUSPENDED: AtomicU64 = AtomicU64::new(0);

pub fn mark_subject_thread() {
    SUBJECT.with(|s| s.set(true));
}

#[inline]
fn refuse(size: usize) -> bool {
    if size > LIMIT {
        REFUSED.fetch_add(1, Ordering::SeqCst);
        LAST_REFUSED_SIZE.store(size as u64, Ordering::SeqCst);
        if SUBJECT.try_with(|s| s.get()).unwrap_or(false) {
            // Supervised subject thread: never return from this request.
            // The supervisor sees SUSPENDED, records the case as an enormous
            // allocation, abandons this thread and continues on a new one.
            // (Returning null would abort the whole process, and a process
            // start costs ~100 ms here.)
            SUSPENDED.store(size as u64, Ordering::SeqCst);
            loop {
                std::thread::sleep(std::time::Duration::from_secs(3600));
            }
        }
        raw_log(b"ENORMOUS ", size as u64);
        true
    } else {
        if size as u64 > LARGEST_GRANTED.load(Ordering::Relaxed) {
            LARGEST_GRANTED.store(size as u64, Ordering::Relaxed);
        }
        false
    }
}

// --- large-block cache -------------------------------------------------------
// First touch of fresh anonymous memory is extremely slow in this sandbox
// (50-800 us per 4 KiB page, billed as USER time: a 200 MB table costs 10 s). The damage sweeps
// legitimately meet many allocations of 1..256 MiB (record table sized by a
// damaged index), so blocks of at least 1 MiB are rounded up to a power of
// two and one freed block per size class is kept and handed out again, which
// keeps its pages resident. Semantics are unchanged (alloc returns
// uninitialised memory, alloc_zeroed clears it).

const BIG: usize = 1 << 20;
const CLASSES: usize = 9; // 1 MiB .. 256 MiB
static CACHE: [AtomicPtr<u8>; CLASSES] = [const { AtomicPtr::new(std::ptr::null_mut()) }; CLASSES];

#[inline]
fn class_of(layout: &Layout, size: usize) -> Option<usize> {
    if size >= BIG && size <= LIMIT && layout.align() <= 4096 {
        let c = (usize::BITS - (size - 1).leading_zeros()) as usize - 20;
        Some(c.min(CLASSES - 1))
    } else {
        None
    }
}

#[inline]
fn class_layout(c: usize) -> Layout {
    // cannot fail: size is a power of two <= 256 MiB
    unsafe { Layout::from_size_align_unchecked(1usize << (20 + c), 4096) }
}

/// number of fresh large blocks that were pre-touched so far, and whether a
/// pre-touch is in progress: the hang supervisor (child.rs) does not bill
/// this time to the case
pub static WARMED: AtomicU64 = AtomicU64::new(0);
pub static WARMING: AtomicU64 = AtomicU64::new(0);

unsafe extern "C" {
    // libc is linked by std; declared here because no libc crate is used
    fn madvise(addr: *mut u8, len: usize, advice: i32) -> i32;
}
const MADV_POPULATE_WRITE: i32 = 23;

unsafe fn big_alloc(c: usize) -> *mut u8 {
    let p = CACHE[c].swap(std::ptr::null_mut(), Ordering::AcqRel);
    if !p.is_null() {
        return p;
    }
    unsafe {
        let p = System.alloc(class_layout(c));
        if !p.is_null() {
            // Map the whole block in one system call: a page fault costs
            // 50-800 us in this sandbox (the trap, not the page), populating
            // in the kernel is two orders of magnitude cheaper.
            WARMING.fetch_add(1, Ordering::SeqCst);
            let _ = madvise(p, 1usize << (20 + c), MADV_POPULATE_WRITE);
            WARMED.fetch_add(1, Ordering::SeqCst);
            WARMING.fetch_sub(1, Ordering::SeqCst);
        }
        p
    }
}

unsafe fn big_free(c: usize, ptr: *mut u8) {
    let old = CACHE[c].swap(ptr, Ordering::AcqRel);
    if !old.is_null() {
        unsafe { System.dealloc(old, class_layout(c)) }
    }
}

unsafe impl GlobalAlloc for Counting {
    unsafe fn alloc(&self, layout: Layout) -> *mut u8 {
        if refuse(layout.size()) {
            return std::ptr::null_mut();
        }
        match class_of(&layout, layout.size()) {
            Some(c) => unsafe { big_alloc(c) },
            None => unsafe { System.alloc(layout) },
        }
    }
    unsafe fn dealloc(&self, ptr: *mut u8, layout: Layout) {
        match class_of(&layout, layout.size()) {
            Some(c) => unsafe { big_free(c, ptr) },
            None => unsafe { System.dealloc(ptr, layout) },
        }
    }
    unsafe fn alloc_zeroed(&self, layout: Layout) -> *mut u8 {
        if refuse(layout.size()) {
            return std::ptr::null_mut();
        }
        match class_of(&layout, layout.size()) {
            Some(c) => unsafe {
                let p = big_alloc(c);
                if !p.is_null() {
                    std::ptr::write_bytes(p, 0, layout.size());
                }
                p
            },
            None => unsafe { System.alloc_zeroed(layout) },
        }
    }
    unsafe fn realloc(&self, ptr: *mut u8, layout: Layout, new_size: usize) -> *mut u8 {
        if refuse(new_size) {
            return std::ptr::null_mut();
        }
        let old_c = class_of(&layout, layout.size());
        let new_c = class_of(&layout, new_size);
        if old_c.is_none() && new_c.is_none() {
            return unsafe { System.realloc(ptr, layout, new_size) };
        }
        if old_c == new_c {
            return ptr; // same power-of-two block
        }
        unsafe {
            let new_layout = Layout::from_size_align_unchecked(new_size, layout.align());
            let p = self.alloc(new_layout);
            if !p.is_null() {
                std::ptr::copy_nonoverlapping(ptr, p, layout.size().min(new_size));
                self.dealloc(ptr, layout);
            }
            p
        }
    }
}
