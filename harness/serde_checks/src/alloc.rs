//! Counting global allocator: any single request above `LIMIT` is recorded
//! and REFUSED: on a supervised subject thread (child.rs) the requesting
//! thread is suspended forever and abandoned; anywhere else null is returned.
//! `Vec::with_capacity` with an absurd size panics with
//! "capacity overflow" before reaching the allocator (catchable); a refused
//! request makes `handle_alloc_error` abort the process, which is why the
//! sweeps that can hit it run in child processes (see child.rs).
//!
//! When a result descriptor has been registered (child mode) the refusal is
//! logged there with a raw `write` that does not allocate, so that the
//! parent can tell "enormous allocation" from any other abort.

use std::alloc::{GlobalAlloc, Layout, System};
use std::io::Write;
use std::sync::OnceLock;
use std::sync::atomic::{AtomicU64, Ordering};

pub const LIMIT: usize = 256 * 1024 * 1024;

pub struct Counting;

/// number of refused requests so far (process-wide)
pub static REFUSED: AtomicU64 = AtomicU64::new(0);
/// size of the last refused request
pub static LAST_REFUSED_SIZE: AtomicU64 = AtomicU64::new(0);
/// largest single request that was granted (informational)
pub static LARGEST_GRANTED: AtomicU64 = AtomicU64::new(0);

static LOG: OnceLock<std::fs::File> = OnceLock::new();

pub fn set_log(f: std::fs::File) {
    let _ = LOG.set(f);
}

/// write without allocating
pub fn raw_log(prefix: &[u8], n: u64) {
    if let Some(f) = LOG.get() {
        let mut buf = [0u8; 64];
        let mut k = 0;
        for b in prefix {
            buf[k] = *b;
            k += 1;
        }
        let mut digits = [0u8; 20];
        let mut d = 0;
        let mut v = n;
        loop {
            digits[d] = b'0' + (v % 10) as u8;
            d += 1;
            v /= 10;
            if v == 0 {
                break;
            }
        }
        while d > 0 {
            d -= 1;
            buf[k] = digits[d];
            k += 1;
        }
        buf[k] = b'\n';
        k += 1;
        let mut w: &std::fs::File = f;
        let _ = w.write_all(&buf[..k]);
    }
}

thread_local! {
    /// set on threads that execute the subject under a supervisor (child.rs)
    static SUBJECT: std::cell::Cell<bool> = const { std::cell::Cell::new(false) };
}
/// size of the request on which a subject thread was suspended (0 = none)
pub static SUSPENDED: AtomicU64 = AtomicU64::new(0);

pub fn mark_subject_thread() {
    SUBJECT.with(|s| s.set(true));
}

#[inline]
fn refuse(size: usize) -> bool {
    if size > LIMIT {
        REFUSED.fetch_add(1, Ordering::SeqCst);
        LAST_REFUSED_SIZE.store(size as u64, Ordering::SeqCst);
        if SUBJECT.try_with(|s| s.get()).unwrap_or(false) {
            // Supervised subject thread: never return from this request.
            // The supervisor sees SUSPENDED, records the case as an enormous
            // allocation, abandons this thread and continues on a new one.
            // (Returning null would abort the whole process, and a process
            // start costs ~100 ms here.)
            SUSPENDED.store(size as u64, Ordering::SeqCst);
            loop {
                std::thread::sleep(std::time::Duration::from_secs(3600));
            }
        }
        raw_log(b"ENORMOUS ", size as u64);
        true
    } else {
        if size as u64 > LARGEST_GRANTED.load(Ordering::Relaxed) {
            LARGEST_GRANTED.store(size as u64, Ordering::Relaxed);
        }
        false
    }
}

unsafe impl GlobalAlloc for Counting {
    unsafe fn alloc(&self, layout: Layout) -> *mut u8 {
        if refuse(layout.size()) {
            return std::ptr::null_mut();
        }
        unsafe { System.alloc(layout) }
    }
    unsafe fn dealloc(&self, ptr: *mut u8, layout: Layout) {
        unsafe { System.dealloc(ptr, layout) }
    }
    unsafe fn alloc_zeroed(&self, layout: Layout) -> *mut u8 {
        if refuse(layout.size()) {
            return std::ptr::null_mut();
        }
        unsafe { System.alloc_zeroed(layout) }
    }
    unsafe fn realloc(&self, ptr: *mut u8, layout: Layout, new_size: usize) -> *mut u8 {
        if refuse(new_size) {
            return std::ptr::null_mut();
        }
        unsafe { System.realloc(ptr, layout, new_size) }
    }
}

pub fn refused() -> u64 {
    REFUSED.load(Ordering::SeqCst)
}
