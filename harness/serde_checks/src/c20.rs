//! C20 — binary serialization round-trips and reports its exact size.
//! Exhaustive grid over the compiled type corpus (corpus.rs / grid.rs).

use crate::corpus::{Entry, corpus, drop_grid_cache};
use crate::viol::Collector;
use engine::{Args, DistinctCounter, Report, Tier, hex, par_for};
use serde_json::{Value, json};
use std::sync::Mutex;
use std::sync::atomic::{AtomicU64, Ordering};

pub const CAP_PER_TYPE_QUICK: usize = 10_000;
pub const CAP_PER_TYPE_THOROUGH: usize = 200_000;

fn budget(tier: Tier) -> usize {
    tier.pick(CAP_PER_TYPE_QUICK, CAP_PER_TYPE_THOROUGH)
}

fn signature(entry: &Entry, kind: &str, p: &Option<engine::Panicked>) -> String {
    match p {
        Some(p) => format!("{}|{}|{}|{}", entry.name, kind, p.normalised(), p.file()),
        None => format!("{}|{}", entry.name, kind),
    }
}

pub fn run(args: &Args) -> i32 {
    if let Some(f) = &args.replay {
        return replay(f);
    }
    let report = Report::new(args, "exploration");
    let b = budget(args.tier);
    let entries: Vec<Entry> = corpus().into_iter().filter(|e| e.kind != "tryfrom").collect();
    let evaluations = AtomicU64::new(0);
    let distinct = DistinctCounter::default();
    let coll = Collector::default();
    let per_type: Mutex<Vec<(String, usize, usize)>> = Mutex::new(vec![]);
    par_for(entries.len(), args.seed, |_, ti| {
        let e = &entries[ti];
        let n = (e.grid_len)(b);
        let mut local_distinct = std::collections::HashSet::new();
        for i in 0..n {
            let Some(r) = (e.c20)(b, i) else { break };
            evaluations.fetch_add(1, Ordering::Relaxed);
            let mut key = e.name.as_bytes().to_vec();
            key.push(0);
            key.extend_from_slice(&r.bytes);
            // non-trivial: the value has an encoding and it differs from every other value's of the type
            if local_distinct.insert(engine::fnv(&key)) {
                distinct.insert(&key);
            }
            if i < 2 && ti % 16 == 3 {
                report.sample(json!({"type": e.name, "value": r.value, "encoding": hex(&r.bytes)}));
            }
            if let Some((kind, detail, p)) = r.failure {
                let sig = signature(e, &kind, &p);
                let what = match &p {
                    Some(p) => format!("{}: {} — {} at {} (value {})", e.name, detail, p.message, p.location, r.value),
                    None => format!("{}: {} (value {})", e.name, detail, r.value),
                };
                coll.add(&sig, (r.bytes.len(), i), &what, json!({"check": "C20", "type": e.name, "cap": b, "index": i, "value": r.value, "bytes": hex(&r.bytes), "failure": kind}));
            }
        }
        per_type.lock().unwrap().push((e.name.clone(), n, local_distinct.len()));
        drop_grid_cache();
    });
    let mut pt = per_type.into_inner().unwrap();
    pt.sort();
    let capped: Vec<&String> = pt.iter().filter(|(_, n, _)| *n >= b).map(|(n, _, _)| n).collect();
    report.set("evaluations", json!(evaluations.load(Ordering::Relaxed)));
    report.set("distinct_nontrivial", json!(distinct.len()));
    report.set(
        "rule",
        json!("per type of the corpus: full product of the per-field boundary grids (lists shortened longest-first until the product fits the cap) plus every cut-off field value once; each value: serialized_size == len(serialize), deserialize(serialize(x)) bitwise equal, re-encoding identical, and the same with 3 different trailers appended; distinct_nontrivial = distinct (type, encoding) pairs"),
    );
    report.set("types", json!(entries.len()));
    report.set("cap_per_type", json!(b));
    report.set("field_budget", json!(crate::grid::FIELD_BUDGET));
    report.set("per_type_values_distinct", Value::Array(pt.iter().map(|(n, v, d)| json!([n, v, d])).collect()));
    report.set("types_with_shortened_field_lists_or_cap", json!(capped));
    report.set("exhaustive", json!(true));
    report.set("violating_cases", json!(coll.total()));
    coll.flush(&report);
    report.finish()
}

fn replay(file: &str) -> i32 {
    let text = std::fs::read_to_string(file).unwrap_or_else(|e| engine::machinery_failure(&format!("replay file: {e}")));
    let v: Value = serde_json::from_str(&text).unwrap_or_else(|e| engine::machinery_failure(&format!("replay file: {e}")));
    let r = if v.get("replay").is_some() { &v["replay"] } else { &v };
    let name = r["type"].as_str().unwrap_or("");
    let cap = r["cap"].as_u64().unwrap_or(CAP_PER_TYPE_QUICK as u64) as usize;
    let index = r["index"].as_u64().unwrap_or(0) as usize;
    let Some(e) = corpus().into_iter().find(|e| e.name == name) else { engine::machinery_failure(&format!("unknown type {name}")) };
    let Some(res) = (e.c20)(cap, index) else { engine::machinery_failure("grid index out of range") };
    println!("type={} index={} value={} bytes={}", e.name, index, res.value, hex(&res.bytes));
    match res.failure {
        Some((kind, detail, p)) => {
            println!("OBSERVED failure={kind} detail={detail} panic={:?}", p.map(|p| format!("{} at {}", p.message, p.location)));
            println!("VIOLATION property=C20 replay={file}");
            1
        }
        None => {
            println!("OBSERVED ok (round trip, exact size, trailing bytes)");
            0
        }
    }
}
