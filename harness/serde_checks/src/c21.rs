//! C21 — deserializing arbitrary bytes never crashes.
//! Per deserializer of the corpus the complete mutation space of a set of
//! valid encodings plus all short strings; executed in child processes
//! because a refused enormous allocation aborts the process.

use crate::child::{Outcome, child_fail, child_main, child_range, run_range};
use std::sync::Arc;
use crate::corpus::{Decoded, Entry, corpus, drop_grid_cache};
use crate::viol::Collector;
use engine::{Args, DistinctCounter, Report, Tier, catch, hex, normalise, par_for, unhex};
use serde_json::{Value, json};
use std::collections::{BTreeMap, HashSet};
use std::sync::Mutex;
use std::sync::atomic::{AtomicU64, Ordering};

/// grid cap used to produce the valid encodings (seeds)
pub const SEED_GRID_CAP: usize = 2000;
/// seeds per deserializer are picked (evenly spread over the distinct
/// encodings, shortest and longest always) until their total length reaches:
pub const SEED_BYTES_QUICK: usize = 1200;
pub const SEED_BYTES_THOROUGH: usize = 12_000;
pub const MAX_SEEDS_QUICK: usize = 24;
pub const MAX_SEEDS_THOROUGH: usize = 200;
pub const ALPHABET: [u8; 5] = [0x00, 0x01, 0x7f, 0x80, 0xff];
pub const CHUNK: usize = 3000;
pub const ZST_CHUNK: usize = 6;
pub const HANG_CONFIRMATIONS: u64 = 3;

pub struct Case {
    pub origin: String,
    pub bytes: Vec<u8>,
}

fn boundary_values(len_like: &[u64]) -> Vec<u64> {
    let mut v: Vec<u64> = vec![0, 1];
    for l in len_like {
        v.push(l.wrapping_sub(1));
        v.push(*l);
        v.push(l.wrapping_add(1));
    }
    v.extend([1u64 << 31, 1 << 32, (1 << 63) - 1, 1 << 63, u64::MAX]);
    let mut seen = HashSet::new();
    v.retain(|x| seen.insert(*x));
    v
}

fn pick_seeds(mut encs: Vec<Vec<u8>>, tier: Tier) -> Vec<Vec<u8>> {
    let mut seen = HashSet::new();
    encs.retain(|e| seen.insert(e.clone()));
    let max_seeds = tier.pick(MAX_SEEDS_QUICK, MAX_SEEDS_THOROUGH);
    let max_bytes = tier.pick(SEED_BYTES_QUICK, SEED_BYTES_THOROUGH);
    if encs.is_empty() {
        return encs;
    }
    // order of consideration: shortest, longest, then evenly spread
    let n = encs.len();
    let mut order: Vec<usize> = vec![];
    let shortest = (0..n).min_by_key(|i| (encs[*i].len(), *i)).unwrap();
    let longest = (0..n).max_by_key(|i| (encs[*i].len(), n - *i)).unwrap();
    order.push(shortest);
    order.push(longest);
    let mut step = n;
    while step > 1 {
        step = step.div_ceil(2);
        let mut i = 0;
        while i < n {
            order.push(i);
            i += step;
        }
        if step == 1 {
            break;
        }
    }
    let mut chosen = vec![];
    let mut used = HashSet::new();
    let mut total = 0usize;
    for i in order {
        if chosen.len() >= max_seeds {
            break;
        }
        if !used.insert(i) {
            continue;
        }
        if !chosen.is_empty() && total + encs[i].len() > max_bytes {
            continue;
        }
        total += encs[i].len();
        chosen.push(i);
    }
    chosen.sort();
    chosen.into_iter().map(|i| encs[i].clone()).collect()
}

/// the complete case list of one deserializer (deterministic)
pub fn cases(e: &Entry, tier: Tier) -> Vec<Case> {
    let seeds = pick_seeds((e.encodings)(SEED_GRID_CAP), tier);
    drop_grid_cache();
    let mut out: Vec<Case> = vec![];
    let mut seen: HashSet<Vec<u8>> = HashSet::new();
    let mut push = |origin: String, bytes: Vec<u8>, out: &mut Vec<Case>| {
        if seen.insert(bytes.clone()) {
            out.push(Case { origin, bytes });
        }
    };
    // A: all strings of length <= 3 over the alphabet
    push("short()".into(), vec![], &mut out);
    for a in ALPHABET {
        push("short(1)".into(), vec![a], &mut out);
        for b in ALPHABET {
            push("short(2)".into(), vec![a, b], &mut out);
            for c in ALPHABET {
                push("short(3)".into(), vec![a, b, c], &mut out);
            }
        }
    }
    let zst = e.name == "Vec<Empty>";
    // B: 8-byte boundary value (little endian) + k <= 2 alphabet bytes, optionally after a tag byte
    if !zst {
        let bv = boundary_values(&[2, 8]);
        let mut tails: Vec<Vec<u8>> = vec![vec![]];
        for a in ALPHABET {
            tails.push(vec![a]);
            for b in ALPHABET {
                tails.push(vec![a, b]);
            }
        }
        for v in &bv {
            for t in &tails {
                let mut b = v.to_le_bytes().to_vec();
                b.extend_from_slice(t);
                push(format!("boundary8({v:#x})+{}", t.len()), b, &mut out);
            }
        }
        let mut tags: Vec<u8> = (0..=20).collect();
        tags.push(0xff);
        for tag in tags {
            for v in &bv {
                for t in tails.iter().filter(|t| t.len() <= 1) {
                    let mut b = vec![tag];
                    b.extend_from_slice(&v.to_le_bytes());
                    b.extend_from_slice(t);
                    push(format!("tag({tag})+boundary8({v:#x})+{}", t.len()), b, &mut out);
                }
            }
        }
    }
    // C: mutations of valid encodings
    for (si, s) in seeds.iter().enumerate() {
        push(format!("valid(seed {si})"), s.clone(), &mut out);
        for k in 0..s.len() {
            push(format!("truncate(seed {si}, {k})"), s[..k].to_vec(), &mut out);
        }
        if s.len() >= 8 {
            for off in 0..=s.len() - 8 {
                let cur = u64::from_le_bytes(s[off..off + 8].try_into().unwrap());
                let remaining = (s.len() - off - 8) as u64;
                for v in boundary_values(&[remaining, cur]) {
                    if v == cur {
                        continue;
                    }
                    let mut b = s.clone();
                    b[off..off + 8].copy_from_slice(&v.to_le_bytes());
                    push(format!("field8(seed {si}, offset {off}, {v:#x})"), b, &mut out);
                }
            }
        }
        for off in 0..s.len() {
            for a in [0x00u8, 0x01, 0x02, 0x7f, 0x80, 0xff] {
                if s[off] == a {
                    continue;
                }
                let mut b = s.clone();
                b[off] = a;
                push(format!("byte(seed {si}, offset {off}, {a:#x})"), b, &mut out);
            }
        }
    }
    out
}

/// Case file handed to the children (so that a restarted child starts in
/// about a millisecond): u32 count, then per case u32 length + bytes.
fn write_case_file(path: &str, cs: &[Case]) {
    let mut buf: Vec<u8> = Vec::new();
    buf.extend_from_slice(&(cs.len() as u32).to_le_bytes());
    for c in cs {
        buf.extend_from_slice(&(c.bytes.len() as u32).to_le_bytes());
        buf.extend_from_slice(&c.bytes);
    }
    std::fs::write(path, buf).unwrap_or_else(|e| engine::machinery_failure(&format!("case file {path}: {e}")));
}

fn read_case_file(path: &str) -> Option<Vec<Vec<u8>>> {
    let buf = std::fs::read(path).ok()?;
    let n = u32::from_le_bytes(buf.get(0..4)?.try_into().ok()?) as usize;
    let mut pos = 4;
    let mut out = Vec::with_capacity(n.min(1 << 20));
    for _ in 0..n {
        let l = u32::from_le_bytes(buf.get(pos..pos + 4)?.try_into().ok()?) as usize;
        pos += 4;
        out.push(buf.get(pos..pos + l)?.to_vec());
        pos += l;
    }
    Some(out)
}

/// `VecOfEmpty` (a struct around a vector of zero-sized elements) is left to
/// C20: nearly every mutation of its length field is a multi-second loop,
/// the same defect that the `Vec<Empty>` deserializer already exhibits.
fn c21_corpus() -> Vec<Entry> {
    corpus().into_iter().filter(|e| e.name != "VecOfEmpty").collect()
}

fn find_entry(name: &str) -> Entry {
    corpus().into_iter().find(|e| e.name == name).unwrap_or_else(|| engine::machinery_failure(&format!("unknown deserializer {name}")))
}

/// payload of one executed case: O | E|<error> | P|<message>|<file>|<location>
fn execute(e: &Entry, bytes: &[u8]) -> String {
    match catch(|| (e.decode)(bytes)) {
        Ok(Decoded::Ok) => "O".into(),
        Ok(Decoded::Err(d)) => format!("E|{}", normalise(&d).chars().take(60).collect::<String>()),
        Err(p) => format!("P|{}|{}|{}", p.normalised().replace('|', "/"), p.file(), p.location),
    }
}

pub fn child(args: &Args) -> i32 {
    let (job, start, end) = child_range(&args.extra);
    if job.is_empty() {
        child_fail("C21 child: job = <entry index> <case file> | hex <entry name> <hex>");
    }
    if job[0] == "hex" {
        // single explicit input (replay / confirmation)
        let e = find_entry(&job[1]);
        let bytes = unhex(job.get(2).map(|s| s.as_str()).unwrap_or(""));
        return child_main(0, 1, Arc::new(move |_| execute(&e, &bytes)));
    }
    let ei: usize = job[0].parse().unwrap_or_else(|_| child_fail("bad entry index"));
    let mut entries = c21_corpus();
    if ei >= entries.len() {
        child_fail("entry index out of range");
    }
    let e = entries.swap_remove(ei);
    let Some(cs) = job.get(1).and_then(|f| read_case_file(f)) else { child_fail("cannot read the case file") };
    if end > cs.len() {
        child_fail("range beyond the case list");
    }
    child_main(start, end, Arc::new(move |i| execute(&e, &cs[i])))
}

/// (signature, kind, human text) of a violating outcome, None if the outcome is allowed
fn classify(e: &Entry, o: &Outcome) -> Option<(String, String)> {
    match o {
        Outcome::Line(l) => {
            if l == "O" || l.starts_with("E|") {
                return None;
            }
            if let Some(rest) = l.strip_prefix("A|") {
                let (size, tail) = rest.split_once('|').unwrap_or((rest, ""));
                return Some((format!("{}|enormous-allocation||", e.kind), format!("single allocation request of {size} bytes (refused, the caller survived: {tail})")));
            }
            if let Some(size) = l.strip_prefix("X|").map(|r| r.split('|').next().unwrap_or(r)) {
                return Some((format!("{}|enormous-allocation||", e.kind), format!("single allocation request of {size} bytes")));
            }
            if let Some(rest) = l.strip_prefix("P|") {
                let mut it = rest.splitn(3, '|');
                let msg = it.next().unwrap_or("");
                let file = it.next().unwrap_or("");
                let loc = it.next().unwrap_or("");
                return Some((format!("{}|panic|{}|{}", e.kind, msg, file), format!("panic '{msg}' at {loc}")));
            }
            engine::machinery_failure(&format!("unparsable child payload: {l}"));
        }
        Outcome::Died { kind, detail } => Some((format!("{}|{}||", e.kind, kind), detail.clone())),
    }
}

fn outcome_class(o: &Outcome) -> String {
    match o {
        Outcome::Line(l) => {
            if l == "O" {
                "ok".into()
            } else if let Some(d) = l.strip_prefix("E|") {
                format!("err: {d}")
            } else if l.starts_with("A|") || l.starts_with("X|") {
                "enormous-allocation".into()
            } else {
                let rest = l.strip_prefix("P|").unwrap_or(l);
                let mut it = rest.splitn(3, '|');
                format!("panic: {} [{}]", it.next().unwrap_or(""), it.next().unwrap_or(""))
            }
        }
        Outcome::Died { kind, .. } => (*kind).to_string(),
    }
}

pub fn run(args: &Args) -> i32 {
    if args.extra.iter().any(|a| a == "--child") {
        return child(args);
    }
    if let Some(f) = &args.replay {
        return replay(f);
    }
    let report = Report::new(args, "fault_enumeration");
    let entries = c21_corpus();
    // 1. case counts per deserializer
    let counts: Vec<AtomicU64> = entries.iter().map(|_| AtomicU64::new(0)).collect();
    let seeds_used: Vec<AtomicU64> = entries.iter().map(|_| AtomicU64::new(0)).collect();
    let scratch = engine::Scratch::new("c21");
    let all_cases: Vec<Mutex<Vec<Case>>> = entries.iter().map(|_| Mutex::new(vec![])).collect();
    par_for(entries.len(), 0, |_, ei| {
        let cs = cases(&entries[ei], args.tier);
        counts[ei].store(cs.len() as u64, Ordering::SeqCst);
        seeds_used[ei].store(cs.iter().filter(|c| c.origin.starts_with("valid(")).count() as u64, Ordering::SeqCst);
        write_case_file(&scratch.path(&format!("{ei}.cases")), &cs);
        *all_cases[ei].lock().unwrap() = cs;
    });
    let all_cases: Vec<Vec<Case>> = all_cases.into_iter().map(|m| m.into_inner().unwrap()).collect();
    let mut units: Vec<(usize, usize, usize)> = vec![];
    for (ei, c) in counts.iter().enumerate() {
        let n = c.load(Ordering::SeqCst) as usize;
        // the deserializer with zero-sized elements has multi-second cases: spread them
        let chunk = if entries[ei].name == "Vec<Empty>" { ZST_CHUNK } else { CHUNK };
        let mut s = 0;
        while s < n {
            units.push((ei, s, (s + chunk).min(n)));
            s += chunk;
        }
    }
    // largest deserializers first would cluster; interleave by sorting on start offset
    units.sort_by_key(|u| (u.1, u.0));
    let evaluations = AtomicU64::new(0);
    let unconfirmed_hangs = AtomicU64::new(0);
    let confirmed_hangs: Vec<AtomicU64> = entries.iter().map(|_| AtomicU64::new(0)).collect();
    let distinct = DistinctCounter::default();
    let classes: Mutex<BTreeMap<String, u64>> = Mutex::new(BTreeMap::new());
    let coll = Collector::default();
    let affected: Mutex<BTreeMap<String, std::collections::BTreeSet<String>>> = Mutex::new(BTreeMap::new());
    par_for(units.len(), args.seed, |_, ui| {
        let (ei, start, end) = units[ui];
        let e = &entries[ei];
        let cs = &all_cases[ei];
        let mut local: BTreeMap<String, u64> = BTreeMap::new();
        let job = vec![ei.to_string(), scratch.path(&format!("{ei}.cases"))];
        run_range("C21", &job, start, end, &mut |idx, o| {
            evaluations.fetch_add(1, Ordering::Relaxed);
            let c = &cs[idx];
            let mut o = o;
            if matches!(&o, Outcome::Died { kind: "hang", .. }) && confirmed_hangs[ei].load(Ordering::SeqCst) < HANG_CONFIRMATIONS {
                // a hang counts only if it repeats alone in a fresh child (the first
                // HANG_CONFIRMATIONS hangs of a deserializer are repeated; after that many
                // confirmed ones the time limit is trusted for this deserializer)
                let o2 = run_single(&e.name, &hex(&c.bytes));
                if matches!(&o2, Outcome::Died { kind: "hang", .. }) {
                    confirmed_hangs[ei].fetch_add(1, Ordering::SeqCst);
                }
                if !matches!(&o2, Outcome::Died { kind: "hang", .. }) {
                    unconfirmed_hangs.fetch_add(1, Ordering::Relaxed);
                }
                o = o2;
            }
            if !c.bytes.is_empty() {
                let mut key = e.name.as_bytes().to_vec();
                key.push(0);
                key.extend_from_slice(&c.bytes);
                distinct.insert(&key);
            }
            *local.entry(outcome_class(&o)).or_insert(0) += 1;
            if let Some((sig, text)) = classify(e, &o) {
                affected.lock().unwrap().entry(sig.clone()).or_default().insert(e.name.clone());
                let what = format!("{}: {} on input {} [{}]", e.name, text, hex(&c.bytes), c.origin);
                coll.add(&sig, (c.bytes.len(), ei * 1_000_000 + idx), &what, json!({"check": "C21", "deserializer": e.name, "bytes": hex(&c.bytes), "origin": c.origin, "observed": outcome_class(&o)}));
            }
        });
        let mut g = classes.lock().unwrap();
        for (k, v) in local {
            *g.entry(k).or_insert(0) += v;
        }
    });
    // 2. confirm the representative of every class once more, alone in a child
    for (sig, _, _, rep) in coll.signatures() {
        if sig.contains("|hang|") {
            continue; // every hang was already repeated alone when it was seen
        }
        let name = rep["deserializer"].as_str().unwrap_or("").to_string();
        let e = find_entry(&name);
        let o = run_single(&name, rep["bytes"].as_str().unwrap_or(""));
        let again = classify(&e, &o).map(|x| x.0);
        if again.as_deref() != Some(sig.as_str()) {
            engine::machinery_failure(&format!("violation did not reproduce: {sig} became {again:?}"));
        }
    }
    let classes = classes.into_inner().unwrap();
    let affected = affected.into_inner().unwrap();
    report.set("evaluations", json!(evaluations.load(Ordering::Relaxed)));
    report.set("distinct_nontrivial", json!(distinct.len()));
    report.set(
        "rule",
        json!("per deserializer: all strings of length <=3 over {00,01,7f,80,ff}; 8-byte little-endian boundary value + <=2 alphabet bytes, also behind a tag byte 0..20,ff; for each chosen valid encoding: every truncation, every 8-byte window at every offset replaced by each of {0,1,r-1,r,r+1,v-1,v+1,2^31,2^32,2^63-1,2^63,2^64-1} (r = bytes remaining after the window, v = original value), every byte replaced by each of {00,01,02,7f,80,ff}; inputs de-duplicated per deserializer; distinct_nontrivial = distinct non-empty (deserializer, input) pairs; oracle: Ok or Err, no panic, no abort, no single allocation request above 256 MiB, result within the wall limit"),
    );
    report.set("deserializers", json!(entries.len()));
    report.set("seed_grid_cap", json!(SEED_GRID_CAP));
    report.set("seed_bytes_per_deserializer", json!(args.tier.pick(SEED_BYTES_QUICK, SEED_BYTES_THOROUGH)));
    report.set("max_seeds_per_deserializer", json!(args.tier.pick(MAX_SEEDS_QUICK, MAX_SEEDS_THOROUGH)));
    report.set("allocation_limit_bytes", json!(crate::alloc::LIMIT));
    report.set("case_wall_limit_ms", json!(crate::child::wall_limit_ms()));
    report.set("cases_per_deserializer", Value::Array(entries.iter().enumerate().map(|(i, e)| json!([e.name, counts[i].load(Ordering::SeqCst), seeds_used[i].load(Ordering::SeqCst)])).collect()));
    report.set("outcome_classes", json!(classes));
    report.set("distinct_outcome_classes", json!(classes.len()));
    report.set("violating_cases", json!(coll.total()));
    report.set("slow_cases_not_confirmed_as_hang", json!(unconfirmed_hangs.load(Ordering::Relaxed)));
    report.set("deserializers_affected_per_signature", json!(affected.iter().map(|(k, v)| (k.clone(), v.iter().cloned().collect::<Vec<_>>())).collect::<BTreeMap<_, _>>()));
    report.set("exhaustive", json!(true));
    report.assume("Vec<Empty> (zero-sized elements): only the mutations of valid encodings and the <=3-byte strings are enumerated, because every longer string is a multi-second loop");
    for (i, e) in entries.iter().enumerate().filter(|(i, _)| i % 20 == 5) {
        let cs = &all_cases[i];
        if let Some(c) = cs.iter().rev().find(|c| c.origin.starts_with("field8")) {
            report.sample(json!({"deserializer": e.name, "input": hex(&c.bytes), "origin": c.origin}));
        }
    }
    coll.flush(&report);
    report.finish()
}

fn run_single(name: &str, hexbytes: &str) -> Outcome {
    let mut got = None;
    run_range("C21", &["hex".to_string(), name.to_string(), hexbytes.to_string()], 0, 1, &mut |_, o| got = Some(o));
    got.unwrap_or_else(|| engine::machinery_failure("no outcome from child"))
}

fn replay(file: &str) -> i32 {
    let text = std::fs::read_to_string(file).unwrap_or_else(|e| engine::machinery_failure(&format!("replay file: {e}")));
    let v: Value = serde_json::from_str(&text).unwrap_or_else(|e| engine::machinery_failure(&format!("replay file: {e}")));
    let r = if v.get("replay").is_some() { &v["replay"] } else { &v };
    let name = r["deserializer"].as_str().unwrap_or("");
    let bytes = r["bytes"].as_str().unwrap_or("");
    let e = find_entry(name);
    let o = run_single(name, bytes);
    println!("deserializer={name} input={bytes}");
    println!("OBSERVED {}", outcome_class(&o));
    match classify(&e, &o) {
        Some((sig, text)) => {
            println!("signature={sig} {text}");
            println!("VIOLATION property=C21 replay={file}");
            1
        }
        None => 0,
    }
}
