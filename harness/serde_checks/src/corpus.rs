//! The compiled type corpus: one type-erased `Entry` per deserializer.

use crate::grid::*;
use crate::types::*;
use agdb::*;
use engine::{Panicked, catch};
use std::fmt::Debug;
use std::net::{IpAddr, SocketAddr};
use std::path::PathBuf;
use std::time::SystemTime;

/// outcome of one C20 oracle evaluation
pub struct C20Result {
    pub bytes: Vec<u8>,
    pub value: String,
    /// (failure kind, detail, panic)
    pub failure: Option<(String, String, Option<Panicked>)>,
}

pub enum Decoded {
    Ok,
    Err(String),
}

pub struct Entry {
    pub name: String,
    /// builtin | query | derived | tryfrom
    pub kind: &'static str,
    pub grid_len: fn(usize) -> usize,
    /// evaluates the C20 oracle on grid value `i`
    pub c20: fn(usize, usize) -> Option<C20Result>,
    /// valid encodings of the whole grid (input seeds of C21)
    pub encodings: fn(usize) -> Vec<Vec<u8>>,
    /// runs the deserializer (NOT under catch; the caller contains it)
    pub decode: fn(&[u8]) -> Decoded,
}

fn short(s: String) -> String {
    if s.len() > 300 {
        let mut cut = 300;
        while !s.is_char_boundary(cut) {
            cut -= 1;
        }
        format!("{}…", &s[..cut])
    } else {
        s
    }
}

thread_local! {
    /// one grid per (type, budget) and thread, so that `c20(i)` is O(1) amortised
    static CACHE: std::cell::RefCell<std::collections::HashMap<(std::any::TypeId, usize), Box<dyn std::any::Any>>> = std::cell::RefCell::new(Default::default());
}

fn with_grid<T: Grid + 'static, R>(budget: usize, f: impl FnOnce(&Vec<T>) -> R) -> R {
    let key = (std::any::TypeId::of::<T>(), budget);
    let have = CACHE.with(|c| c.borrow().contains_key(&key));
    if !have {
        let g: Vec<T> = T::grid(budget);
        CACHE.with(|c| c.borrow_mut().insert(key, Box::new(g)));
    }
    CACHE.with(|c| {
        let c = c.borrow();
        let g = c.get(&key).unwrap().downcast_ref::<Vec<T>>().unwrap();
        f(g)
    })
}

pub fn drop_grid_cache() {
    CACHE.with(|c| c.borrow_mut().clear());
}

const TRAILERS: &[&[u8]] = &[&[0x00], &[0xff, 0xff, 0xff, 0xff, 0xff, 0xff, 0xff, 0xff, 0xff], &[0x01, 0x00, 0x00, 0x00, 0x00, 0x00, 0x00, 0x00, 0x41]];

fn c20_one<T: AgdbSerialize + BitEq + Debug>(x: &T) -> C20Result {
    let value = short(format!("{x:?}"));
    let ser = catch(|| (x.serialize(), x.serialized_size()));
    let (bytes, size) = match ser {
        Ok(v) => v,
        Err(p) => return C20Result { bytes: vec![], value, failure: Some(("panic".into(), "serialize/serialized_size panicked".into(), Some(p))) },
    };
    let mut failure = None;
    if size != bytes.len() as u64 {
        failure = Some(("size-mismatch".to_string(), format!("serialized_size()={} but serialize() produced {} bytes", size, bytes.len()), None));
    }
    if failure.is_none() {
        match catch(|| T::deserialize(&bytes)) {
            Err(p) => failure = Some(("panic".into(), "deserialize of own encoding panicked".into(), Some(p))),
            Ok(Err(e)) => failure = Some(("decode-error".into(), format!("deserialize of own encoding failed: {}", e.description), None)),
            Ok(Ok(y)) => {
                if !x.bit_eq(&y) {
                    failure = Some(("roundtrip-mismatch".into(), short(format!("decoded {y:?}")), None));
                } else {
                    match catch(|| y.serialize()) {
                        Ok(b2) if b2 == bytes => {}
                        Ok(_) => failure = Some(("reencode-mismatch".into(), "serialize(deserialize(bytes)) != bytes".into(), None)),
                        Err(p) => failure = Some(("panic".into(), "re-serialize panicked".into(), Some(p))),
                    }
                }
            }
        }
    }
    if failure.is_none() {
        for t in TRAILERS {
            let mut b = bytes.clone();
            b.extend_from_slice(t);
            match catch(|| T::deserialize(&b)) {
                Err(p) => failure = Some(("panic".into(), "deserialize with trailing bytes panicked".into(), Some(p))),
                Ok(Err(e)) => failure = Some(("trailing-bytes-decode-error".into(), format!("{} trailing bytes: {}", t.len(), e.description), None)),
                Ok(Ok(y)) => {
                    if !x.bit_eq(&y) {
                        failure = Some(("trailing-bytes-mismatch".into(), short(format!("{} trailing bytes: decoded {y:?}", t.len())), None));
                    }
                }
            }
            if failure.is_some() {
                break;
            }
        }
    }
    C20Result { bytes, value, failure }
}

fn c20_at<T: AgdbSerialize + Grid + BitEq + Debug + 'static>(budget: usize, i: usize) -> Option<C20Result> {
    with_grid::<T, _>(budget, |g| g.get(i).map(c20_one))
}

fn grid_len<T: Grid + 'static>(budget: usize) -> usize {
    with_grid::<T, _>(budget, |g| g.len())
}

fn encodings<T: AgdbSerialize + Grid + 'static>(budget: usize) -> Vec<Vec<u8>> {
    with_grid::<T, _>(budget, |g| g.iter().filter_map(|x| catch(|| x.serialize()).ok()).collect())
}

fn decode<T: AgdbSerialize>(bytes: &[u8]) -> Decoded {
    match T::deserialize(bytes) {
        Ok(_) => Decoded::Ok,
        Err(e) => Decoded::Err(e.description),
    }
}

fn entry<T: AgdbSerialize + Grid + BitEq + Debug + 'static>(name: &str, kind: &'static str) -> Entry {
    Entry { name: name.to_string(), kind, grid_len: grid_len::<T>, c20: c20_at::<T>, encodings: encodings::<T>, decode: decode::<T> }
}

// --- typed conversions of byte-array values (C21 only) -----------------------

fn tf_decode<T: TryFrom<DbValue, Error = DbError>>(bytes: &[u8]) -> Decoded {
    match T::try_from(DbValue::Bytes(bytes.to_vec())) {
        Ok(_) => Decoded::Ok,
        Err(e) => Decoded::Err(e.description),
    }
}

fn tf_encodings<E: Into<DbValue> + Grid + 'static>(budget: usize) -> Vec<Vec<u8>> {
    // a Vec<E> is stored as Bytes(serialize(Vec<DbValue>)) when E maps to
    // Bytes, and the conversion accepts any serialized Vec<DbValue>
    let mut out = vec![];
    for v in Vec::<E>::grid(budget) {
        let dv: Vec<DbValue> = v.into_iter().map(|e| e.into()).collect();
        out.push(AgdbSerialize::serialize(&dv));
    }
    out
}

fn no_c20(_: usize, _: usize) -> Option<C20Result> {
    None
}
fn zero(_: usize) -> usize {
    0
}

fn tf_entry<T: TryFrom<DbValue, Error = DbError>, E: Into<DbValue> + Grid + 'static>(name: &str) -> Entry {
    Entry { name: name.to_string(), kind: "tryfrom", grid_len: zero, c20: no_c20, encodings: tf_encodings::<E>, decode: tf_decode::<T> }
}

fn tf_single_encodings<E: AgdbSerialize + Grid + 'static>(budget: usize) -> Vec<Vec<u8>> {
    encodings::<E>(budget)
}

fn tf_single<T: TryFrom<DbValue, Error = DbError> + AgdbSerialize + Grid + 'static>(name: &str) -> Entry {
    Entry { name: name.to_string(), kind: "tryfrom", grid_len: zero, c20: no_c20, encodings: tf_single_encodings::<T>, decode: tf_decode::<T> }
}

pub fn corpus() -> Vec<Entry> {
    let mut v = vec![
        // built-in implementations (serialize.rs, db_f64.rs)
        entry::<i64>("i64", "builtin"),
        entry::<u64>("u64", "builtin"),
        entry::<f64>("f64", "builtin"),
        entry::<usize>("usize", "builtin"),
        entry::<bool>("bool", "builtin"),
        entry::<String>("String", "builtin"),
        entry::<Vec<u8>>("Vec<u8>", "builtin"),
        entry::<Vec<i64>>("Vec<i64>", "builtin"),
        entry::<Vec<u64>>("Vec<u64>", "builtin"),
        entry::<Vec<f64>>("Vec<f64>", "builtin"),
        entry::<Vec<bool>>("Vec<bool>", "builtin"),
        entry::<Vec<String>>("Vec<String>", "builtin"),
        entry::<Vec<Vec<u8>>>("Vec<Vec<u8>>", "builtin"),
        entry::<Vec<Vec<String>>>("Vec<Vec<String>>", "builtin"),
        entry::<PathBuf>("PathBuf", "builtin"),
        entry::<SystemTime>("SystemTime", "builtin"),
        entry::<SocketAddr>("SocketAddr", "builtin"),
        entry::<IpAddr>("IpAddr", "builtin"),
        entry::<Vec<SystemTime>>("Vec<SystemTime>", "builtin"),
        entry::<Vec<SocketAddr>>("Vec<SocketAddr>", "builtin"),
        entry::<DbF64>("DbF64", "builtin"),
        entry::<Vec<DbF64>>("Vec<DbF64>", "builtin"),
        // database value types
        entry::<DbValue>("DbValue", "builtin"),
        entry::<Vec<DbValue>>("Vec<DbValue>", "builtin"),
        entry::<DbKeyValue>("DbKeyValue", "builtin"),
        entry::<Vec<DbKeyValue>>("Vec<DbKeyValue>", "builtin"),
        entry::<DbId>("DbId", "builtin"),
        entry::<DbKeyOrder>("DbKeyOrder", "builtin"),
        // query types
        entry::<QueryId>("QueryId", "query"),
        entry::<QueryIds>("QueryIds", "query"),
        entry::<QueryValues>("QueryValues", "query"),
        entry::<SearchQueryAlgorithm>("SearchQueryAlgorithm", "query"),
        entry::<QueryConditionLogic>("QueryConditionLogic", "query"),
        entry::<QueryConditionModifier>("QueryConditionModifier", "query"),
        entry::<CountComparison>("CountComparison", "query"),
        entry::<Comparison>("Comparison", "query"),
        entry::<KeyValueComparison>("KeyValueComparison", "query"),
        entry::<QueryConditionData>("QueryConditionData", "query"),
        entry::<QueryCondition>("QueryCondition", "query"),
        entry::<SearchQuery>("SearchQuery", "query"),
        entry::<InsertAliasesQuery>("InsertAliasesQuery", "query"),
        entry::<InsertEdgesQuery>("InsertEdgesQuery", "query"),
        entry::<InsertIndexQuery>("InsertIndexQuery", "query"),
        entry::<InsertNodesQuery>("InsertNodesQuery", "query"),
        entry::<InsertValuesQuery>("InsertValuesQuery", "query"),
        entry::<RemoveQuery>("RemoveQuery", "query"),
        entry::<RemoveAliasesQuery>("RemoveAliasesQuery", "query"),
        entry::<RemoveIndexQuery>("RemoveIndexQuery", "query"),
        entry::<RemoveValuesQuery>("RemoveValuesQuery", "query"),
        entry::<SelectAliasesQuery>("SelectAliasesQuery", "query"),
        entry::<SelectAllAliasesQuery>("SelectAllAliasesQuery", "query"),
        entry::<SelectEdgeCountQuery>("SelectEdgeCountQuery", "query"),
        entry::<SelectIndexesQuery>("SelectIndexesQuery", "query"),
        entry::<SelectKeysQuery>("SelectKeysQuery", "query"),
        entry::<SelectKeyCountQuery>("SelectKeyCountQuery", "query"),
        entry::<SelectNodeCountQuery>("SelectNodeCountQuery", "query"),
        entry::<SelectValuesQuery>("SelectValuesQuery", "query"),
        entry::<QueryType>("QueryType", "query"),
        entry::<Vec<QueryType>>("Vec<QueryType>", "query"),
        // user types using the derive macros
        entry::<Empty>("Empty", "derived"),
        entry::<Named>("Named", "derived"),
        entry::<Tuple2>("Tuple2", "derived"),
        entry::<Newtype>("Newtype", "derived"),
        entry::<Floats>("Floats", "derived"),
        entry::<Nested>("Nested", "derived"),
        entry::<Generic<u64>>("Generic<u64>", "derived"),
        entry::<Generic<String>>("Generic<String>", "derived"),
        entry::<Generic<Named>>("Generic<Named>", "derived"),
        entry::<GenericTuple<f64>>("GenericTuple<f64>", "derived"),
        entry::<GenericTuple<Mixed>>("GenericTuple<Mixed>", "derived"),
        entry::<UnitEnum>("UnitEnum", "derived"),
        entry::<Mixed>("Mixed", "derived"),
        entry::<Times>("Times", "derived"),
        entry::<Vecs>("Vecs", "derived"),
        entry::<WithValue>("WithValue", "derived"),
        entry::<VecOfEnum>("VecOfEnum", "derived"),
        entry::<VecOfEmpty>("VecOfEmpty", "derived"),
        entry::<Vec<Empty>>("Vec<Empty>", "derived"),
        entry::<Deep>("Deep", "derived"),
        entry::<Wide>("Wide", "derived"),
        entry::<Status>("Status", "derived"),
        entry::<Attribute>("Attribute", "derived"),
        entry::<Vec<Attribute>>("Vec<Attribute>", "derived"),
        entry::<GenericValue<u64>>("GenericValue<u64>", "derived"),
        entry::<GenericValue<Status>>("GenericValue<Status>", "derived"),
        // how the type is declared
        entry::<Priority>("Priority", "derived"),
        entry::<Gap>("Gap", "derived"),
        entry::<ReprU8>("ReprU8", "derived"),
        entry::<ReprI32>("ReprI32", "derived"),
        entry::<MixedRepr>("MixedRepr", "derived"),
        entry::<OneUnit>("OneUnit", "derived"),
        entry::<OneTuple>("OneTuple", "derived"),
        entry::<OneStruct>("OneStruct", "derived"),
        entry::<UnitStruct>("UnitStruct", "derived"),
        entry::<Tuple0>("Tuple0", "derived"),
        entry::<Tuple5>("Tuple5", "derived"),
        entry::<Pair<u64, String>>("Pair<u64,String>", "derived"),
        entry::<Pair<Priority, MixedRepr>>("Pair<Priority,MixedRepr>", "derived"),
        entry::<Pair<Vec<u8>, Gap>>("Pair<Vec<u8>,Gap>", "derived"),
        entry::<Generic<Priority>>("Generic<Priority>", "derived"),
        entry::<Generic<Vec<u8>>>("Generic<Vec<u8>>", "derived"),
        entry::<GenericTuple<ReprU8>>("GenericTuple<ReprU8>", "derived"),
        entry::<ConstGen<3>>("ConstGen<3>", "derived"),
        entry::<ConstGen<0>>("ConstGen<0>", "derived"),
        entry::<DeclNest>("DeclNest", "derived"),
        entry::<Vec<Priority>>("Vec<Priority>", "derived"),
        entry::<Vec<MixedRepr>>("Vec<MixedRepr>", "derived"),
        entry::<crate::many::Many130>("Many130", "derived"),
        entry::<crate::many::Many256>("Many256", "derived"),
        entry::<Vec<crate::many::Many256>>("Vec<Many256>", "derived"),
        entry::<crate::many257::Many257>("Many257", "derived"),
    ];
    // typed conversions of byte-array values
    v.push(tf_entry::<Vec<i64>, Status>("Vec<i64>::try_from(DbValue::Bytes)"));
    v.push(tf_entry::<Vec<u64>, Attribute>("Vec<u64>::try_from(DbValue::Bytes)"));
    v.push(tf_entry::<Vec<f64>, Status>("Vec<f64>::try_from(DbValue::Bytes)"));
    v.push(tf_entry::<Vec<String>, Status>("Vec<String>::try_from(DbValue::Bytes)"));
    v.push(tf_entry::<Vec<Vec<u8>>, Status>("Vec<Vec<u8>>::try_from(DbValue::Bytes)"));
    v.push(tf_entry::<Vec<Status>, Status>("Vec<Status>::try_from(DbValue::Bytes)"));
    v.push(tf_entry::<Vec<Attribute>, Attribute>("Vec<Attribute>::try_from(DbValue::Bytes)"));
    v.push(tf_entry::<Vec<SystemTime>, SystemTime>("Vec<SystemTime>::try_from(DbValue::Bytes)"));
    v.push(tf_entry::<Vec<bool>, Status>("Vec<bool>::try_from(DbValue::Bytes)"));
    v.push(tf_single::<SystemTime>("SystemTime::try_from(DbValue::Bytes)"));
    v.push(tf_single::<Status>("Status::try_from(DbValue::Bytes)"));
    v.push(tf_single::<Attribute>("Attribute::try_from(DbValue::Bytes)"));
    v.push(tf_single::<GenericValue<Status>>("GenericValue<Status>::try_from(DbValue::Bytes)"));
    v
}
