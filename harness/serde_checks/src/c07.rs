//! C07 — opening or reading a damaged database file never crashes the process.
//! Seed files from scripted histories; the complete damage space of each
//! seed (truncations, single-bit flips, aligned 8-byte fields x boundary
//! values, crafted record headers, damaged / crafted recovery logs, tiny
//! files), each with and without a recovery log; every damaged pair is opened
//! with Db, DbFile and DbMemory and, if it opens, fully read. Runs in child
//! processes (child.rs).

use crate::child::{Outcome, STAGE, child_fail, child_main, child_range, run_range_opt};
use crate::viol::Collector;
use agdb::{Db, DbError, DbFile, DbImpl, DbMemory, DbValue, QueryBuilder, QueryResult, StorageData};
use engine::{Args, DistinctCounter, Report, Scratch, Tier, catch, par_for};
use serde_json::{Value, json};
use std::collections::BTreeMap;
use std::sync::atomic::{AtomicU64, Ordering};
use std::sync::{Arc, Mutex};

pub const VARIANTS: [&str; 3] = ["Db", "DbFile", "DbMemory"];
pub const FIELD_VALUES: usize = 10;
pub const CRAFTED_HEADERS: usize = 6;
pub const CRAFTED_WAL_RECORDS: usize = 32;
pub const TINY_ALPHABET: [u8; 4] = [0x00, 0x01, 0x80, 0xff];
pub const DUMP_ID_CAP: usize = 64;
pub const SEARCH_ORIGIN_CAP: usize = 8;
/// each seed's cases are dealt round-robin to this many long-lived children
/// (a fresh process pays seconds for the first touch of large blocks, see alloc.rs)
pub const LANES: usize = 16;
pub const HANG_CONFIRMATIONS: u64 = 6;

// ---------------------------------------------------------------------------
// seeds

pub struct Seed {
    pub name: &'static str,
    pub data: Vec<u8>,
    /// a valid, non-empty recovery log for `data` (its records rewrite
    /// regions with their current content and keep the length)
    pub wal: Vec<u8>,
}

fn q<S: StorageData>(db: &mut DbImpl<S>, r: Result<QueryResult, DbError>) -> QueryResult {
    let _ = db;
    r.unwrap_or_else(|e| engine::machinery_failure(&format!("seed history failed: {}", e.description)))
}

fn history(name: &str, db: &mut DbFile) {
    macro_rules! m {
        ($q:expr) => {{
            let r = db.exec_mut($q);
            q(db, r)
        }};
    }
    if name == "empty" {
        return;
    }
    if name == "mini" {
        // no alias, no index (each of them adds several KiB of tables): one node and one
        // edge with inline and out-of-line values
        m!(QueryBuilder::insert().nodes().values([[("s", "a string longer than fifteen bytes").into(), ("i", -1).into()], [("v", vec![1_i64, -2]).into(), ("f", 1.5).into()]]).query());
        m!(QueryBuilder::insert().edges().from(1).to(2).values([[("b", vec![9_u8; 17]).into(), ("t", vec!["a", "b"]).into()]]).query());
        return;
    }
    if name == "tiny" {
        // no aliases (the first alias grows the alias maps by ~7 KiB): two nodes, an edge,
        // inline and out-of-line values of several types, one index
        m!(QueryBuilder::insert().index("k").query());
        m!(QueryBuilder::insert().nodes().count(2).values_uniform([("k", 1).into(), ("text", "a string longer than fifteen bytes").into()]).query());
        m!(QueryBuilder::insert().edges().from(1).to(2).values([[("w", 1.5).into(), ("v", vec![1_i64, -2]).into(), ("s", vec!["a", "b"]).into()]]).query());
        m!(QueryBuilder::insert().values([[("u", 7_u64).into(), ("b", vec![9_u8; 17]).into(), ("vu", vec![3_u64]).into(), ("vf", vec![0.5_f64]).into()]]).ids(2).query());
        m!(QueryBuilder::remove().values(["text"]).ids(1).query());
        return;
    }
    // common prefix: aliases, inline and out-of-line values, an edge, an index
    m!(QueryBuilder::insert().nodes().aliases(["root"]).values([[("name", "root").into()]]).query());
    m!(QueryBuilder::insert().index("k").query());
    m!(QueryBuilder::insert().nodes().count(2).values_uniform([("k", 1).into(), ("text", "a string longer than fifteen bytes").into()]).query());
    m!(QueryBuilder::insert().edges().from("root").to([2, 3]).values_uniform([("w", 1.5).into()]).query());
    if name == "small" {
        return;
    }
    m!(QueryBuilder::insert().nodes().aliases(["users", "docs"]).values(vec![vec![("list", vec![1_i64, -2, 3]).into(), ("blob", vec![7_u8; 20]).into()], vec![("names", vec!["alice", "bob"]).into(), ("f", vec![1.5_f64, -0.0]).into(), ("u", vec![1_u64, 2]).into()]]).query());
    m!(QueryBuilder::insert().index("text").query());
    m!(QueryBuilder::insert().nodes().count(4).values_uniform([("k", 2).into(), ("text", "short").into(), ("pad", "x".repeat(40)).into()]).query());
    m!(QueryBuilder::insert().edges().from("users").to([8, 9, 10, 11]).query());
    // free regions: remove values, a node (with its edges) and an alias
    m!(QueryBuilder::remove().values(["pad"]).ids([8, 10]).query());
    m!(QueryBuilder::remove().ids(9).query());
    m!(QueryBuilder::remove().aliases("docs").query());
    m!(QueryBuilder::insert().values([[("text", "replaced by a considerably longer string value").into()]]).ids(2).query());
    if name == "rich" {
        return;
    }
    if name == "optimized" {
        db.optimize_storage().unwrap_or_else(|e| engine::machinery_failure(&format!("optimize: {}", e.description)));
        return;
    }
    // "wide": more elements, more index entries, removed index
    for i in 0..6 {
        m!(QueryBuilder::insert().nodes().aliases([format!("n{i}")]).values([[("k", i).into(), ("text", format!("text value number {i} of some length")).into(), ("v", vec![i as u64; i as usize]).into()]]).query());
    }
    m!(QueryBuilder::insert().edges().from(["n0", "n1", "n2"]).to(["n3", "n4", "n5"]).each().values_uniform([("w", 2).into()]).query());
    m!(QueryBuilder::remove().index("text").query());
    m!(QueryBuilder::remove().ids(["n1", "n4"]).query());
}

fn valid_wal(data: &[u8]) -> Vec<u8> {
    let mut w = vec![];
    let mut rec = |pos: u64, bytes: &[u8]| {
        w.extend_from_slice(&pos.to_le_bytes());
        w.extend_from_slice(&(bytes.len() as u64).to_le_bytes());
        w.extend_from_slice(bytes);
    };
    let l = data.len();
    rec(0, &data[..24.min(l)]);
    if l >= 64 {
        let mid = (l / 2) & !7;
        rec(mid as u64, &data[mid..mid + 16]);
        rec((l - 8) as u64, &data[l - 8..]);
    }
    // an empty record restores the length
    rec(l as u64, &[]);
    w
}

pub fn seed_names(tier: Tier) -> Vec<&'static str> {
    // VERIF_C07_SEEDS=all adds the three ~11 KiB seeds (about 45 more minutes on a busy machine)
    if std::env::var("VERIF_C07_SEEDS").as_deref() == Ok("all") {
        return vec!["mini", "empty", "tiny", "small", "rich", "optimized", "wide"];
    }
    tier.pick(vec!["mini"], vec!["mini", "empty", "tiny", "small"])
}

pub fn make_all_seeds() -> Vec<Seed> {
    make_named_seeds(vec!["mini", "empty", "tiny", "small", "rich", "optimized", "wide"])
}

pub fn make_seeds(tier: Tier) -> Vec<Seed> {
    make_named_seeds(seed_names(tier))
}

fn make_named_seeds(names: Vec<&'static str>) -> Vec<Seed> {
    let scratch = Scratch::new("c07seed");
    names
        .into_iter()
        .map(|name| {
            scratch.clear();
            let path = scratch.path("seed.agdb");
            {
                let mut db = DbFile::new(&path).unwrap_or_else(|e| engine::machinery_failure(&format!("seed db: {}", e.description)));
                history(name, &mut db);
            }
            let data = std::fs::read(&path).unwrap_or_else(|e| engine::machinery_failure(&format!("seed read: {e}")));
            let wal = valid_wal(&data);
            Seed { name, data, wal }
        })
        .collect()
}

// ---------------------------------------------------------------------------
// damage space

#[derive(Clone, Debug)]
pub enum Damage {
    None,
    Truncate(usize),
    BitFlip(usize),
    Field8 { off: usize, val: u64 },
    Header { pos: usize, k: usize },
    WalTruncate(usize),
    WalBitFlip(usize),
    WalCrafted(usize),
    Tiny(Vec<u8>),
}

#[derive(Clone, Debug)]
pub struct Case {
    pub damage: Damage,
    /// with the valid recovery log beside the data file (ignored for the Wal* damages)
    pub with_wal: bool,
}

fn field_values(len: u64) -> [u64; FIELD_VALUES] {
    [0, 1, 2, len.wrapping_sub(1), len, len + 1, 1 << 31, 1 << 32, 1 << 63, u64::MAX]
}

/// positions of the 16-byte record headers (the walk of Storage::read_records)
pub fn record_positions(data: &[u8]) -> Vec<usize> {
    let mut out = vec![];
    let mut pos = 0usize;
    while pos + 16 <= data.len() {
        out.push(pos);
        let size = u64::from_le_bytes(data[pos + 8..pos + 16].try_into().unwrap());
        let next = (pos as u64).saturating_add(16).saturating_add(size);
        if next > data.len() as u64 {
            break;
        }
        pos = next as usize;
    }
    out
}

fn crafted_header(data: &[u8], pos: usize, k: usize) -> [u8; 16] {
    let index = u64::from_le_bytes(data[pos..pos + 8].try_into().unwrap());
    let size = u64::from_le_bytes(data[pos + 8..pos + 16].try_into().unwrap());
    let remaining = (data.len() - pos - 16) as u64;
    let (i, s) = match k {
        0 => (0, size),                  // live record turned into free space
        1 => (index, 0),                 // empty value
        2 => (index, remaining + 1),     // one byte past the end
        3 => (index, u64::MAX),          // absurd size
        4 => (1 << 32, size),            // absurd index
        _ => (index.wrapping_add(1), size), // index of a neighbour
    };
    let mut h = [0u8; 16];
    h[..8].copy_from_slice(&i.to_le_bytes());
    h[8..].copy_from_slice(&s.to_le_bytes());
    h
}

fn crafted_wal(data: &[u8], k: usize) -> Vec<u8> {
    let l = data.len() as u64;
    let positions = [0u64, 16, l.saturating_sub(1), l, l + 1, 1 << 20, 1 << 40, u64::MAX];
    let pos = positions[k / 4];
    let mut w = vec![];
    w.extend_from_slice(&pos.to_le_bytes());
    match k % 4 {
        0 => w.extend_from_slice(&0u64.to_le_bytes()), // empty record: set the length to pos
        1 => {
            w.extend_from_slice(&1u64.to_le_bytes());
            w.push(0xff);
        }
        2 => {
            // a record header claiming an absurd value
            w.extend_from_slice(&16u64.to_le_bytes());
            w.extend_from_slice(&2u64.to_le_bytes());
            w.extend_from_slice(&u64::MAX.to_le_bytes());
        }
        _ => {
            // declared length far beyond the log
            w.extend_from_slice(&(1u64 << 63).to_le_bytes());
            w.extend_from_slice(&[1, 2, 3]);
        }
    }
    w
}

/// the complete case list of one seed (deterministic)
pub fn cases(seed: &Seed) -> Vec<Case> {
    let l = seed.data.len();
    let mut data_damages = vec![Damage::None];
    for k in 0..l {
        data_damages.push(Damage::Truncate(k));
    }
    for bit in 0..8 * l {
        data_damages.push(Damage::BitFlip(bit));
    }
    for off in (0..l.saturating_sub(7)).step_by(8) {
        let cur = u64::from_le_bytes(seed.data[off..off + 8].try_into().unwrap());
        for val in field_values(l as u64) {
            if val != cur {
                data_damages.push(Damage::Field8 { off, val });
            }
        }
    }
    for pos in record_positions(&seed.data) {
        for k in 0..CRAFTED_HEADERS {
            data_damages.push(Damage::Header { pos, k });
        }
    }
    for a in 0..=3usize {
        // all strings of length a over the alphabet
        let n = TINY_ALPHABET.len().pow(a as u32);
        for mut code in 0..n {
            let mut v = vec![];
            for _ in 0..a {
                v.push(TINY_ALPHABET[code % TINY_ALPHABET.len()]);
                code /= TINY_ALPHABET.len();
            }
            data_damages.push(Damage::Tiny(v));
        }
    }
    let mut out = vec![];
    for d in data_damages {
        out.push(Case { damage: d.clone(), with_wal: false });
        out.push(Case { damage: d, with_wal: true });
    }
    for k in 0..seed.wal.len() {
        out.push(Case { damage: Damage::WalTruncate(k), with_wal: true });
    }
    for bit in 0..8 * seed.wal.len() {
        out.push(Case { damage: Damage::WalBitFlip(bit), with_wal: true });
    }
    for k in 0..CRAFTED_WAL_RECORDS {
        out.push(Case { damage: Damage::WalCrafted(k), with_wal: true });
    }
    out
}

/// (data file, recovery log or None)
pub fn materialise(seed: &Seed, c: &Case) -> (Vec<u8>, Option<Vec<u8>>) {
    let mut data = seed.data.clone();
    let mut wal = if c.with_wal { Some(seed.wal.clone()) } else { None };
    match &c.damage {
        Damage::None => {}
        Damage::Truncate(k) => data.truncate(*k),
        Damage::BitFlip(bit) => data[bit / 8] ^= 1 << (bit % 8),
        Damage::Field8 { off, val } => data[*off..*off + 8].copy_from_slice(&val.to_le_bytes()),
        Damage::Header { pos, k } => {
            let h = crafted_header(&seed.data, *pos, *k);
            data[*pos..*pos + 16].copy_from_slice(&h);
        }
        Damage::WalTruncate(k) => wal = Some(seed.wal[..*k].to_vec()),
        Damage::WalBitFlip(bit) => {
            let mut w = seed.wal.clone();
            w[bit / 8] ^= 1 << (bit % 8);
            wal = Some(w);
        }
        Damage::WalCrafted(k) => wal = Some(crafted_wal(&seed.data, *k)),
        Damage::Tiny(v) => data = v.clone(),
    }
    (data, wal)
}

// ---------------------------------------------------------------------------
// executing one case (child side)

const STAGES: [&str; 3] = ["open", "read", "drop"];

/// One violation observed in-process: (variant, stage, message, file, location)
struct Hit {
    variant: usize,
    stage: usize,
    msg: String,
    file: String,
    loc: String,
}

fn full_read<S: StorageData>(db: &DbImpl<S>, hits: &mut Vec<Hit>, variant: usize) -> usize {
    // every query separately contained: one panic must not hide another
    let mut results = 0usize;
    let mut run = |f: &mut dyn FnMut() -> Result<QueryResult, DbError>, hits: &mut Vec<Hit>| -> Option<QueryResult> {
        match catch(|| f()) {
            Ok(Ok(r)) => {
                results += 1;
                Some(r)
            }
            Ok(Err(_)) => None,
            Err(p) => {
                if !hits.iter().any(|h| h.variant == variant && h.stage == 1 && h.msg == p.normalised() && h.file == p.file()) {
                    hits.push(Hit { variant, stage: 1, msg: p.normalised(), file: p.file(), loc: p.location.clone() });
                }
                None
            }
        }
    };
    let all = run(&mut || db.exec(QueryBuilder::search().elements().query()), hits);
    run(&mut || db.exec(QueryBuilder::select().node_count().query()), hits);
    run(&mut || db.exec(QueryBuilder::select().aliases().query()), hits);
    let indexes = run(&mut || db.exec(QueryBuilder::select().indexes().query()), hits);
    let mut ids: Vec<agdb::DbId> = all.map(|r| r.ids()).unwrap_or_default();
    ids.truncate(DUMP_ID_CAP);
    // ids the seed histories use, in case the element search fails or misses them
    for i in 1..=3 {
        for id in [agdb::DbId(i), agdb::DbId(-i)] {
            if !ids.contains(&id) {
                ids.push(id);
            }
        }
    }
    let mut seen_values: Vec<(DbValue, DbValue)> = vec![];
    for id in &ids {
        let id = *id;
        if let Some(r) = run(&mut || db.exec(QueryBuilder::select().ids(id).query()), hits) {
            for e in &r.elements {
                for kv in &e.values {
                    if seen_values.len() < 40 {
                        seen_values.push((kv.key.clone(), kv.value.clone()));
                    }
                }
            }
        }
        run(&mut || db.exec(QueryBuilder::select().keys().ids(id).query()), hits);
        run(&mut || db.exec(QueryBuilder::select().key_count().ids(id).query()), hits);
        run(&mut || db.exec(QueryBuilder::select().edge_count().ids(id).query()), hits);
        run(&mut || db.exec(QueryBuilder::select().aliases().ids(id).query()), hits);
    }
    for id in ids.iter().take(SEARCH_ORIGIN_CAP) {
        let id = *id;
        run(&mut || db.exec(QueryBuilder::search().from(id).limit(50).query()), hits);
        run(&mut || db.exec(QueryBuilder::search().to(id).limit(50).query()), hits);
    }
    for alias in ["root", "users", "docs", "n0", "n5"] {
        run(&mut || db.exec(QueryBuilder::select().ids(alias).query()), hits);
    }
    // index searches: every index key x (values seen under that key + two fixed ones)
    let mut index_keys: Vec<DbValue> = vec!["k".into(), "text".into()];
    if let Some(r) = indexes {
        for e in &r.elements {
            for kv in &e.values {
                if !index_keys.contains(&kv.key) {
                    index_keys.push(kv.key.clone());
                }
            }
        }
    }
    for key in index_keys.iter().take(6) {
        let mut vals: Vec<DbValue> = vec![1.into(), "short".into()];
        for (k, v) in &seen_values {
            if k == key && !vals.contains(v) && vals.len() < 8 {
                vals.push(v.clone());
            }
        }
        for v in vals {
            run(&mut || db.exec(QueryBuilder::search().index(key.clone()).value(v.clone()).query()), hits);
        }
    }
    results
}

fn open_and_read<S: StorageData>(open: &dyn Fn() -> Result<DbImpl<S>, DbError>, variant: usize, hits: &mut Vec<Hit>) -> String {
    STAGE.store((variant * 10) as u64, Ordering::SeqCst);
    let opened = catch(|| open());
    match opened {
        Err(p) => {
            hits.push(Hit { variant, stage: 0, msg: p.normalised(), file: p.file(), loc: p.location });
            "p".into()
        }
        Ok(Err(_)) => "e".into(),
        Ok(Ok(db)) => {
            STAGE.store((variant * 10 + 1) as u64, Ordering::SeqCst);
            let n = full_read(&db, hits, variant);
            STAGE.store((variant * 10 + 2) as u64, Ordering::SeqCst);
            if let Err(p) = catch(move || drop(db)) {
                hits.push(Hit { variant, stage: 2, msg: p.normalised(), file: p.file(), loc: p.location });
            }
            format!("o{}", if n > 40 { "+" } else { "-" })
        }
    }
}

fn wal_path(path: &str) -> String {
    let (dir, name) = path.rsplit_once('/').unwrap_or(("", path));
    format!("{dir}/.{name}")
}

fn put_files(path: &str, data: &[u8], wal: &Option<Vec<u8>>) {
    let w = wal_path(path);
    let _ = std::fs::remove_file(path);
    let _ = std::fs::remove_file(&w);
    std::fs::write(path, data).unwrap_or_else(|e| child_fail(&format!("write {path}: {e}")));
    if let Some(wal) = wal {
        std::fs::write(&w, wal).unwrap_or_else(|e| child_fail(&format!("write {w}: {e}")));
    }
}

/// payload: `<Db>,<DbFile>,<DbMemory>` (o+/o-/e/p/s) then `;H|variant|stage|msg|file|loc` per violation
fn execute(path: &str, data: &[u8], wal: &Option<Vec<u8>>, only_variant: Option<usize>) -> String {
    let mut hits = vec![];
    let mut classes = vec![];
    for variant in 0..3 {
        if only_variant.is_some_and(|v| v != variant) {
            classes.push("s".to_string());
            continue;
        }
        put_files(path, data, wal);
        let c = match variant {
            0 => open_and_read(&|| Db::new(path), variant, &mut hits),
            1 => open_and_read(&|| DbFile::new(path), variant, &mut hits),
            _ => open_and_read(&|| DbMemory::new(path), variant, &mut hits),
        };
        classes.push(c);
    }
    let mut s = classes.join(",");
    for h in hits {
        s.push_str(&format!(";H|{}|{}|{}|{}|{}", h.variant, h.stage, h.msg.replace([';', '|'], "/"), h.file, h.loc.replace([';', '|'], "/")));
    }
    s
}

fn load_seed(dir: &str, name: &str) -> Seed {
    let data = std::fs::read(format!("{dir}/{name}.seed")).unwrap_or_else(|e| child_fail(&format!("seed file: {e}")));
    let wal = std::fs::read(format!("{dir}/{name}.wal")).unwrap_or_else(|e| child_fail(&format!("seed wal: {e}")));
    let name: &'static str = Box::leak(name.to_string().into_boxed_str());
    Seed { name, data, wal }
}

/// child job: `<seed dir> <seed name> <work dir> <lane> <lanes> [only <variant>]`;
/// position p of the range is case `lane + p * lanes`
pub fn child(args: &Args) -> i32 {
    let (job, start, end) = child_range(&args.extra);
    if job.len() < 5 {
        child_fail("C07 child: job = <seed dir> <seed name> <work dir> <lane> <lanes> [only <variant>]");
    }
    let seed = load_seed(&job[0], &job[1]);
    let work = job[2].clone();
    let lane: usize = job[3].parse().unwrap_or_else(|_| child_fail("bad lane"));
    let lanes: usize = job[4].parse().unwrap_or_else(|_| child_fail("bad lanes"));
    let only = if job.get(5).map(|s| s.as_str()) == Some("only") { job.get(6).and_then(|v| v.parse::<usize>().ok()) } else { None };
    let cs = cases(&seed);
    if end > 0 && lane + (end - 1) * lanes >= cs.len() {
        child_fail("range beyond the case list");
    }
    // the work directory belongs to the parent (a child that dies cannot clean up)
    let _ = std::fs::create_dir_all(&work);
    let path = format!("{work}/db.agdb");
    let code = child_main(
        start,
        end,
        Arc::new(move |p| {
            let (data, wal) = materialise(&seed, &cs[lane + p * lanes]);
            execute(&path, &data, &wal, only)
        }),
    );
    code
}

// ---------------------------------------------------------------------------
// parent

fn describe(c: &Case) -> String {
    format!("{:?}{}", c.damage, if c.with_wal && !matches!(c.damage, Damage::WalTruncate(_) | Damage::WalBitFlip(_) | Damage::WalCrafted(_)) { " + valid recovery log" } else { "" })
}

struct Violation {
    signature: String,
    text: String,
}

fn stage_name(code: u64) -> (usize, &'static str) {
    (((code / 10) as usize).min(2), STAGES[((code % 10) as usize).min(2)])
}

fn classify(o: &Outcome) -> (String, Vec<Violation>) {
    match o {
        Outcome::Line(l) => {
            if let Some(rest) = l.strip_prefix("X|") {
                let mut it = rest.split('|');
                let size = it.next().unwrap_or("?");
                let (v, st) = stage_name(it.next().and_then(|s| s.parse().ok()).unwrap_or(0));
                return (
                    "enormous-allocation".into(),
                    vec![Violation { signature: format!("{}|{}|enormous-allocation||", VARIANTS[v], st), text: format!("{}: {} requested a single allocation of {size} bytes", VARIANTS[v], st) }],
                );
            }
            let mut parts = l.split(';');
            let class = parts.next().unwrap_or("").to_string();
            let mut vs = vec![];
            for h in parts {
                let f: Vec<&str> = h.split('|').collect();
                if f.len() >= 6 && f[0] == "H" {
                    let v: usize = f[1].parse().unwrap_or(0);
                    let st: usize = f[2].parse().unwrap_or(0);
                    vs.push(Violation { signature: format!("{}|{}|panic|{}|{}", VARIANTS[v.min(2)], STAGES[st.min(2)], f[3], f[4]), text: format!("{}: {} panicked: '{}' at {}", VARIANTS[v.min(2)], STAGES[st.min(2)], f[3], f[5]) });
                }
            }
            (class, vs)
        }
        Outcome::Died { kind, detail } => {
            // stage known for hangs ("stage NN: ..."), unknown for plain aborts (attributed by re-running per variant)
            let code = detail.strip_prefix("stage ").and_then(|r| r.split(':').next()).and_then(|s| s.trim().parse::<u64>().ok());
            match code {
                Some(c) => {
                    let (v, st) = stage_name(c);
                    ((*kind).to_string(), vec![Violation { signature: format!("{}|{}|{}||", VARIANTS[v], st, kind), text: format!("{}: {}: {}", VARIANTS[v], st, detail) }])
                }
                None => ((*kind).to_string(), vec![Violation { signature: format!("?|?|{}||", kind), text: detail.clone() }]),
            }
        }
    }
}

pub fn run(args: &Args) -> i32 {
    if args.extra.iter().any(|a| a == "--child") {
        return child(args);
    }
    if let Some(f) = &args.replay {
        return replay(f);
    }
    if let Some(p) = args.extra.iter().position(|a| a == "--time") {
        // development aid: time the three opens of an arbitrary file
        let file = args.extra.get(p + 1).cloned().unwrap_or_default();
        for v in 0..3 {
            let t = std::time::Instant::now();
            let r = catch(|| match v {
                0 => Db::new(&file).map(|_| ()),
                1 => DbFile::new(&file).map(|_| ()),
                _ => DbMemory::new(&file).map(|_| ()),
            });
            println!("{} {:?} {:?}", VARIANTS[v], t.elapsed(), r.map(|x| x.map_err(|e| e.description)).map_err(|p| p.message));
        }
        return 0;
    }
    if let Some(p) = args.extra.iter().position(|a| a == "--seeds") {
        // development aid: write the seed files and print their sizes
        let dir = args.extra.get(p + 1).cloned().unwrap_or_else(|| ".".into());
        for s in make_seeds(args.tier) {
            std::fs::write(format!("{dir}/{}.seed", s.name), &s.data).unwrap();
            std::fs::write(format!("{dir}/{}.wal", s.name), &s.wal).unwrap();
            println!("{} {} bytes, log {} bytes, {} records, {} cases", s.name, s.data.len(), s.wal.len(), record_positions(&s.data).len(), cases(&s).len());
        }
        return 0;
    }
    let report = Report::new(args, "fault_enumeration");
    let unconfirmed_hangs = AtomicU64::new(0);
    let confirmed_hangs = AtomicU64::new(0);
    let seeds = make_seeds(args.tier);
    let scratch = Scratch::new("c07p");
    let dir = scratch.dir.to_string_lossy().to_string();
    let mut units: Vec<(usize, usize, usize)> = vec![];
    let mut all_cases: Vec<Vec<Case>> = vec![];
    for (si, s) in seeds.iter().enumerate() {
        std::fs::write(format!("{dir}/{}.seed", s.name), &s.data).unwrap_or_else(|e| engine::machinery_failure(&format!("seed write: {e}")));
        std::fs::write(format!("{dir}/{}.wal", s.name), &s.wal).unwrap_or_else(|e| engine::machinery_failure(&format!("seed write: {e}")));
        let cs = cases(s);
        for lane in 0..LANES {
            // (seed, lane, number of positions)
            units.push((si, lane, (cs.len() + LANES - 1 - lane) / LANES));
        }
        all_cases.push(cs);
    }
    let evaluations = AtomicU64::new(0);
    let distinct = DistinctCounter::default();
    let classes: Mutex<BTreeMap<String, u64>> = Mutex::new(BTreeMap::new());
    let coll = Collector::default();
    par_for(units.len(), args.seed, |_, ui| {
        let (si, lane, positions) = units[ui];
        let seed = &seeds[si];
        let cs = &all_cases[si];
        let job = vec![dir.clone(), seed.name.to_string(), format!("{dir}/w{ui}"), lane.to_string(), LANES.to_string()];
        let mut local: BTreeMap<String, u64> = BTreeMap::new();
        run_range_opt("C07", &job, 0, positions, true, &mut |pos, o| {
            let idx = lane + pos * LANES;
            evaluations.fetch_add(3, Ordering::Relaxed);
            let c = &cs[idx];
            let (data, wal) = materialise(seed, c);
            let mut key = data.clone();
            key.push(0xfe);
            key.extend(wal.clone().unwrap_or_else(|| vec![0xfd]));
            if data != seed.data || wal.as_ref().is_some_and(|w| *w != seed.wal) {
                // non-trivial: the pair differs from the undamaged seed pair
                distinct.insert(&key);
            }
            let mut o = o;
            if matches!(&o, Outcome::Died { kind: "hang", .. }) && confirmed_hangs.load(Ordering::SeqCst) < HANG_CONFIRMATIONS {
                // a hang counts only if it repeats alone in a fresh child (time limits misfire on a
                // loaded machine); after HANG_CONFIRMATIONS confirmed hangs the limit is trusted
                let mut again = None;
                run_range_opt("C07", &[dir.clone(), seed.name.to_string(), format!("{dir}/w{ui}"), "0".into(), "1".into()], idx, idx + 1, true, &mut |_, o2| again = Some(o2));
                if let Some(o2) = again {
                    if !matches!(&o2, Outcome::Died { kind: "hang", .. }) {
                        unconfirmed_hangs.fetch_add(1, Ordering::Relaxed);
                    } else {
                        confirmed_hangs.fetch_add(1, Ordering::SeqCst);
                    }
                    o = o2;
                }
            }
            let (class, mut vs) = classify(&o);
            if vs.iter().any(|v| v.signature.starts_with("?|")) {
                // plain abort: attribute it by running each variant alone
                vs.clear();
                for variant in 0..3 {
                    let mut got = None;
                    run_range_opt("C07", &[dir.clone(), seed.name.to_string(), format!("{dir}/w{ui}"), "0".into(), "1".into(), "only".into(), variant.to_string()], idx, idx + 1, true, &mut |_, o2| got = Some(o2));
                    if let Some(o2) = got {
                        let (_, v2) = classify(&o2);
                        for mut v in v2 {
                            if v.signature.starts_with("?|") {
                                v.signature = format!("{}|?|{}", VARIANTS[variant], v.signature.splitn(3, '|').nth(2).unwrap_or(""));
                                v.text = format!("{}: {}", VARIANTS[variant], v.text);
                            }
                            vs.push(v);
                        }
                    }
                }
                if vs.is_empty() {
                    engine::machinery_failure(&format!("abort of case {idx} of seed {} did not reproduce per variant", seed.name));
                }
            }
            *local.entry(class).or_insert(0) += 1;
            for v in vs {
                let what = format!("seed '{}' ({} bytes) damaged by {}: {}", seed.name, seed.data.len(), describe(c), v.text);
                coll.add(&v.signature, (data.len() + wal.as_ref().map(|w| w.len()).unwrap_or(0), si * 10_000_000 + idx), &what, json!({"check": "C07", "seed": seed.name, "tier": args.tier.as_str(), "case": idx, "damage": describe(c)}));
            }
        });
        let mut g = classes.lock().unwrap();
        for (k, v) in local {
            *g.entry(k).or_insert(0) += v;
        }
    });
    // confirm the representative of each class alone in a fresh child
    for (sig, _, _, rep) in coll.signatures() {
        if sig.contains("|hang|") {
            continue; // every hang was already repeated alone when it was seen
        }
        let name = rep["seed"].as_str().unwrap_or("");
        let idx = rep["case"].as_u64().unwrap_or(0) as usize;
        let mut got = None;
        run_range_opt("C07", &[dir.clone(), name.to_string(), format!("{dir}/confirm"), "0".into(), "1".into()], idx, idx + 1, true, &mut |_, o| got = Some(o));
        let again: Vec<String> = got.map(|o| classify(&o).1.into_iter().map(|v| v.signature).collect()).unwrap_or_default();
        let sig_tail = sig.splitn(3, '|').nth(2).unwrap_or("").to_string();
        if !again.iter().any(|s| *s == sig || (s.starts_with("?|") && s.ends_with(&sig_tail))) {
            engine::machinery_failure(&format!("violation did not reproduce: {sig} (again: {again:?})"));
        }
    }
    let classes = classes.into_inner().unwrap();
    report.set("evaluations", json!(evaluations.load(Ordering::Relaxed)));
    report.set("distinct_nontrivial", json!(distinct.len()));
    report.set(
        "rule",
        json!("per seed file: every truncation length, every single-bit flip, every aligned 8-byte field replaced by each of {0,1,2,len-1,len,len+1,2^31,2^32,2^63,2^64-1}, every record header replaced by each of 6 crafted headers, all files of length <=3 over {00,01,80,ff} - each without and with a valid recovery log; the valid log truncated at every length, with every single bit flipped, and 32 crafted logs; every damaged (data, log) pair opened with Db::new, DbFile::new, DbMemory::new; if open succeeds a full read is run (element search, counts, all aliases, indexes, per element: values, keys, key count, edge count, alias, searches from/to; alias lookups; index searches), each query separately contained. evaluations = pairs x 3 variants; distinct_nontrivial = distinct (data, log) pairs that differ from the undamaged seed pair. oracle: Ok or Err; no panic, no abort, no single allocation above 256 MiB, done within the wall limit"),
    );
    report.set("seeds", json!(seeds.iter().map(|s| json!({"name": s.name, "bytes": s.data.len(), "log_bytes": s.wal.len(), "records": record_positions(&s.data).len(), "cases": cases(s).len()})).collect::<Vec<_>>()));
    report.set("variants", json!(VARIANTS));
    report.set("allocation_limit_bytes", json!(crate::alloc::LIMIT));
    report.set("case_wall_limit_ms", json!(crate::child::wall_limit_ms()));
    report.set("file_size_limit_bytes", json!(crate::child::FILE_SIZE_LIMIT_BYTES));
    report.set("outcome_classes_db_dbfile_dbmemory", json!(classes));
    report.set("distinct_outcome_classes", json!(classes.len()));
    report.set("violating_cases", json!(coll.total()));
    report.set("slow_cases_not_confirmed_as_hang", json!(unconfirmed_hangs.load(Ordering::Relaxed)));
    report.set("exhaustive", json!(true));
    report.assume("children run with RLIMIT_FSIZE = 64 MiB and SIGXFSZ ignored: a damaged recovery log that asks for a larger file makes the subject see EFBIG (an I/O error), which it is expected to return as Err");
    report.assume("the full read visits at most 64 element ids (the seeds have fewer)");
    for (si, s) in seeds.iter().enumerate().take(2) {
        let cs = &all_cases[si];
        for k in [cs.len() / 7, cs.len() / 2, cs.len() - 5] {
            report.sample(json!({"seed": s.name, "case": k, "damage": describe(&cs[k])}));
        }
    }
    coll.flush(&report);
    report.finish()
}

fn replay(file: &str) -> i32 {
    let text = std::fs::read_to_string(file).unwrap_or_else(|e| engine::machinery_failure(&format!("replay file: {e}")));
    let v: Value = serde_json::from_str(&text).unwrap_or_else(|e| engine::machinery_failure(&format!("replay file: {e}")));
    let r = if v.get("replay").is_some() { &v["replay"] } else { &v };
    let name = r["seed"].as_str().unwrap_or("small").to_string();
    let idx = r["case"].as_u64().unwrap_or(0) as usize;
    let tier = if r["tier"].as_str() == Some("thorough") { Tier::Thorough } else { Tier::Quick };
    crate::child::set_tier(tier);
    let seeds = make_all_seeds();
    let Some(seed) = seeds.iter().find(|s| s.name == name) else { engine::machinery_failure(&format!("unknown seed {name}")) };
    let scratch = Scratch::new("c07p");
    let dir = scratch.dir.to_string_lossy().to_string();
    std::fs::write(format!("{dir}/{}.seed", seed.name), &seed.data).unwrap();
    std::fs::write(format!("{dir}/{}.wal", seed.name), &seed.wal).unwrap();
    let cs = cases(seed);
    if idx >= cs.len() {
        engine::machinery_failure("case index out of range");
    }
    let mut got = None;
    run_range_opt("C07", &[dir.clone(), name.clone(), format!("{dir}/replay"), "0".into(), "1".into()], idx, idx + 1, true, &mut |_, o| got = Some(o));
    let o = got.unwrap_or_else(|| engine::machinery_failure("no outcome"));
    let (class, vs) = classify(&o);
    println!("seed={name} case={idx} damage={}", describe(&cs[idx]));
    println!("OBSERVED outcome(Db,DbFile,DbMemory)={class}");
    for v in &vs {
        println!("  {} [{}]", v.text, v.signature);
    }
    if vs.is_empty() {
        0
    } else {
        println!("VIOLATION property=C07 replay={file}");
        1
    }
}
