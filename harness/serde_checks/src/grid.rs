//! Finite value grids ("boundary values") and bitwise equality for every
//! type of the corpus. `T::grid(budget)` returns a deterministic list of at
//! most ~budget values, most interesting first. Composite types take the
//! full product of their (possibly shortened) per-field grids, plus a "star":
//! every remaining per-field value once with all other fields at their first
//! value, so that every boundary value of every field occurs at least once.

use agdb::*;
use std::cell::Cell;
use std::net::{IpAddr, Ipv4Addr, Ipv6Addr, SocketAddr, SocketAddrV4, SocketAddrV6};
use std::path::PathBuf;
use std::time::{Duration, SystemTime, UNIX_EPOCH};

/// per-field cap on the number of distinct values a nested field receives
pub const FIELD_BUDGET: usize = 48;

pub trait Grid: Sized + Clone {
    /// lengths of the vectors built from this element type
    const VEC_LENS: &'static [usize] = &[0, 1, 3, 5];
    fn grid(budget: usize) -> Vec<Self>;
}

pub trait BitEq {
    fn bit_eq(&self, other: &Self) -> bool;
}

// ---------------------------------------------------------------------------
// product machinery

fn product(lens: &[usize]) -> u128 {
    lens.iter().fold(1u128, |a, b| a.saturating_mul(*b as u128))
}

/// shorten the longest list until the product fits
pub fn shrink(lens: &mut [usize], budget: usize) {
    while product(lens) > budget as u128 {
        let mut mi = 0;
        for i in 0..lens.len() {
            if lens[i] > lens[mi] {
                mi = i;
            }
        }
        if lens[mi] <= 1 {
            break;
        }
        lens[mi] -= 1;
    }
}

/// full product of the shortened lists, then the star of the cut-off values
pub fn index_tuples(full: &[usize], budget: usize) -> Vec<Vec<usize>> {
    if full.iter().any(|l| *l == 0) {
        return vec![];
    }
    let mut lens = full.to_vec();
    shrink(&mut lens, budget.max(1));
    let mut out = vec![];
    let mut idx = vec![0usize; lens.len()];
    'outer: loop {
        out.push(idx.clone());
        // rightmost varies fastest
        let mut p = lens.len();
        loop {
            if p == 0 {
                break 'outer;
            }
            p -= 1;
            idx[p] += 1;
            if idx[p] < lens[p] {
                break;
            }
            idx[p] = 0;
        }
    }
    for i in 0..full.len() {
        for j in lens[i]..full[i] {
            let mut v = vec![0usize; full.len()];
            v[i] = j;
            out.push(v);
        }
    }
    out
}

pub fn prod2<A: Clone, B: Clone>(a: &[A], b: &[B], budget: usize) -> Vec<(A, B)> {
    index_tuples(&[a.len(), b.len()], budget).into_iter().map(|i| (a[i[0]].clone(), b[i[1]].clone())).collect()
}

pub fn prod3<A: Clone, B: Clone, C: Clone>(a: &[A], b: &[B], c: &[C], budget: usize) -> Vec<(A, B, C)> {
    index_tuples(&[a.len(), b.len(), c.len()], budget).into_iter().map(|i| (a[i[0]].clone(), b[i[1]].clone(), c[i[2]].clone())).collect()
}

/// round-robin merge (keeps variety when the result is cut)
pub fn interleave<T>(lists: Vec<Vec<T>>) -> Vec<T> {
    let mut its: Vec<std::vec::IntoIter<T>> = lists.into_iter().map(|l| l.into_iter()).collect();
    let mut out = vec![];
    loop {
        let mut any = false;
        for it in its.iter_mut() {
            if let Some(v) = it.next() {
                out.push(v);
                any = true;
            }
        }
        if !any {
            return out;
        }
    }
}

pub fn cap<T>(mut v: Vec<T>, budget: usize) -> Vec<T> {
    v.truncate(budget.max(1));
    v
}

pub fn fb(budget: usize) -> usize {
    budget.min(FIELD_BUDGET)
}

/// `grid_struct!(Type { field: FieldType, .. })` — named-field struct
#[macro_export]
macro_rules! grid_struct {
    ($name:ty { }) => {
        impl $crate::grid::Grid for $name {
            fn grid(_budget: usize) -> Vec<Self> {
                vec![Self {}]
            }
        }
    };
    ($name:ty { $($f:ident : $t:ty),+ $(,)? }) => {
        impl $crate::grid::Grid for $name {
            #[allow(unused_mut, unused_variables, unused_assignments, unreachable_code)]
            fn grid(budget: usize) -> Vec<Self> {
                $( let $f: Vec<$t> = <$t as $crate::grid::Grid>::grid($crate::grid::fb(budget)); )*
                let lens: Vec<usize> = vec![$($f.len()),*];
                let mut out = Vec::new();
                for idx in $crate::grid::index_tuples(&lens, budget) {
                    let mut k = 0usize;
                    out.push(Self { $( $f: { let v = $f[idx[k]].clone(); k += 1; v } ),* });
                }
                out
            }
        }
    };
}

/// field-wise bitwise equality for a named-field struct
#[macro_export]
macro_rules! biteq_struct {
    ($name:ty { $($f:ident),* $(,)? }) => {
        impl $crate::grid::BitEq for $name {
            fn bit_eq(&self, other: &Self) -> bool {
                true $( && $crate::grid::BitEq::bit_eq(&self.$f, &other.$f) )*
            }
        }
    };
}

/// bitwise equality through `==` (types without raw f64 inside)
#[macro_export]
macro_rules! biteq_via_eq {
    ($($name:ty),* $(,)?) => {
        $( impl $crate::grid::BitEq for $name {
            fn bit_eq(&self, other: &Self) -> bool { self == other }
        } )*
    };
}

// ---------------------------------------------------------------------------
// primitives

pub const U64_GRID: &[u64] = &[0, 1, u64::MAX, 1 << 63, (1 << 63) - 1, 1 << 32, 1 << 31, 255, 256, 15, 16, 0x0102030405060708];
pub const I64_GRID: &[i64] = &[0, 1, -1, i64::MIN, i64::MAX, 1 << 32, -(1 << 31) - 1, 255, -256, 0x0102030405060708];
pub const F64_BITS: &[u64] = &[
    0x0000000000000000, // +0
    0x8000000000000000, // -0
    0x3ff0000000000000, // 1.0
    0xbff8000000000000, // -1.5
    0x7ff0000000000000, // +inf
    0xfff0000000000000, // -inf
    0x0000000000000001, // min subnormal
    0x800fffffffffffff, // -max subnormal
    0x0010000000000000, // min normal
    0x7fefffffffffffff, // MAX
    0xffefffffffffffff, // -MAX
    0x7ff8000000000000, // quiet NaN
    0x7ff0000000000001, // signalling NaN, payload 1
    0xfff8000000000123, // negative quiet NaN with payload
    0x7ff4000000000000, // signalling NaN, high payload bit
    0x7fffffffffffffff, // NaN all ones
    0x400921fb54442d18, // pi
];

impl Grid for u64 {
    fn grid(b: usize) -> Vec<Self> {
        cap(U64_GRID.to_vec(), b)
    }
}
impl Grid for usize {
    fn grid(b: usize) -> Vec<Self> {
        cap(U64_GRID.iter().map(|v| *v as usize).collect(), b)
    }
}
impl Grid for i64 {
    fn grid(b: usize) -> Vec<Self> {
        cap(I64_GRID.to_vec(), b)
    }
}
impl Grid for u32 {
    fn grid(b: usize) -> Vec<Self> {
        cap(vec![0, 1, u32::MAX, 1 << 31, 255, 65536], b)
    }
}
impl Grid for i32 {
    fn grid(b: usize) -> Vec<Self> {
        cap(vec![0, 1, -1, i32::MIN, i32::MAX, 65536], b)
    }
}
impl Grid for f64 {
    fn grid(b: usize) -> Vec<Self> {
        cap(F64_BITS.iter().map(|v| f64::from_bits(*v)).collect(), b)
    }
}
impl Grid for f32 {
    // stored as f64: signalling NaNs are quieted by the widening conversion
    // of the hardware, so they are not demanded to survive
    fn grid(b: usize) -> Vec<Self> {
        cap(vec![0.0, -0.0, 1.0, -1.5, f32::INFINITY, f32::NEG_INFINITY, f32::MIN_POSITIVE, f32::MAX, f32::MIN, f32::from_bits(1), 2.2, f32::from_bits(0x7fc00000)], b)
    }
}
impl Grid for DbF64 {
    fn grid(b: usize) -> Vec<Self> {
        f64::grid(b).into_iter().map(DbF64::from).collect()
    }
}
impl Grid for bool {
    fn grid(b: usize) -> Vec<Self> {
        cap(vec![false, true], b)
    }
}
impl Grid for u8 {
    const VEC_LENS: &'static [usize] = &[0, 1, 15, 16, 17, 40];
    fn grid(b: usize) -> Vec<Self> {
        cap(vec![0, 1, 0x7f, 0x80, 0xff, b'a'], b)
    }
}

pub fn strings() -> Vec<String> {
    vec![
        String::new(),
        "a".into(),
        "fifteen bytes..".into(),   // 15
        "sixteen bytes...".into(),  // 16
        "éééééééé".into(),          // 8 x 2 bytes = 16
        "😀😀😀😀".into(),          // 4 x 4 bytes = 16
        "seventeen bytes..".into(), // 17
        "\0".into(),
        "ééééééé1".into(), // 15 bytes
        "€€€€€".into(),    // 5 x 3 = 15
        "a string that is clearly longer than forty bytes in total".into(),
        "db_id".into(),
        "\u{10ffff}\u{7f}\u{80}".into(),
    ]
}

impl Grid for String {
    const VEC_LENS: &'static [usize] = &[0, 1, 2, 5];
    fn grid(b: usize) -> Vec<Self> {
        cap(strings(), b)
    }
}

impl<T: Grid> Grid for Vec<T> {
    fn grid(b: usize) -> Vec<Self> {
        let g = T::grid(fb(b));
        let mut out: Vec<Vec<T>> = vec![];
        if g.is_empty() {
            return vec![vec![]];
        }
        for (n, len) in T::VEC_LENS.iter().enumerate() {
            out.push((0..*len).map(|i| g[(i + n) % g.len()].clone()).collect());
        }
        for v in g.iter().skip(1) {
            out.push(vec![v.clone()]);
        }
        for w in g.windows(2).skip(1) {
            out.push(w.to_vec());
        }
        cap(out, b)
    }
}

impl<T: Grid> Grid for Option<T> {
    fn grid(b: usize) -> Vec<Self> {
        let mut out = vec![None];
        out.extend(T::grid(b.saturating_sub(1).max(1)).into_iter().map(Some));
        cap(out, b)
    }
}

impl Grid for PathBuf {
    fn grid(b: usize) -> Vec<Self> {
        let mut v = vec![PathBuf::new(), PathBuf::from("/some/test/path"), PathBuf::from("rel/ä/😀.txt"), PathBuf::from("sixteen bytes..."), PathBuf::from("/")];
        #[cfg(unix)]
        {
            use std::os::unix::ffi::OsStringExt;
            v.push(PathBuf::from(std::ffi::OsString::from_vec(b"/tmp/\xff\xfe/x".to_vec())));
        }
        cap(v, b)
    }
}

/// paths that are valid unicode only (for fields of composite types)
pub fn utf8_paths() -> Vec<PathBuf> {
    vec![PathBuf::new(), PathBuf::from("/some/test/path"), PathBuf::from("rel/ä/😀.txt")]
}

impl Grid for SystemTime {
    fn grid(b: usize) -> Vec<Self> {
        let mut v = vec![
            UNIX_EPOCH,
            UNIX_EPOCH + Duration::from_secs(1_000_000),
            UNIX_EPOCH + Duration::new(1, 1),
            UNIX_EPOCH - Duration::new(0, 1),
            UNIX_EPOCH - Duration::from_secs(1),
            UNIX_EPOCH - Duration::new(0, 500_000_000),
            UNIX_EPOCH + Duration::new(1 << 31, 999_999_999),
            UNIX_EPOCH + Duration::from_secs(1 << 32),
            UNIX_EPOCH - Duration::new(1 << 31, 999_999_999),
        ];
        for d in [Duration::new(i64::MAX as u64, 999_999_999), Duration::new((1 << 62) + 5, 7)] {
            if let Some(t) = UNIX_EPOCH.checked_add(d) {
                v.push(t);
            }
            if let Some(t) = UNIX_EPOCH.checked_sub(d) {
                v.push(t);
            }
        }
        if let Some(t) = UNIX_EPOCH.checked_sub(Duration::new(1 << 63, 0)) {
            v.push(t);
        }
        cap(v, b)
    }
}

impl Grid for IpAddr {
    fn grid(b: usize) -> Vec<Self> {
        cap(
            vec![
                IpAddr::V4(Ipv4Addr::new(127, 0, 0, 1)),
                IpAddr::V4(Ipv4Addr::new(0, 0, 0, 0)),
                IpAddr::V4(Ipv4Addr::new(255, 255, 255, 255)),
                IpAddr::V6(Ipv6Addr::LOCALHOST),
                IpAddr::V6(Ipv6Addr::UNSPECIFIED),
                IpAddr::V6(Ipv6Addr::new(0xffff, 0xffff, 0xffff, 0xffff, 0xffff, 0xffff, 0xffff, 0xffff)),
                IpAddr::V6(Ipv4Addr::new(1, 2, 3, 4).to_ipv6_mapped()),
                IpAddr::V6(Ipv6Addr::new(0xfe80, 0, 0, 0, 0, 0, 0, 1)),
                IpAddr::V6(Ipv6Addr::new(0, 0, 0, 0, 0, 0, 0x0102, 0x0304)), // deprecated v4-compatible form
            ],
            b,
        )
    }
}

impl Grid for SocketAddr {
    fn grid(b: usize) -> Vec<Self> {
        let mut v: Vec<SocketAddr> = vec![];
        let ports = [8080u16, 0, 65535];
        for (i, ip) in IpAddr::grid(64).into_iter().enumerate() {
            v.push(SocketAddr::new(ip, ports[i % 3]));
        }
        v.push(SocketAddr::V6(SocketAddrV6::new(Ipv6Addr::new(0xfe80, 0, 0, 0, 0, 0, 0, 1), 80, 0, 3))); // scope id
        v.push(SocketAddr::V6(SocketAddrV6::new(Ipv6Addr::LOCALHOST, 80, 5, 0))); // flow info
        v.push(SocketAddr::V4(SocketAddrV4::new(Ipv4Addr::new(10, 0, 0, 1), 1)));
        cap(v, b)
    }
}

impl BitEq for f64 {
    fn bit_eq(&self, o: &Self) -> bool {
        self.to_bits() == o.to_bits()
    }
}
impl BitEq for f32 {
    fn bit_eq(&self, o: &Self) -> bool {
        self.to_bits() == o.to_bits()
    }
}
impl BitEq for DbF64 {
    fn bit_eq(&self, o: &Self) -> bool {
        self.to_f64().to_bits() == o.to_f64().to_bits()
    }
}
biteq_via_eq!(u8, u32, i32, u64, usize, i64, bool, String, PathBuf, SystemTime, SocketAddr, IpAddr);

impl<T: BitEq> BitEq for Vec<T> {
    fn bit_eq(&self, o: &Self) -> bool {
        self.len() == o.len() && self.iter().zip(o.iter()).all(|(a, b)| a.bit_eq(b))
    }
}
impl<T: BitEq> BitEq for Option<T> {
    fn bit_eq(&self, o: &Self) -> bool {
        match (self, o) {
            (None, None) => true,
            (Some(a), Some(b)) => a.bit_eq(b),
            _ => false,
        }
    }
}

// ---------------------------------------------------------------------------
// agdb value types

impl BitEq for DbValue {
    fn bit_eq(&self, o: &Self) -> bool {
        match (self, o) {
            (DbValue::Bytes(a), DbValue::Bytes(b)) => a == b,
            (DbValue::I64(a), DbValue::I64(b)) => a == b,
            (DbValue::U64(a), DbValue::U64(b)) => a == b,
            (DbValue::F64(a), DbValue::F64(b)) => a.bit_eq(b),
            (DbValue::String(a), DbValue::String(b)) => a == b,
            (DbValue::VecI64(a), DbValue::VecI64(b)) => a == b,
            (DbValue::VecU64(a), DbValue::VecU64(b)) => a == b,
            (DbValue::VecF64(a), DbValue::VecF64(b)) => a.bit_eq(b),
            (DbValue::VecString(a), DbValue::VecString(b)) => a == b,
            _ => false,
        }
    }
}

impl Grid for DbValue {
    const VEC_LENS: &'static [usize] = &[0, 1, 2, 9];
    fn grid(b: usize) -> Vec<Self> {
        let n = 64;
        cap(
            interleave(vec![
                i64::grid(n).into_iter().map(DbValue::I64).collect(),
                String::grid(n).into_iter().map(DbValue::String).collect(),
                Vec::<u8>::grid(n).into_iter().map(DbValue::Bytes).collect(),
                u64::grid(n).into_iter().map(DbValue::U64).collect(),
                DbF64::grid(n).into_iter().map(DbValue::F64).collect(),
                Vec::<i64>::grid(n).into_iter().map(DbValue::VecI64).collect(),
                Vec::<u64>::grid(n).into_iter().map(DbValue::VecU64).collect(),
                Vec::<DbF64>::grid(n).into_iter().map(DbValue::VecF64).collect(),
                Vec::<String>::grid(n).into_iter().map(DbValue::VecString).collect(),
            ]),
            b,
        )
    }
}

impl Grid for DbKeyValue {
    const VEC_LENS: &'static [usize] = &[0, 1, 2, 4];
    fn grid(b: usize) -> Vec<Self> {
        let k = DbValue::grid(fb(b));
        let v = DbValue::grid(fb(b));
        prod2(&k, &v, b).into_iter().map(|(key, value)| DbKeyValue { key, value }).collect()
    }
}
impl BitEq for DbKeyValue {
    fn bit_eq(&self, o: &Self) -> bool {
        self.key.bit_eq(&o.key) && self.value.bit_eq(&o.value)
    }
}

impl Grid for DbId {
    fn grid(b: usize) -> Vec<Self> {
        i64::grid(b).into_iter().map(DbId).collect()
    }
}

impl Grid for DbKeyOrder {
    const VEC_LENS: &'static [usize] = &[0, 1, 2];
    fn grid(b: usize) -> Vec<Self> {
        cap(interleave(vec![DbValue::grid(fb(b)).into_iter().map(DbKeyOrder::Asc).collect(), DbValue::grid(fb(b)).into_iter().map(DbKeyOrder::Desc).collect()]), b)
    }
}

impl Grid for QueryId {
    const VEC_LENS: &'static [usize] = &[0, 1, 2, 3];
    fn grid(b: usize) -> Vec<Self> {
        cap(interleave(vec![DbId::grid(16).into_iter().map(QueryId::Id).collect(), String::grid(16).into_iter().map(QueryId::Alias).collect()]), b)
    }
}

impl Grid for SearchQueryAlgorithm {
    fn grid(b: usize) -> Vec<Self> {
        cap(vec![SearchQueryAlgorithm::BreadthFirst, SearchQueryAlgorithm::DepthFirst, SearchQueryAlgorithm::Index, SearchQueryAlgorithm::Elements], b)
    }
}
impl Grid for QueryConditionLogic {
    fn grid(b: usize) -> Vec<Self> {
        cap(vec![QueryConditionLogic::And, QueryConditionLogic::Or], b)
    }
}
impl Grid for QueryConditionModifier {
    fn grid(b: usize) -> Vec<Self> {
        cap(vec![QueryConditionModifier::None, QueryConditionModifier::Beyond, QueryConditionModifier::Not, QueryConditionModifier::NotBeyond], b)
    }
}
impl Grid for CountComparison {
    fn grid(b: usize) -> Vec<Self> {
        let u = u64::grid(4);
        let f: [fn(u64) -> CountComparison; 6] =
            [CountComparison::Equal, CountComparison::GreaterThan, CountComparison::GreaterThanOrEqual, CountComparison::LessThan, CountComparison::LessThanOrEqual, CountComparison::NotEqual];
        cap(interleave(f.iter().map(|c| u.iter().map(|x| c(*x)).collect()).collect()), b)
    }
}
impl Grid for Comparison {
    fn grid(b: usize) -> Vec<Self> {
        let u = DbValue::grid(fb(b));
        let f: [fn(DbValue) -> Comparison; 9] = [
            Comparison::Equal,
            Comparison::GreaterThan,
            Comparison::GreaterThanOrEqual,
            Comparison::LessThan,
            Comparison::LessThanOrEqual,
            Comparison::NotEqual,
            Comparison::Contains,
            Comparison::StartsWith,
            Comparison::EndsWith,
        ];
        // rotate the value list per constructor so that a cut keeps variety
        cap(interleave(f.iter().enumerate().map(|(k, c)| (0..u.len()).map(|i| c(u[(i + k) % u.len()].clone())).collect()).collect()), b)
    }
}
impl Grid for KeyValueComparison {
    fn grid(b: usize) -> Vec<Self> {
        prod2(&DbValue::grid(fb(b)), &Comparison::grid(fb(b)), b).into_iter().map(|(key, value)| KeyValueComparison { key, value }).collect()
    }
}

thread_local! {
    static WHERE_DEPTH: Cell<u32> = const { Cell::new(0) };
}

impl Grid for QueryConditionData {
    fn grid(b: usize) -> Vec<Self> {
        let mut lists: Vec<Vec<QueryConditionData>> = vec![
            vec![QueryConditionData::Edge, QueryConditionData::Node],
            CountComparison::grid(8).into_iter().map(QueryConditionData::Distance).collect(),
            CountComparison::grid(8).into_iter().map(QueryConditionData::EdgeCount).collect(),
            CountComparison::grid(4).into_iter().map(QueryConditionData::EdgeCountFrom).collect(),
            CountComparison::grid(4).into_iter().map(QueryConditionData::EdgeCountTo).collect(),
            Vec::<QueryId>::grid(8).into_iter().map(QueryConditionData::Ids).collect(),
            KeyValueComparison::grid(fb(b)).into_iter().map(QueryConditionData::KeyValue).collect(),
            Vec::<DbValue>::grid(8).into_iter().map(QueryConditionData::Keys).collect(),
        ];
        let depth = WHERE_DEPTH.with(|d| d.get());
        if depth < 2 {
            WHERE_DEPTH.with(|d| d.set(depth + 1));
            lists.push(Vec::<QueryCondition>::grid(6).into_iter().map(QueryConditionData::Where).collect());
            WHERE_DEPTH.with(|d| d.set(depth));
        }
        cap(interleave(lists), b)
    }
}
impl Grid for QueryCondition {
    const VEC_LENS: &'static [usize] = &[0, 1, 2, 4];
    fn grid(b: usize) -> Vec<Self> {
        prod3(&QueryConditionLogic::grid(2), &QueryConditionModifier::grid(4), &QueryConditionData::grid(fb(b)), b)
            .into_iter()
            .map(|(logic, modifier, data)| QueryCondition { logic, modifier, data })
            .collect()
    }
}

grid_struct!(SearchQuery { algorithm: SearchQueryAlgorithm, origin: QueryId, destination: QueryId, limit: u64, offset: u64, order_by: Vec<DbKeyOrder>, conditions: Vec<QueryCondition> });

impl Grid for QueryIds {
    fn grid(b: usize) -> Vec<Self> {
        cap(interleave(vec![Vec::<QueryId>::grid(fb(b)).into_iter().map(QueryIds::Ids).collect(), SearchQuery::grid(fb(b)).into_iter().map(QueryIds::Search).collect()]), b)
    }
}
impl Grid for QueryValues {
    fn grid(b: usize) -> Vec<Self> {
        cap(
            interleave(vec![
                Vec::<DbKeyValue>::grid(fb(b)).into_iter().map(QueryValues::Single).collect(),
                Vec::<Vec<DbKeyValue>>::grid(fb(b)).into_iter().map(QueryValues::Multi).collect(),
            ]),
            b,
        )
    }
}

grid_struct!(InsertAliasesQuery { ids: QueryIds, aliases: Vec<String> });
grid_struct!(InsertEdgesQuery { from: QueryIds, to: QueryIds, ids: QueryIds, values: QueryValues, each: bool });
grid_struct!(InsertNodesQuery { count: u64, values: QueryValues, aliases: Vec<String>, ids: QueryIds });
grid_struct!(InsertValuesQuery { ids: QueryIds, values: QueryValues });
grid_struct!(SelectEdgeCountQuery { ids: QueryIds, from: bool, to: bool });
grid_struct!(SelectValuesQuery { keys: Vec<DbValue>, ids: QueryIds });
grid_struct!(SelectAllAliasesQuery {});
grid_struct!(SelectIndexesQuery {});
grid_struct!(SelectNodeCountQuery {});

macro_rules! grid_newtype {
    ($name:ident, $inner:ty) => {
        impl Grid for $name {
            fn grid(b: usize) -> Vec<Self> {
                <$inner as Grid>::grid(b).into_iter().map($name).collect()
            }
        }
    };
}
grid_newtype!(InsertIndexQuery, DbValue);
grid_newtype!(RemoveQuery, QueryIds);
grid_newtype!(RemoveAliasesQuery, Vec<String>);
grid_newtype!(RemoveIndexQuery, DbValue);
grid_newtype!(RemoveValuesQuery, SelectValuesQuery);
grid_newtype!(SelectAliasesQuery, QueryIds);
grid_newtype!(SelectKeysQuery, QueryIds);
grid_newtype!(SelectKeyCountQuery, QueryIds);

impl Grid for QueryType {
    const VEC_LENS: &'static [usize] = &[0, 1, 2, 18];
    fn grid(b: usize) -> Vec<Self> {
        let n = (b / 6).max(4);
        cap(
            interleave(vec![
                InsertAliasesQuery::grid(n).into_iter().map(QueryType::InsertAlias).collect(),
                InsertEdgesQuery::grid(n).into_iter().map(QueryType::InsertEdges).collect(),
                InsertIndexQuery::grid(n).into_iter().map(QueryType::InsertIndex).collect(),
                InsertNodesQuery::grid(n).into_iter().map(QueryType::InsertNodes).collect(),
                InsertValuesQuery::grid(n).into_iter().map(QueryType::InsertValues).collect(),
                RemoveQuery::grid(n).into_iter().map(QueryType::Remove).collect(),
                RemoveAliasesQuery::grid(n).into_iter().map(QueryType::RemoveAliases).collect(),
                RemoveIndexQuery::grid(n).into_iter().map(QueryType::RemoveIndex).collect(),
                RemoveValuesQuery::grid(n).into_iter().map(QueryType::RemoveValues).collect(),
                SearchQuery::grid(n).into_iter().map(QueryType::Search).collect(),
                SelectAliasesQuery::grid(n).into_iter().map(QueryType::SelectAliases).collect(),
                SelectAllAliasesQuery::grid(n).into_iter().map(QueryType::SelectAllAliases).collect(),
                SelectEdgeCountQuery::grid(n).into_iter().map(QueryType::SelectEdgeCount).collect(),
                SelectIndexesQuery::grid(n).into_iter().map(QueryType::SelectIndexes).collect(),
                SelectKeysQuery::grid(n).into_iter().map(QueryType::SelectKeys).collect(),
                SelectKeyCountQuery::grid(n).into_iter().map(QueryType::SelectKeyCount).collect(),
                SelectNodeCountQuery::grid(n).into_iter().map(QueryType::SelectNodeCount).collect(),
                SelectValuesQuery::grid(n).into_iter().map(QueryType::SelectValues).collect(),
            ]),
            b,
        )
    }
}

// All query types hold floats only as DbF64, whose `==` is `total_cmp`
// (bitwise), so `==` is a bitwise comparison for them.
biteq_via_eq!(
    DbId,
    DbKeyOrder,
    QueryId,
    SearchQueryAlgorithm,
    QueryConditionLogic,
    QueryConditionModifier,
    CountComparison,
    Comparison,
    KeyValueComparison,
    QueryConditionData,
    QueryCondition,
    SearchQuery,
    QueryIds,
    QueryValues,
    InsertAliasesQuery,
    InsertEdgesQuery,
    InsertIndexQuery,
    InsertNodesQuery,
    InsertValuesQuery,
    RemoveQuery,
    RemoveAliasesQuery,
    RemoveIndexQuery,
    RemoveValuesQuery,
    SelectAliasesQuery,
    SelectAllAliasesQuery,
    SelectEdgeCountQuery,
    SelectIndexesQuery,
    SelectKeysQuery,
    SelectKeyCountQuery,
    SelectNodeCountQuery,
    SelectValuesQuery,
    QueryType
);
