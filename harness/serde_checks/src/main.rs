//! Checks of value storage and binary serialization:
//! C07 damaged files, C12 value round trip through the database, C20
//! serialization round trip, C21 deserializing arbitrary bytes, C22 derived
//! user types. `serde_checks <Cxx> [--tier quick|thorough] [--replay file]`
//! (`--child ...` is the internal worker mode of the C07/C21 sweeps).

mod alloc;
mod c07;
mod c12;
mod c20;
mod c21;
mod c22;
mod child;
mod corpus;
mod grid;
mod many;
mod many257;
mod types;
mod viol;

#[global_allocator]
static GLOBAL: alloc::Counting = alloc::Counting;

fn main() {
    let args = engine::parse_args();
    engine::install_quiet_panic_hook();
    child::set_tier(args.tier);
    let code = match args.property.as_str() {
        "C07" => c07::run(&args),
        "C12" => c12::run(&args),
        "C20" => c20::run(&args),
        "C21" => c21::run(&args),
        "C22" => c22::run(&args),
        other => engine::machinery_failure(&format!("serde_checks: unknown property {other}")),
    };
    std::process::exit(code);
}
