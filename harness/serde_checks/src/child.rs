//! Child-process isolation for sweeps that can abort the process (C07, C21).
//!
//! Parent: `run_range` spawns `<exe> <prop> --child <job...> <start> <end>`
//! and reads one line per case from the child's stdout:
//!   `R <idx> <payload>`   case finished (payload = outcome, no newline)
//!                         payload `X|<bytes>`: the case requested a single
//!                         allocation above the limit (its thread was suspended)
//!   `ENORMOUS <bytes>`    written by the allocator when it refuses a request
//!                         outside a supervised thread (then null is returned)
//!   `HANG <idx>`          written by the supervisor before it aborts
//!   `FAIL <message>`      machinery failure inside the child
//!   `RECYCLE`             clean exit before the end (too many abandoned threads)
//!   `DONE`                the range is complete
//! If the child dies, the case after the last `R` line killed it; it is
//! reported as `Died` and the child is restarted after that case.
//!
//! Child (`child_main`): the cases run on a worker thread; the main thread
//! supervises. A request above the allocation limit suspends the worker
//! inside the allocator for good (see alloc.rs); the supervisor reports the
//! case, abandons that thread and starts a new worker at the next case, so an
//! enormous allocation costs a thread, not a process (a process start costs
//! ~100 ms on this machine). Real aborts (stack overflow, abort(), double
//! panic) and hangs still take the process down and are attributed by the
//! parent.

use crate::alloc;
use std::io::{BufRead, BufReader, Write};
use std::os::fd::AsFd;
use std::process::{Command, Stdio};
use std::sync::Arc;
use std::sync::atomic::{AtomicBool, AtomicU64, Ordering};
use std::time::{Duration, Instant};

/// per-case user-CPU-time limit (hang detection): thorough 5 s, quick 2 s
static WALL_LIMIT_MS: AtomicU64 = AtomicU64::new(5000);

/// set from the tier in main(); the tier is handed on to the children
pub fn set_tier(tier: engine::Tier) {
    WALL_LIMIT_MS.store(tier.pick(2000, 5000), Ordering::SeqCst);
    THOROUGH.store(tier == engine::Tier::Thorough, Ordering::SeqCst);
}

static THOROUGH: AtomicBool = AtomicBool::new(false);

pub fn set_wall_limit_ms(ms: u64) {
    WALL_LIMIT_MS.store(ms, Ordering::SeqCst);
}

pub fn wall_limit_ms() -> u64 {
    WALL_LIMIT_MS.load(Ordering::SeqCst)
}

#[derive(Debug, Clone)]
pub enum Outcome {
    /// payload of the `R` line
    Line(String),
    /// the child died on this case: kind = abort | enormous-allocation | hang
    Died { kind: &'static str, detail: String },
}

/// Largest file a C07 child may create (a damaged recovery log can ask for a
/// terabyte-sized sparse file; with the limit in place the subject simply
/// receives EFBIG — SIGXFSZ is ignored — and returns an error).
pub const FILE_SIZE_LIMIT_BYTES: u64 = 64 * 1024 * 1024;

/// stage marker the case executor may set; reported with enormous allocations and hangs
pub static STAGE: AtomicU64 = AtomicU64::new(0);

/// Run cases `start..end` of `job` in child processes; `on(idx, outcome)` is
/// called exactly once per case, in order.
pub fn run_range(prop: &str, job: &[String], start: usize, end: usize, on: &mut dyn FnMut(usize, Outcome)) {
    run_range_opt(prop, job, start, end, false, on)
}

pub fn run_range_opt(prop: &str, job: &[String], start: usize, end: usize, limit_file_size: bool, on: &mut dyn FnMut(usize, Outcome)) {
    let exe = std::env::current_exe().unwrap_or_else(|e| engine::machinery_failure(&format!("current_exe: {e}")));
    let mut next = start;
    let mut consecutive_empty_deaths = 0;
    while next < end {
        let mut cmd = if limit_file_size {
            // dash: ulimit -f counts 512-byte blocks
            let mut c = Command::new("/bin/sh");
            c.arg("-c").arg(format!("trap '' XFSZ; ulimit -f {}; exec \"$0\" \"$@\"", FILE_SIZE_LIMIT_BYTES / 512)).arg(&exe);
            c
        } else {
            Command::new(&exe)
        };
        cmd.arg(prop).arg("--child");
        for j in job {
            cmd.arg(j);
        }
        cmd.arg("--tier").arg(if THOROUGH.load(Ordering::SeqCst) { "thorough" } else { "quick" });
        cmd.arg(next.to_string()).arg(end.to_string());
        cmd.env("RUST_BACKTRACE", "0");
        cmd.env("VERIF_CASE_LIMIT_MS", wall_limit_ms().to_string());
        cmd.stdin(Stdio::null()).stdout(Stdio::piped()).stderr(Stdio::null());
        let mut ch = cmd.spawn().unwrap_or_else(|e| engine::machinery_failure(&format!("cannot spawn child: {e}")));
        let out = ch.stdout.take().unwrap();
        let mut enormous: Option<String> = None;
        let mut hang = false;
        let mut hang_stage = String::new();
        let mut done = false;
        let mut recycle = false;
        let first = next;
        for line in BufReader::new(out).lines() {
            let Ok(line) = line else { break };
            if let Some(rest) = line.strip_prefix("R ") {
                let (idx, payload) = rest.split_once(' ').unwrap_or((rest, ""));
                let idx: usize = idx.parse().unwrap_or_else(|_| engine::machinery_failure(&format!("bad child line: {line}")));
                if idx != next {
                    engine::machinery_failure(&format!("child reported case {idx}, expected {next}"));
                }
                let mut payload = payload.to_string();
                if let Some(sz) = enormous.take() {
                    // refused request that the subject survived
                    payload = format!("A|{sz}|{payload}");
                }
                on(idx, Outcome::Line(payload));
                next += 1;
            } else if let Some(sz) = line.strip_prefix("ENORMOUS ") {
                enormous = Some(sz.to_string());
            } else if let Some(rest) = line.strip_prefix("HANG ") {
                hang = true;
                hang_stage = rest.split(' ').nth(1).unwrap_or("0").to_string();
            } else if line == "DONE" {
                done = true;
            } else if line == "RECYCLE" {
                recycle = true;
            } else if let Some(m) = line.strip_prefix("FAIL ") {
                engine::machinery_failure(&format!("child: {m}"));
            }
        }
        let status = ch.wait().unwrap_or_else(|e| engine::machinery_failure(&format!("wait: {e}")));
        if done && next >= end {
            break;
        }
        if done {
            engine::machinery_failure("child said DONE before the end of its range");
        }
        if recycle && status.success() && next > first {
            continue;
        }
        // died on case `next`
        use std::os::unix::process::ExitStatusExt;
        let how = match (status.signal(), status.code()) {
            (Some(s), _) => format!("signal {s}"),
            (None, Some(c)) => format!("exit code {c}"),
            _ => "unknown".into(),
        };
        if status.code() == Some(2) {
            engine::machinery_failure("child exited with a machinery failure");
        }
        if next == first {
            consecutive_empty_deaths += 1;
        } else {
            consecutive_empty_deaths = 0;
        }
        let _ = consecutive_empty_deaths;
        let outcome = if hang {
            Outcome::Died { kind: "hang", detail: format!("stage {hang_stage}: no result within {} ms of CPU time", wall_limit_ms()) }
        } else if let Some(sz) = enormous {
            Outcome::Died { kind: "enormous-allocation", detail: format!("single allocation request of {sz} bytes (refused; process aborted: {how})") }
        } else {
            Outcome::Died { kind: "abort", detail: format!("process died: {how}") }
        };
        on(next, outcome);
        next += 1;
    }
}

// ---------------------------------------------------------------------------
// child side

/// abandoned (suspended) worker threads after which the child exits cleanly
/// and is restarted by the parent
pub const MAX_ABANDONED_THREADS: usize = 1000;
const WORKER_STACK: usize = 8 * 1024 * 1024;

/// USER CPU time (clock ticks of 10 ms) of thread `tid` of this process.
/// System time is left out on purpose: page faults on never-touched memory
/// cost 50-800 us each in this sandbox and are not what a hang looks like.
fn thread_cpu_ticks(tid: u64) -> Option<u64> {
    let s = std::fs::read_to_string(format!("/proc/self/task/{tid}/stat")).ok()?;
    // fields after the ")" that closes the command name: state is #1, utime #12, stime #13
    let rest = s.rsplit_once(')')?.1;
    let f: Vec<&str> = rest.split_whitespace().collect();
    f.get(11)?.parse::<u64>().ok()
}

fn own_tid() -> u64 {
    std::fs::read_link("/proc/thread-self").ok().and_then(|p| p.file_name().and_then(|n| n.to_str().and_then(|s| s.parse().ok()))).unwrap_or(0)
}

struct Shared {
    /// kernel thread id of the worker
    tid: AtomicU64,
    /// index of the case being executed
    cur: AtomicU64,
    /// 0 = idle, otherwise ms since process start + 1
    started: AtomicU64,
    finished: AtomicBool,
    out: std::fs::File,
    t0: Instant,
}

fn write_line(out: &std::fs::File, idx: usize, payload: &str) {
    let mut line = Vec::with_capacity(payload.len() + 24);
    let _ = write!(line, "R {idx} ");
    for b in payload.bytes() {
        line.push(if b == b'\n' || b == b'\r' { b' ' } else { b });
    }
    line.push(b'\n');
    let mut w: &std::fs::File = out;
    if w.write_all(&line).is_err() {
        std::process::exit(2);
    }
}

pub fn child_fail(msg: &str) -> ! {
    println!("FAIL {}", msg.replace('\n', " "));
    std::process::exit(2)
}

/// Runs `exec(idx)` for idx in start..end on supervised worker threads and
/// speaks the protocol on stdout. `exec` returns the payload of the case.
pub fn child_main(start: usize, end: usize, exec: Arc<dyn Fn(usize) -> String + Send + Sync>) -> i32 {
    if let Some(ms) = std::env::var("VERIF_CASE_LIMIT_MS").ok().and_then(|s| s.parse().ok()) {
        set_wall_limit_ms(ms);
    }
    let fd = std::io::stdout().as_fd().try_clone_to_owned().unwrap_or_else(|e| child_fail(&format!("dup stdout: {e}")));
    let out = std::fs::File::from(fd);
    let log = out.try_clone().unwrap_or_else(|e| child_fail(&format!("dup stdout: {e}")));
    alloc::set_log(log);
    let mut next = start;
    let mut abandoned = 0usize;
    let t0 = Instant::now();
    while next < end {
        let sh = Arc::new(Shared { tid: AtomicU64::new(0), cur: AtomicU64::new(next as u64), started: AtomicU64::new(0), finished: AtomicBool::new(false), out: out.try_clone().unwrap_or_else(|e| child_fail(&format!("dup: {e}"))), t0 });
        let w = sh.clone();
        let ex = exec.clone();
        let from = next;
        let spawned = std::thread::Builder::new().stack_size(WORKER_STACK).spawn(move || {
            alloc::mark_subject_thread();
            w.tid.store(own_tid(), Ordering::SeqCst);
            for i in from..end {
                w.cur.store(i as u64, Ordering::SeqCst);
                w.started.store(w.t0.elapsed().as_millis() as u64 + 1, Ordering::SeqCst);
                let payload = ex(i);
                w.started.store(0, Ordering::SeqCst);
                write_line(&w.out, i, &payload);
            }
            w.finished.store(true, Ordering::SeqCst);
        });
        let handle = spawned.unwrap_or_else(|e| child_fail(&format!("thread spawn: {e}")));
        // supervise. Hang = the case has used more CPU time than the limit
        // (wall time would misfire on a loaded machine), or has made no
        // progress for 20x the limit of wall time (blocked).
        let mut watch: Option<(u64, u64)> = None; // (case, cpu ticks when first seen late)
        let mut warmed_seen = alloc::WARMED.load(Ordering::SeqCst);
        let mut wall_reset = 0u64;
        loop {
            if sh.finished.load(Ordering::SeqCst) {
                let _ = handle.join();
                next = end;
                break;
            }
            let sz = alloc::SUSPENDED.swap(0, Ordering::SeqCst);
            if sz != 0 {
                // the worker is suspended inside the allocator on case `cur`
                let idx = sh.cur.load(Ordering::SeqCst) as usize;
                write_line(&out, idx, &format!("X|{sz}|{}", STAGE.load(Ordering::SeqCst)));
                abandoned += 1;
                next = idx + 1;
                std::mem::forget(handle);
                break;
            }
            if handle.is_finished() {
                // the worker thread ended without finishing (cannot happen: panics are caught by exec)
                child_fail("worker thread ended unexpectedly");
            }
            let s = sh.started.load(Ordering::SeqCst);
            if s != 0 {
                let s = s.max(wall_reset);
                let now = t0.elapsed().as_millis() as u64 + 1;
                let cur = sh.cur.load(Ordering::SeqCst);
                if now > s + 500 {
                    // time spent pre-touching a fresh large block (alloc.rs) is not the case's
                    let warmed = alloc::WARMED.load(Ordering::SeqCst);
                    if alloc::WARMING.load(Ordering::SeqCst) != 0 || warmed != warmed_seen {
                        warmed_seen = warmed;
                        watch = None;
                        wall_reset = now;
                        std::thread::sleep(Duration::from_millis(5));
                        continue;
                    }
                    // late: start (or continue) watching the CPU time of this case
                    let ticks = thread_cpu_ticks(sh.tid.load(Ordering::SeqCst)).unwrap_or(0);
                    let base = match watch {
                        Some((c, b)) if c == cur => b,
                        _ => {
                            watch = Some((cur, ticks));
                            ticks
                        }
                    };
                    let cpu_ms = (ticks - base.min(ticks)) * 10 + 500;
                    if cpu_ms > wall_limit_ms() || now > s + 20 * wall_limit_ms() {
                        alloc::raw_log2(b"HANG ", cur, STAGE.load(Ordering::SeqCst));
                        std::process::abort();
                    }
                    std::thread::sleep(Duration::from_millis(20));
                    continue;
                }
            }
            std::thread::sleep(Duration::from_micros(150));
        }
        if abandoned >= MAX_ABANDONED_THREADS && next < end {
            let mut w: &std::fs::File = &out;
            let _ = w.write_all(b"RECYCLE\n");
            return 0;
        }
    }
    let mut w: &std::fs::File = &out;
    let _ = w.write_all(b"DONE\n");
    0
}

/// parse the trailing `<start> <end>` of the child arguments
pub fn child_range(extra: &[String]) -> (Vec<String>, usize, usize) {
    let pos = extra.iter().position(|a| a == "--child").unwrap_or_else(|| engine::machinery_failure("--child expected"));
    let rest = &extra[pos + 1..];
    if rest.len() < 2 {
        engine::machinery_failure("--child <job...> <start> <end>");
    }
    let end: usize = rest[rest.len() - 1].parse().unwrap_or_else(|_| engine::machinery_failure("bad end"));
    let start: usize = rest[rest.len() - 2].parse().unwrap_or_else(|_| engine::machinery_failure("bad start"));
    (rest[..rest.len() - 2].to_vec(), start, end)
}
