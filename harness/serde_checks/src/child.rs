//! Child-process isolation for sweeps that can abort the process (C07, C21).
//!
//! Parent: `run_range` spawns `<exe> <prop> --child <job...> <start> <end>`
//! and reads one line per case from the child's stdout:
//!   `R <idx> <payload>`   case finished (payload = outcome, no newline)
//!   `ENORMOUS <bytes>`    written by the allocator when it refuses a request
//!   `HANG <idx>`          written by the watchdog before it aborts
//!   `FAIL <message>`      machinery failure inside the child
//!   `DONE`                the range is complete
//! If the child dies, the case after the last `R` line killed it; it is
//! reported as `Died` and the child is restarted after that case.
//!
//! Child: `ChildCtx` provides `begin(idx)` / `end(idx, payload)` and runs the
//! per-case watchdog.

use crate::alloc;
use std::io::{BufRead, BufReader, Write};
use std::os::fd::AsFd;
use std::process::{Command, Stdio};
use std::sync::atomic::{AtomicU64, Ordering};
use std::time::{Duration, Instant};

pub const CASE_WALL_LIMIT_MS: u64 = 5000;

#[derive(Debug, Clone)]
pub enum Outcome {
    /// payload of the `R` line
    Line(String),
    /// the child died on this case: kind = abort | enormous-allocation | hang
    Died { kind: &'static str, detail: String },
}

/// Run cases `start..end` of `job` in child processes; `on(idx, outcome)` is
/// called exactly once per case, in order.
pub fn run_range(prop: &str, job: &[String], start: usize, end: usize, on: &mut dyn FnMut(usize, Outcome)) {
    let exe = std::env::current_exe().unwrap_or_else(|e| engine::machinery_failure(&format!("current_exe: {e}")));
    let mut next = start;
    let mut consecutive_empty_deaths = 0;
    while next < end {
        let mut cmd = Command::new(&exe);
        cmd.arg(prop).arg("--child");
        for j in job {
            cmd.arg(j);
        }
        cmd.arg(next.to_string()).arg(end.to_string());
        cmd.stdin(Stdio::null()).stdout(Stdio::piped()).stderr(Stdio::null());
        let mut ch = cmd.spawn().unwrap_or_else(|e| engine::machinery_failure(&format!("cannot spawn child: {e}")));
        let out = ch.stdout.take().unwrap();
        let mut enormous: Option<String> = None;
        let mut hang = false;
        let mut done = false;
        let first = next;
        for line in BufReader::new(out).lines() {
            let Ok(line) = line else { break };
            if let Some(rest) = line.strip_prefix("R ") {
                let (idx, payload) = rest.split_once(' ').unwrap_or((rest, ""));
                let idx: usize = idx.parse().unwrap_or_else(|_| engine::machinery_failure(&format!("bad child line: {line}")));
                if idx != next {
                    engine::machinery_failure(&format!("child reported case {idx}, expected {next}"));
                }
                let mut payload = payload.to_string();
                if let Some(sz) = enormous.take() {
                    // refused request that the subject survived
                    payload = format!("A|{sz}|{payload}");
                }
                on(idx, Outcome::Line(payload));
                next += 1;
            } else if let Some(sz) = line.strip_prefix("ENORMOUS ") {
                enormous = Some(sz.to_string());
            } else if line.starts_with("HANG ") {
                hang = true;
            } else if line == "DONE" {
                done = true;
            } else if let Some(m) = line.strip_prefix("FAIL ") {
                engine::machinery_failure(&format!("child: {m}"));
            }
        }
        let status = ch.wait().unwrap_or_else(|e| engine::machinery_failure(&format!("wait: {e}")));
        if done && next >= end {
            break;
        }
        if done {
            engine::machinery_failure("child said DONE before the end of its range");
        }
        // died on case `next`
        use std::os::unix::process::ExitStatusExt;
        let how = match (status.signal(), status.code()) {
            (Some(s), _) => format!("signal {s}"),
            (None, Some(c)) => format!("exit code {c}"),
            _ => "unknown".into(),
        };
        if status.code() == Some(2) {
            engine::machinery_failure("child exited with a machinery failure");
        }
        if next == first {
            consecutive_empty_deaths += 1;
        } else {
            consecutive_empty_deaths = 0;
        }
        let _ = consecutive_empty_deaths;
        let outcome = if hang {
            Outcome::Died { kind: "hang", detail: format!("no result within {CASE_WALL_LIMIT_MS} ms") }
        } else if let Some(sz) = enormous {
            Outcome::Died { kind: "enormous-allocation", detail: format!("single allocation request of {sz} bytes (refused; process aborted: {how})") }
        } else {
            Outcome::Died { kind: "abort", detail: format!("process died: {how}") }
        };
        on(next, outcome);
        next += 1;
    }
}

// ---------------------------------------------------------------------------
// child side

static CUR_IDX: AtomicU64 = AtomicU64::new(0);
/// 0 = idle, otherwise ms since process start + 1
static CUR_START: AtomicU64 = AtomicU64::new(0);

pub struct ChildCtx {
    out: std::fs::File,
    t0: Instant,
    refused_before: u64,
}

impl ChildCtx {
    pub fn new() -> Self {
        let fd = std::io::stdout().as_fd().try_clone_to_owned().unwrap_or_else(|e| engine::machinery_failure(&format!("dup stdout: {e}")));
        let out = std::fs::File::from(fd);
        let log = out.try_clone().unwrap_or_else(|e| engine::machinery_failure(&format!("dup stdout: {e}")));
        alloc::set_log(log);
        let t0 = Instant::now();
        std::thread::spawn(move || {
            loop {
                std::thread::sleep(Duration::from_millis(50));
                let s = CUR_START.load(Ordering::SeqCst);
                if s != 0 {
                    let now = t0.elapsed().as_millis() as u64 + 1;
                    if now > s + CASE_WALL_LIMIT_MS {
                        alloc::raw_log(b"HANG ", CUR_IDX.load(Ordering::SeqCst));
                        std::process::abort();
                    }
                }
            }
        });
        ChildCtx { out, t0, refused_before: 0 }
    }

    pub fn begin(&mut self, idx: usize) {
        self.refused_before = alloc::refused();
        CUR_IDX.store(idx as u64, Ordering::SeqCst);
        CUR_START.store(self.t0.elapsed().as_millis() as u64 + 1, Ordering::SeqCst);
    }

    pub fn end(&mut self, idx: usize, payload: &str) {
        CUR_START.store(0, Ordering::SeqCst);
        let mut line = Vec::with_capacity(payload.len() + 24);
        let _ = write!(line, "R {idx} ");
        for b in payload.bytes() {
            line.push(if b == b'\n' || b == b'\r' { b' ' } else { b });
        }
        line.push(b'\n');
        if self.out.write_all(&line).is_err() {
            std::process::exit(2);
        }
    }

    pub fn done(&mut self) {
        let _ = self.out.write_all(b"DONE\n");
    }

    pub fn fail(&mut self, msg: &str) -> ! {
        let _ = self.out.write_all(format!("FAIL {}\n", msg.replace('\n', " ")).as_bytes());
        std::process::exit(2)
    }
}

/// parse the trailing `<start> <end>` of the child arguments
pub fn child_range(extra: &[String]) -> (Vec<String>, usize, usize) {
    let pos = extra.iter().position(|a| a == "--child").unwrap_or_else(|| engine::machinery_failure("--child expected"));
    let rest = &extra[pos + 1..];
    if rest.len() < 2 {
        engine::machinery_failure("--child <job...> <start> <end>");
    }
    let end: usize = rest[rest.len() - 1].parse().unwrap_or_else(|_| engine::machinery_failure("bad end"));
    let start: usize = rest[rest.len() - 2].parse().unwrap_or_else(|_| engine::machinery_failure("bad start"));
    (rest[..rest.len() - 2].to_vec(), start, end)
}
