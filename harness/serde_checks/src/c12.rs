//! C12 — every stored value reads back bit-for-bit.
//! Exhaustive value grid x {key, value} x 6 database variants x {immediately,
//! after inserts that relocate it, after reopen, after optimize_storage}.

use crate::grid::{BitEq, F64_BITS, I64_GRID, U64_GRID};
use crate::viol::Collector;
use agdb::{AgdbSerialize, AnyStorage, Db, DbAny, DbError, DbF64, DbFile, DbId, DbImpl, DbKeyValue, DbMemory, DbValue, FileStorage, FileStorageMemoryMapped, MemoryStorage, QueryBuilder, StorageData};
use engine::{Args, DistinctCounter, Report, Scratch, catch, hex, par_for, unhex};
use serde_json::{Value, json};
use std::sync::atomic::{AtomicU64, Ordering};

pub const MAX_LEN: usize = 40;
pub const VARIANTS: [&str; 6] = ["DbMemory", "DbFile", "Db", "DbAny(memory)", "DbAny(file)", "DbAny(mapped)"];
pub const PHASES: [&str; 4] = ["immediately", "after-relocation", "after-reopen", "after-optimize"];

fn type_name(v: &DbValue) -> &'static str {
    match v {
        DbValue::Bytes(_) => "Bytes",
        DbValue::I64(_) => "I64",
        DbValue::U64(_) => "U64",
        DbValue::F64(_) => "F64",
        DbValue::String(_) => "String",
        DbValue::VecI64(_) => "VecI64",
        DbValue::VecU64(_) => "VecU64",
        DbValue::VecF64(_) => "VecF64",
        DbValue::VecString(_) => "VecString",
    }
}

/// string of exactly `bytes` bytes built from characters of `width` bytes,
/// padded with ASCII at the front when `bytes` is not a multiple
fn string_of(bytes: usize, width: usize, salt: usize) -> String {
    let ch = match width {
        1 => ['a', 'Z', '0', '~'][salt % 4],
        2 => ['é', 'ž', 'ß', 'Ω'][salt % 4],
        3 => ['€', '中', '\u{ffff}', 'ᚠ'][salt % 4],
        _ => ['😀', '𝄞', '\u{10ffff}', '🦀'][salt % 4],
    };
    let mut s = String::new();
    for _ in 0..bytes % width {
        s.push('x');
    }
    for _ in 0..bytes / width {
        s.push(ch);
    }
    debug_assert_eq!(s.len(), bytes);
    s
}

pub fn float_bit_patterns() -> Vec<u64> {
    let mut f64s = F64_BITS.to_vec();
    f64s.extend([0x7ff8000000000001, 0xfff0000000000001, 0x7ff7ffffffffffff, 0xffffffffffffffff, 0x3ff0000000000001, 0x4340000000000000]);
    f64s
}

/// the complete value grid (distinct bit patterns)
pub fn value_grid(tier: engine::Tier) -> Vec<DbValue> {
    let mut v: Vec<DbValue> = vec![];
    let max_len = tier.pick(MAX_LEN, 2 * MAX_LEN);
    for len in 0..=max_len {
        v.push(DbValue::Bytes((0..len).map(|i| (i * 7 + len) as u8).collect()));
        for width in 1..=4 {
            v.push(DbValue::String(string_of(len, width, len)));
        }
    }
    v.push(DbValue::Bytes(vec![0; 15]));
    v.push(DbValue::Bytes(vec![0; 16]));
    v.push(DbValue::Bytes(vec![0xff; 15]));
    v.push(DbValue::Bytes(vec![0xff; 16]));
    v.push(DbValue::String("\0".into()));
    v.push(DbValue::String("\0".repeat(15)));
    v.push(DbValue::String("\0".repeat(16)));
    v.push(DbValue::String("\u{7f}\u{80}\u{7ff}\u{800}\u{ffff}\u{10000}".into()));
    let mut i64s = I64_GRID.to_vec();
    i64s.extend([i64::MIN + 1, i64::MAX - 1, 1 << 62, -(1 << 62), 0x7f, 0x80, -0x80, -0x81]);
    let mut u64s = U64_GRID.to_vec();
    u64s.extend([u64::MAX - 1, (1 << 63) + 1, 0x7f, 0x80]);
    let f64s = float_bit_patterns();
    for x in &i64s {
        v.push(DbValue::I64(*x));
    }
    for x in &u64s {
        v.push(DbValue::U64(*x));
    }
    for x in &f64s {
        v.push(DbValue::F64(DbF64::from(f64::from_bits(*x))));
    }
    for n in 0..=5usize {
        for rot in 0..tier.pick(3, 8) {
            v.push(DbValue::VecI64((0..n).map(|i| i64s[(i + rot * 5) % i64s.len()]).collect()));
            v.push(DbValue::VecU64((0..n).map(|i| u64s[(i + rot * 5) % u64s.len()]).collect()));
            v.push(DbValue::VecF64((0..n).map(|i| DbF64::from(f64::from_bits(f64s[(i + rot * 5) % f64s.len()]))).collect()));
            v.push(DbValue::VecString((0..n).map(|i| string_of([0, 1, 15, 16, 17, 40, 2, 14][(i + rot) % 8], 1 + (i + rot) % 4, i)).collect()));
        }
    }
    // a vector long enough to need more than one storage move
    v.push(DbValue::VecI64((0..100).map(|i| i * 0x0101010101010101).collect()));
    v.push(DbValue::VecString((0..40).map(|i| string_of(i, 1 + i % 4, i)).collect()));
    // distinct bit patterns only (also needed so that all of them can be keys of one element)
    let mut out: Vec<DbValue> = vec![];
    let mut seen = std::collections::HashSet::new();
    for x in v {
        if seen.insert(AgdbSerialize::serialize(&x)) {
            out.push(x);
        }
    }
    out
}

fn describe(v: &DbValue) -> String {
    let s = format!("{v:?}");
    let bits = match v {
        DbValue::F64(f) => format!(" bits={:#018x}", f.to_f64().to_bits()),
        DbValue::VecF64(fs) => format!(" bits={:?}", fs.iter().map(|f| format!("{:#018x}", f.to_f64().to_bits())).collect::<Vec<_>>()),
        DbValue::String(s) => format!(" ({} bytes)", s.len()),
        DbValue::Bytes(b) => format!(" ({} bytes)", b.len()),
        _ => String::new(),
    };
    let s = if s.len() > 160 { format!("{}…", s.chars().take(160).collect::<String>()) } else { s };
    format!("{s}{bits}")
}

struct Failure {
    phase: &'static str,
    kind: String,
    detail: String,
    /// index of the pair (in the list given to run_history) that failed
    pair: usize,
}

fn exec_err(e: DbError) -> String {
    e.description
}

/// Reads element `id` back in three ways and compares with `expected` (found by key).
fn read_back<S: StorageData>(db: &DbImpl<S>, id: DbId, expected: &[DbKeyValue], phase: &'static str) -> Result<(), Failure> {
    let fail = |pair: usize, kind: &str, detail: String| Failure { phase, kind: kind.to_string(), detail, pair };
    // 1. select all properties of the element
    let r = db.exec(QueryBuilder::select().ids(id).query()).map_err(|e| fail(0, "read-error", format!("select ids: {}", exec_err(e))))?;
    let got = &r.elements.first().ok_or_else(|| fail(0, "read-error", "select ids returned no element".into()))?.values;
    for (pi, want) in expected.iter().enumerate() {
        let found: Vec<&DbKeyValue> = got.iter().filter(|kv| kv.key.bit_eq(&want.key)).collect();
        if found.len() != 1 {
            // distinguish "key changed" from "pair missing"
            return Err(fail(pi, "key-mismatch", format!("select ids: {} properties carry the exact key {}; element has {} properties", found.len(), describe(&want.key), got.len())));
        }
        if !found[0].value.bit_eq(&want.value) {
            return Err(fail(pi, "value-mismatch", format!("select ids: key {} stored {} read {}", describe(&want.key), describe(&want.value), describe(&found[0].value))));
        }
    }
    // 2. select the value through its key
    for (pi, want) in expected.iter().enumerate() {
        let r = db.exec(QueryBuilder::select().values([want.key.clone()]).ids(id).query()).map_err(|e| fail(pi, "lookup-error", format!("select values by key {}: {}", describe(&want.key), exec_err(e))))?;
        let vals = &r.elements.first().ok_or_else(|| fail(pi, "lookup-error", "no element".into()))?.values;
        if vals.len() != 1 || !vals[0].key.bit_eq(&want.key) || !vals[0].value.bit_eq(&want.value) {
            return Err(fail(pi, "lookup-mismatch", format!("select values by key {}: stored {} read {:?}", describe(&want.key), describe(&want.value), vals.iter().map(|kv| format!("{} -> {}", describe(&kv.key), describe(&kv.value))).collect::<Vec<_>>())));
        }
    }
    // 3. keys only
    let r = db.exec(QueryBuilder::select().keys().ids(id).query()).map_err(|e| fail(0, "read-error", format!("select keys: {}", exec_err(e))))?;
    let keys = &r.elements.first().ok_or_else(|| fail(0, "read-error", "select keys returned no element".into()))?.values;
    for (pi, want) in expected.iter().enumerate() {
        if keys.iter().filter(|kv| kv.key.bit_eq(&want.key)).count() != 1 {
            return Err(fail(pi, "key-mismatch", format!("select keys: key {} not present exactly once", describe(&want.key))));
        }
    }
    Ok(())
}

fn pad_value(i: usize, round: usize) -> DbValue {
    match i % 4 {
        0 => DbValue::String(string_of(10 + i + 13 * round, 1, i)),
        1 => DbValue::VecI64((0..(i + 2 * round) as i64).collect()),
        2 => DbValue::Bytes(vec![i as u8; 14 + i % 5 + 9 * round]),
        _ => DbValue::U64(i as u64),
    }
}

/// One complete history on one variant. `pairs` are stored on one element.
fn run_history<S: StorageData>(open: &dyn Fn(&str) -> Result<DbImpl<S>, DbError>, memory: bool, path: &str, pairs: &[DbKeyValue]) -> Result<(), Failure> {
    let setup = |phase: &'static str, what: &str, e: DbError| Failure { phase, kind: "write-error".into(), detail: format!("{what}: {}", e.description), pair: 0 };
    let mut db = open(path).map_err(|e| setup("immediately", "open", e))?;
    let ids = db.exec_mut(QueryBuilder::insert().nodes().count(2).query()).map_err(|e| setup("immediately", "insert nodes", e))?;
    let (e1, e2) = (ids.elements[0].id, ids.elements[1].id);
    db.exec_mut(QueryBuilder::insert().values([pairs.to_vec()]).ids(e1).query()).map_err(|e| setup("immediately", "insert values", e))?;
    read_back(&db, e1, pairs, PHASES[0])?;

    // further inserts that relocate the element's property list and the stored values
    for i in 0..20usize {
        let kv: DbKeyValue = (format!("__pad{i}"), pad_value(i, 0)).into();
        db.exec_mut(QueryBuilder::insert().values([[kv]]).ids(e1).query()).map_err(|e| setup(PHASES[1], "insert pad", e))?;
        if i % 5 == 0 {
            db.exec_mut(QueryBuilder::insert().values([[(format!("__other{i}"), pad_value(i + 1, 1)).into()]]).ids(e2).query()).map_err(|e| setup(PHASES[1], "insert other", e))?;
        }
    }
    db.exec_mut(QueryBuilder::insert().nodes().count(3).values_uniform([("__n", vec!["some", "strings"]).into(), ("__m", "a string of more than fifteen bytes").into()]).query()).map_err(|e| setup(PHASES[1], "insert nodes", e))?;
    for i in (0..20usize).step_by(3) {
        // overwrite with a larger value (moves it), remove another (frees a region)
        db.exec_mut(QueryBuilder::insert().values([[(format!("__pad{i}"), pad_value(i, 2)).into()]]).ids(e1).query()).map_err(|e| setup(PHASES[1], "overwrite pad", e))?;
        db.exec_mut(QueryBuilder::remove().values([format!("__pad{}", i + 1)]).ids(e1).query()).map_err(|e| setup(PHASES[1], "remove pad", e))?;
    }
    read_back(&db, e1, pairs, PHASES[1])?;

    // reopen
    if memory {
        db.backup(path).map_err(|e| setup(PHASES[2], "backup", e))?;
    }
    drop(db);
    let mut db = open(path).map_err(|e| setup(PHASES[2], "reopen", e))?;
    read_back(&db, e1, pairs, PHASES[2])?;

    db.optimize_storage().map_err(|e| setup(PHASES[3], "optimize_storage", e))?;
    read_back(&db, e1, pairs, PHASES[3])?;
    if !memory {
        drop(db);
        let db = open(path).map_err(|e| setup(PHASES[3], "reopen after optimize", e))?;
        read_back(&db, e1, pairs, PHASES[3])?;
    }
    Ok(())
}

fn run_on_variant(variant: usize, path: &str, pairs: &[DbKeyValue]) -> Result<Result<(), Failure>, engine::Panicked> {
    catch(|| match variant {
        0 => run_history::<MemoryStorage>(&|p| DbMemory::new(p), true, path, pairs),
        1 => run_history::<FileStorage>(&|p| DbFile::new(p), false, path, pairs),
        2 => run_history::<FileStorageMemoryMapped>(&|p| Db::new(p), false, path, pairs),
        3 => run_history::<AnyStorage>(&|p| DbAny::new_memory(p), true, path, pairs),
        4 => run_history::<AnyStorage>(&|p| DbAny::new_file(p), false, path, pairs),
        _ => run_history::<AnyStorage>(&|p| DbAny::new_mapped(p), false, path, pairs),
    })
}

fn pair_for(role: &str, v: &DbValue, i: usize) -> DbKeyValue {
    if role == "key" { DbKeyValue { key: v.clone(), value: DbValue::String(format!("value of key #{i}")) } } else { DbKeyValue { key: DbValue::String(format!("key{i}")), value: v.clone() } }
}

pub fn run(args: &Args) -> i32 {
    if let Some(f) = &args.replay {
        return replay(f);
    }
    let report = Report::new(args, "exploration");
    let grid = value_grid(args.tier);
    let n = grid.len();
    let coll = Collector::default();
    // The grid holds DbValues; a float enters the database through
    // `DbValue::from(f64)` / `DbF64::from(f64)`. Those conversions are part of
    // "reads back bit-for-bit": check them on every float bit pattern first.
    let mut conversions = 0u64;
    for b in float_bit_patterns() {
        conversions += 1;
        let got = match DbValue::from(f64::from_bits(b)) {
            DbValue::F64(f) => Some(f.to_f64().to_bits()),
            _ => None,
        };
        let got_vec = match DbValue::from(vec![f64::from_bits(b)]) {
            DbValue::VecF64(f) if f.len() == 1 => Some(f[0].to_f64().to_bits()),
            _ => None,
        };
        if got != Some(b) || got_vec != Some(b) {
            coll.add(
                "conversion|value|F64|from-f64|value-mismatch",
                (8, b as usize & 0xffff),
                &format!("DbValue::from(f64 with bits {b:#018x}) holds bits {got:?} (as one-element vector: {got_vec:?})"),
                json!({"check": "C12", "mode": "conversion", "bits": format!("{b:#018x}")}),
            );
        }
    }
    // work items: single-pair histories (variant x role x value) and bulk histories (variant x role)
    let singles = VARIANTS.len() * 2 * n;
    let bulks = VARIANTS.len() * 2;
    let evaluations = AtomicU64::new(0);
    let histories = AtomicU64::new(0);
    let distinct = DistinctCounter::default();
    let scratches: Vec<Scratch> = (0..engine::workers()).map(|_| Scratch::new("c12")).collect();
    let roles = ["key", "value"];
    par_for(singles + bulks, args.seed, |w, item| {
        let scratch = &scratches[w];
        scratch.clear();
        let path = scratch.path("c12.agdb");
        let (variant, role, pairs, first_index, mode) = if item < singles {
            let variant = item / (2 * n);
            let role = roles[(item / n) % 2];
            let i = item % n;
            (variant, role, vec![pair_for(role, &grid[i], i)], i, "single")
        } else {
            let b = item - singles;
            let variant = b / 2;
            let role = roles[b % 2];
            (variant, role, grid.iter().enumerate().map(|(i, v)| pair_for(role, v, i)).collect::<Vec<_>>(), 0, "bulk")
        };
        histories.fetch_add(1, Ordering::Relaxed);
        evaluations.fetch_add((pairs.len() * PHASES.len()) as u64, Ordering::Relaxed);
        for (k, p) in pairs.iter().enumerate() {
            let v = if role == "key" { &p.key } else { &p.value };
            let mut key = format!("{}|{}|{}|", VARIANTS[variant], role, mode).into_bytes();
            key.extend(AgdbSerialize::serialize(v));
            let _ = k;
            distinct.insert(&key);
        }
        let outcome = run_on_variant(variant, &path, &pairs);
        let (phase, kind, detail, pair, panic) = match outcome {
            Ok(Ok(())) => return,
            Ok(Err(f)) => (f.phase, f.kind, f.detail, f.pair, None),
            Err(p) => ("?", "panic".to_string(), format!("{} at {}", p.message, p.location), 0, Some(p)),
        };
        let vi = first_index + pair;
        let v = &grid[vi.min(n - 1)];
        let sig = match &panic {
            Some(p) => format!("{}|{}|{}|panic|{}|{}", VARIANTS[variant], role, type_name(v), p.normalised(), p.file()),
            None => format!("{}|{}|{}|{}|{}", VARIANTS[variant], role, type_name(v), phase, kind),
        };
        let what = format!("{} as {} on {} ({} history), {}: {}", describe(v), role, VARIANTS[variant], mode, phase, detail);
        let size = AgdbSerialize::serialize(v).len();
        coll.add(
            &sig,
            (size + if mode == "bulk" { 1_000_000 } else { 0 }, vi),
            &what,
            json!({"check": "C12", "variant": VARIANTS[variant], "role": role, "mode": mode, "tier": args.tier.as_str(), "value_index": vi, "value": describe(v), "value_encoding": hex(&AgdbSerialize::serialize(v)), "phase": phase, "failure": kind}),
        );
    });
    for i in [0usize, n / 3, n / 2, n - 1] {
        report.sample(json!({"value": describe(&grid[i]), "encoding": hex(&AgdbSerialize::serialize(&grid[i])), "used_as": ["key", "value"], "variants": VARIANTS, "phases": PHASES}));
    }
    report.set("evaluations", json!(evaluations.load(Ordering::Relaxed)));
    report.set("distinct_nontrivial", json!(distinct.len()));
    report.set(
        "rule",
        json!("value grid (bytes and 1/2/3/4-byte-character strings of every byte length 0..=max_len, extreme and boundary integers, float bit patterns incl. signed zeros, infinities, subnormals, quiet/signalling NaNs with payloads, vectors of 0..=5 of those, two long vectors) x {key, value} x 6 variants; each stored alone on an element (single) and all together on one element (bulk); read back by select ids / select values by key / select keys: immediately, after 20+ further inserts, overwrites and removals, after reopen, after optimize_storage (+reopen); bit equality. evaluations = stored pairs x read-back phases; distinct_nontrivial = distinct (variant, role, mode, value bits)"),
    );
    report.set("grid_values", json!(n));
    report.set("float_conversions_checked", json!(conversions));
    report.set("max_len", json!(args.tier.pick(MAX_LEN, 2 * MAX_LEN)));
    report.set("histories", json!(histories.load(Ordering::Relaxed)));
    report.set("variants", json!(VARIANTS));
    report.set("phases", json!(PHASES));
    report.set("violating_cases", json!(coll.total()));
    report.set("exhaustive", json!(true));
    coll.flush(&report);
    report.finish()
}

fn replay(file: &str) -> i32 {
    let text = std::fs::read_to_string(file).unwrap_or_else(|e| engine::machinery_failure(&format!("replay file: {e}")));
    let v: Value = serde_json::from_str(&text).unwrap_or_else(|e| engine::machinery_failure(&format!("replay file: {e}")));
    let r = if v.get("replay").is_some() { &v["replay"] } else { &v };
    if r["mode"].as_str() == Some("conversion") {
        let b = u64::from_str_radix(r["bits"].as_str().unwrap_or("0x0").trim_start_matches("0x"), 16).unwrap_or(0);
        let got = match DbValue::from(f64::from_bits(b)) {
            DbValue::F64(f) => f.to_f64().to_bits(),
            _ => 0,
        };
        println!("OBSERVED DbValue::from(f64 bits {b:#018x}) holds bits {got:#018x}");
        if got != b {
            println!("VIOLATION property=C12 replay={file}");
            return 1;
        }
        return 0;
    }
    let variant = VARIANTS.iter().position(|x| Some(*x) == r["variant"].as_str()).unwrap_or_else(|| engine::machinery_failure("unknown variant"));
    let role = if r["role"].as_str() == Some("key") { "key" } else { "value" };
    let value = DbValue::deserialize(&unhex(r["value_encoding"].as_str().unwrap_or(""))).unwrap_or_else(|e| engine::machinery_failure(&format!("value_encoding: {}", e.description)));
    let pairs = if r["mode"].as_str() == Some("bulk") {
        let tier = if r["tier"].as_str() == Some("thorough") { engine::Tier::Thorough } else { engine::Tier::Quick };
        value_grid(tier).iter().enumerate().map(|(i, v)| pair_for(role, v, i)).collect()
    } else {
        vec![pair_for(role, &value, r["value_index"].as_u64().unwrap_or(0) as usize)]
    };
    let scratch = Scratch::new("c12r");
    println!("variant={} role={role} mode={} value={}", VARIANTS[variant], r["mode"].as_str().unwrap_or("single"), describe(&value));
    match run_on_variant(variant, &scratch.path("c12.agdb"), &pairs) {
        Ok(Ok(())) => {
            println!("OBSERVED all read-backs bit-identical");
            0
        }
        Ok(Err(f)) => {
            println!("OBSERVED {} {}: {}", f.phase, f.kind, f.detail);
            println!("VIOLATION property=C12 replay={file}");
            1
        }
        Err(p) => {
            println!("OBSERVED panic {} at {}", p.message, p.location);
            println!("VIOLATION property=C12 replay={file}");
            1
        }
    }
}
