//! Collects every violating case, keeps the SMALLEST case per signature as
//! the replay artefact (deterministic regardless of worker scheduling), and
//! hands the classes to the engine's `Report` at the end.

use engine::Report;
use serde_json::Value;
use std::collections::BTreeMap;
use std::sync::Mutex;

struct Class {
    count: u64,
    key: (usize, usize),
    what: String,
    replay: Value,
}

#[derive(Default)]
pub struct Collector {
    classes: Mutex<BTreeMap<String, Class>>,
}

impl Collector {
    /// `key` orders the cases of one signature; the smallest is kept
    pub fn add(&self, signature: &str, key: (usize, usize), what: &str, replay: Value) {
        let mut c = self.classes.lock().unwrap();
        match c.get_mut(signature) {
            Some(cl) => {
                cl.count += 1;
                if key < cl.key {
                    cl.key = key;
                    cl.what = what.to_string();
                    cl.replay = replay;
                }
            }
            None => {
                c.insert(signature.to_string(), Class { count: 1, key, what: what.to_string(), replay });
            }
        }
    }

    pub fn total(&self) -> u64 {
        self.classes.lock().unwrap().values().map(|c| c.count).sum()
    }

    pub fn signatures(&self) -> Vec<(String, u64, String, Value)> {
        self.classes.lock().unwrap().iter().map(|(s, c)| (s.clone(), c.count, c.what.clone(), c.replay.clone())).collect()
    }

    pub fn flush(&self, report: &Report) {
        for (sig, count, what, replay) in self.signatures() {
            report.violation(&sig, &what, replay);
            for _ in 1..count {
                report.violation(&sig, "", Value::Null);
            }
        }
    }
}
