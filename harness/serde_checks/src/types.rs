//! User types of the corpus: everything the derive macros support
//! (`DbSerialize`, `DbValue`, `DbTypeMarker`, `DbType`, `DbElement`).

use crate::grid::*;
use crate::{biteq_struct, biteq_via_eq, grid_struct};
use agdb::{AgdbSerialize, DbF64, DbId, DbKeyValue, DbSerialize, DbTypeMarker, DbValue, QueryId};
use std::net::{IpAddr, SocketAddr};
use std::path::PathBuf;
use std::time::SystemTime;

// ---------------------------------------------------------------------------
// DbSerialize corpus (C20 / C21)

#[derive(DbSerialize, Clone, Debug, PartialEq)]
pub struct Empty {}
grid_struct!(Empty {});

#[derive(DbSerialize, Clone, Debug, PartialEq)]
pub struct Named {
    pub a: u64,
    pub b: i64,
    pub c: String,
}
grid_struct!(Named { a: u64, b: i64, c: String });

#[derive(DbSerialize, Clone, Debug, PartialEq)]
pub struct Tuple2(pub u64, pub String);
impl Grid for Tuple2 {
    fn grid(b: usize) -> Vec<Self> {
        prod2(&u64::grid(fb(b)), &String::grid(fb(b)), b).into_iter().map(|(x, y)| Tuple2(x, y)).collect()
    }
}

#[derive(DbSerialize, Clone, Debug, PartialEq)]
pub struct Newtype(pub i64);
impl Grid for Newtype {
    fn grid(b: usize) -> Vec<Self> {
        i64::grid(b).into_iter().map(Newtype).collect()
    }
}

#[derive(DbSerialize, Clone, Debug)]
pub struct Floats {
    pub x: f64,
    pub y: DbF64,
    pub v: Vec<f64>,
}
grid_struct!(Floats { x: f64, y: DbF64, v: Vec<f64> });
biteq_struct!(Floats { x, y, v });

#[derive(DbSerialize, Clone, Debug, PartialEq)]
pub struct Nested {
    pub inner: Named,
    pub t: Tuple2,
    pub tail: bool,
}
grid_struct!(Nested { inner: Named, t: Tuple2, tail: bool });

#[derive(DbSerialize, Clone, Debug, PartialEq)]
pub struct Generic<T: AgdbSerialize> {
    pub head: u64,
    pub values: Vec<T>,
    pub tail: T,
}
impl<T: AgdbSerialize + Grid> Grid for Generic<T> {
    fn grid(b: usize) -> Vec<Self> {
        prod3(&u64::grid(fb(b)), &Vec::<T>::grid(fb(b)), &T::grid(fb(b)), b).into_iter().map(|(head, values, tail)| Generic { head, values, tail }).collect()
    }
}
impl<T: AgdbSerialize + BitEq> BitEq for Generic<T> {
    fn bit_eq(&self, o: &Self) -> bool {
        self.head == o.head && self.values.bit_eq(&o.values) && self.tail.bit_eq(&o.tail)
    }
}

#[derive(DbSerialize, Clone, Debug, PartialEq)]
pub struct GenericTuple<T: AgdbSerialize>(pub T, pub Vec<T>);
impl<T: AgdbSerialize + Grid> Grid for GenericTuple<T> {
    fn grid(b: usize) -> Vec<Self> {
        prod2(&T::grid(fb(b)), &Vec::<T>::grid(fb(b)), b).into_iter().map(|(x, y)| GenericTuple(x, y)).collect()
    }
}
impl<T: AgdbSerialize + BitEq> BitEq for GenericTuple<T> {
    fn bit_eq(&self, o: &Self) -> bool {
        self.0.bit_eq(&o.0) && self.1.bit_eq(&o.1)
    }
}

#[derive(DbSerialize, Clone, Debug, PartialEq, Default)]
pub enum UnitEnum {
    #[default]
    A,
    B,
    C,
}
impl Grid for UnitEnum {
    fn grid(b: usize) -> Vec<Self> {
        cap(vec![UnitEnum::A, UnitEnum::B, UnitEnum::C], b)
    }
}

#[derive(DbSerialize, Clone, Debug, PartialEq)]
pub enum Mixed {
    A,
    B(u64),
    C(u64, String),
    D(Nested),
    E(UnitEnum),
    F { f1: u64, f2: Vec<String> },
    G(Vec<u8>, bool),
}
impl Grid for Mixed {
    const VEC_LENS: &'static [usize] = &[0, 1, 3, 7];
    fn grid(b: usize) -> Vec<Self> {
        cap(
            interleave(vec![
                vec![Mixed::A],
                u64::grid(fb(b)).into_iter().map(Mixed::B).collect(),
                prod2(&u64::grid(fb(b)), &String::grid(fb(b)), b).into_iter().map(|(x, y)| Mixed::C(x, y)).collect(),
                Nested::grid(b).into_iter().map(Mixed::D).collect(),
                UnitEnum::grid(3).into_iter().map(Mixed::E).collect(),
                prod2(&u64::grid(fb(b)), &Vec::<String>::grid(fb(b)), b).into_iter().map(|(f1, f2)| Mixed::F { f1, f2 }).collect(),
                prod2(&Vec::<u8>::grid(fb(b)), &bool::grid(2), b).into_iter().map(|(x, y)| Mixed::G(x, y)).collect(),
            ]),
            b,
        )
    }
}

#[derive(DbSerialize, Clone, Debug, PartialEq)]
pub struct Times {
    pub t: SystemTime,
    pub p: PathBuf,
    pub a: SocketAddr,
    pub ip: IpAddr,
}
impl Grid for Times {
    fn grid(b: usize) -> Vec<Self> {
        // unicode paths only here; the non-unicode path is a case of the PathBuf entry itself
        let t = SystemTime::grid(fb(b));
        let p = utf8_paths();
        // socket addresses whose textual form is complete (no flow info)
        let a: Vec<SocketAddr> = SocketAddr::grid(64).into_iter().filter(|a| !matches!(a, SocketAddr::V6(v) if v.flowinfo() != 0)).collect();
        let ip = IpAddr::grid(fb(b));
        index_tuples(&[t.len(), p.len(), a.len(), ip.len()], b).into_iter().map(|i| Times { t: t[i[0]], p: p[i[1]].clone(), a: a[i[2]], ip: ip[i[3]] }).collect()
    }
}

#[derive(DbSerialize, Clone, Debug, PartialEq)]
pub struct Vecs {
    pub a: Vec<u8>,
    pub b: Vec<i64>,
    pub c: Vec<String>,
    pub d: Vec<Vec<u8>>,
    pub e: Vec<bool>,
}
grid_struct!(Vecs { a: Vec<u8>, b: Vec<i64>, c: Vec<String>, d: Vec<Vec<u8>>, e: Vec<bool> });

#[derive(DbSerialize, Clone, Debug, PartialEq)]
pub struct WithValue {
    pub v: DbValue,
    pub kv: DbKeyValue,
    pub id: DbId,
}
grid_struct!(WithValue { v: DbValue, kv: DbKeyValue, id: DbId });

#[derive(DbSerialize, Clone, Debug, PartialEq)]
pub struct VecOfEnum {
    pub items: Vec<Mixed>,
}
grid_struct!(VecOfEnum { items: Vec<Mixed> });

#[derive(DbSerialize, Clone, Debug, PartialEq)]
pub struct VecOfEmpty {
    pub items: Vec<Empty>,
    pub n: u64,
}
grid_struct!(VecOfEmpty { items: Vec<Empty>, n: u64 });

#[derive(DbSerialize, Clone, Debug, PartialEq)]
pub enum Deep {
    Leaf(u64),
    Node(Vec<Deep>),
    Pair(UnitEnum, String),
}
thread_local! {
    static DEEP: std::cell::Cell<u32> = const { std::cell::Cell::new(0) };
}
impl Grid for Deep {
    const VEC_LENS: &'static [usize] = &[0, 1, 3];
    fn grid(b: usize) -> Vec<Self> {
        let mut lists = vec![
            u64::grid(4).into_iter().map(Deep::Leaf).collect::<Vec<_>>(),
            prod2(&UnitEnum::grid(3), &String::grid(4), 12).into_iter().map(|(x, y)| Deep::Pair(x, y)).collect(),
        ];
        let d = DEEP.with(|c| c.get());
        if d < 3 {
            DEEP.with(|c| c.set(d + 1));
            lists.push(Vec::<Deep>::grid(8).into_iter().map(Deep::Node).collect());
            DEEP.with(|c| c.set(d));
        }
        cap(interleave(lists), b)
    }
}

#[derive(DbSerialize, Clone, Debug)]
pub struct Wide {
    pub f01: u64,
    pub f02: i64,
    pub f03: f64,
    pub f04: String,
    pub f05: bool,
    pub f06: Vec<u8>,
    pub f07: Vec<u64>,
    pub f08: Vec<String>,
    pub f09: UnitEnum,
    pub f10: Named,
    pub f11: DbValue,
    pub f12: usize,
}
grid_struct!(Wide { f01: u64, f02: i64, f03: f64, f04: String, f05: bool, f06: Vec<u8>, f07: Vec<u64>, f08: Vec<String>, f09: UnitEnum, f10: Named, f11: DbValue, f12: usize });
biteq_struct!(Wide { f01, f02, f03, f04, f05, f06, f07, f08, f09, f10, f11, f12 });

biteq_via_eq!(Empty, Named, Tuple2, Newtype, Nested, UnitEnum, Mixed, Times, Vecs, WithValue, VecOfEnum, VecOfEmpty, Deep);

// ---------------------------------------------------------------------------
// "how the type is declared": explicit discriminants, reprs, single-variant
// and many-variant enums, unit / empty-tuple / wide tuple structs, several
// generic parameters with a where clause, const generics

/// fieldless, explicit discriminants: not starting at 0, with gaps
#[derive(DbSerialize, DbValue, DbTypeMarker, Clone, Copy, Debug, PartialEq, Default)]
pub enum Priority {
    Low = 1,
    #[default]
    Normal = 5,
    High = 10,
}
/// explicit and implicit discriminants mixed
#[derive(DbSerialize, DbValue, DbTypeMarker, Clone, Copy, Debug, PartialEq, Default)]
pub enum Gap {
    #[default]
    A = 2,
    B,
    C = 9,
    D,
}
/// repr(u8), discriminants in descending / non-monotone order
#[derive(DbSerialize, DbValue, DbTypeMarker, Clone, Copy, Debug, PartialEq, Default)]
#[repr(u8)]
pub enum ReprU8 {
    #[default]
    A = 200,
    B = 3,
    C = 0,
    D = 255,
}
/// repr(i32) with a negative and a large discriminant
#[derive(DbSerialize, Clone, Copy, Debug, PartialEq)]
#[repr(i32)]
pub enum ReprI32 {
    Neg = -1,
    Zero = 0,
    Big = 70000,
}
/// explicit discriminants on an enum that also has payload variants
#[derive(DbSerialize, Clone, Debug, PartialEq)]
#[repr(u8)]
pub enum MixedRepr {
    A = 7,
    B(u64) = 3,
    C { x: String } = 9,
    D = 1,
}
#[derive(DbSerialize, Clone, Debug, PartialEq)]
pub enum OneUnit {
    Only,
}
#[derive(DbSerialize, DbValue, DbTypeMarker, Clone, Debug, PartialEq)]
pub enum OneTuple {
    Only(u64, String),
}
#[derive(DbSerialize, Clone, Debug, PartialEq)]
pub enum OneStruct {
    Only { a: Vec<u8>, p: Priority },
}
#[derive(DbSerialize, Clone, Debug, PartialEq)]
pub struct UnitStruct;
#[derive(DbSerialize, Clone, Debug, PartialEq)]
pub struct Tuple0();
#[derive(DbSerialize, DbValue, DbTypeMarker, Clone, Debug)]
pub struct Tuple5(pub u64, pub String, pub Vec<u8>, pub bool, pub f64);
/// two type parameters and a where clause
#[derive(DbSerialize, DbValue, Clone, Debug, PartialEq)]
pub struct Pair<A, B>
where
    A: AgdbSerialize,
    B: AgdbSerialize,
{
    pub a: A,
    pub b: Vec<B>,
    pub n: u64,
}
#[derive(DbSerialize, Clone, Debug, PartialEq)]
pub struct ConstGen<const N: usize> {
    pub v: Vec<u64>,
    pub s: String,
}
/// the declaration shapes nested in vectors and in each other
#[derive(DbSerialize, Clone, Debug, PartialEq)]
pub struct DeclNest {
    pub ps: Vec<Priority>,
    pub gs: Vec<Gap>,
    pub rs: Vec<ReprU8>,
    pub ms: Vec<MixedRepr>,
    pub one: OneTuple,
    pub unit: UnitStruct,
    pub t0: Tuple0,
    pub us: Vec<OneUnit>,
}

macro_rules! grid_list {
    ($t:ty: $($v:expr),+ $(,)?) => {
        impl Grid for $t {
            const VEC_LENS: &'static [usize] = &[0, 1, 2, 4];
            fn grid(b: usize) -> Vec<Self> {
                cap(vec![$($v),+], b)
            }
        }
    };
}
grid_list!(Priority: Priority::Low, Priority::Normal, Priority::High);
grid_list!(Gap: Gap::A, Gap::B, Gap::C, Gap::D);
grid_list!(ReprU8: ReprU8::A, ReprU8::B, ReprU8::C, ReprU8::D);
grid_list!(ReprI32: ReprI32::Neg, ReprI32::Zero, ReprI32::Big);
grid_list!(OneUnit: OneUnit::Only);
grid_list!(UnitStruct: UnitStruct);
grid_list!(Tuple0: Tuple0());
impl Grid for MixedRepr {
    const VEC_LENS: &'static [usize] = &[0, 1, 4];
    fn grid(b: usize) -> Vec<Self> {
        cap(interleave(vec![vec![MixedRepr::A, MixedRepr::D], u64::grid(4).into_iter().map(MixedRepr::B).collect(), String::grid(5).into_iter().map(|x| MixedRepr::C { x }).collect()]), b)
    }
}
impl Grid for OneTuple {
    fn grid(b: usize) -> Vec<Self> {
        prod2(&u64::grid(fb(b)), &String::grid(fb(b)), b).into_iter().map(|(x, y)| OneTuple::Only(x, y)).collect()
    }
}
impl Grid for OneStruct {
    fn grid(b: usize) -> Vec<Self> {
        prod2(&Vec::<u8>::grid(fb(b)), &Priority::grid(3), b).into_iter().map(|(a, p)| OneStruct::Only { a, p }).collect()
    }
}
impl Grid for Tuple5 {
    fn grid(b: usize) -> Vec<Self> {
        let (a, s, v, f, x) = (u64::grid(fb(b)), String::grid(fb(b)), Vec::<u8>::grid(fb(b)), bool::grid(2), f64::grid(fb(b)));
        index_tuples(&[a.len(), s.len(), v.len(), f.len(), x.len()], b).into_iter().map(|i| Tuple5(a[i[0]], s[i[1]].clone(), v[i[2]].clone(), f[i[3]], x[i[4]])).collect()
    }
}
impl BitEq for Tuple5 {
    fn bit_eq(&self, o: &Self) -> bool {
        self.0 == o.0 && self.1 == o.1 && self.2 == o.2 && self.3 == o.3 && self.4.bit_eq(&o.4)
    }
}
impl<A: AgdbSerialize + Grid, B: AgdbSerialize + Grid> Grid for Pair<A, B> {
    fn grid(b: usize) -> Vec<Self> {
        prod3(&A::grid(fb(b)), &Vec::<B>::grid(fb(b)), &u64::grid(fb(b)), b).into_iter().map(|(a, bb, n)| Pair { a, b: bb, n }).collect()
    }
}
impl<A: AgdbSerialize + BitEq, B: AgdbSerialize + BitEq> BitEq for Pair<A, B> {
    fn bit_eq(&self, o: &Self) -> bool {
        self.a.bit_eq(&o.a) && self.b.bit_eq(&o.b) && self.n == o.n
    }
}
impl<const N: usize> Grid for ConstGen<N> {
    fn grid(b: usize) -> Vec<Self> {
        prod2(&Vec::<u64>::grid(fb(b)), &String::grid(fb(b)), b).into_iter().map(|(v, s)| ConstGen { v, s }).collect()
    }
}
grid_struct!(DeclNest { ps: Vec<Priority>, gs: Vec<Gap>, rs: Vec<ReprU8>, ms: Vec<MixedRepr>, one: OneTuple, unit: UnitStruct, t0: Tuple0, us: Vec<OneUnit> });
biteq_via_eq!(Priority, Gap, ReprU8, ReprI32, MixedRepr, OneUnit, OneTuple, OneStruct, UnitStruct, Tuple0, ConstGen<3>, ConstGen<0>, DeclNest);

// ---------------------------------------------------------------------------
// custom value types (derive DbValue): stored as DbValue::Bytes

#[derive(Default, Debug, Clone, PartialEq, DbTypeMarker, DbValue, DbSerialize)]
pub enum Status {
    Active,
    #[default]
    Inactive,
    Banned(u64),
    Note {
        text: String,
    },
}
impl Grid for Status {
    const VEC_LENS: &'static [usize] = &[0, 1, 2, 4];
    fn grid(b: usize) -> Vec<Self> {
        cap(
            interleave(vec![
                vec![Status::Active, Status::Inactive],
                u64::grid(3).into_iter().map(Status::Banned).collect(),
                String::grid(5).into_iter().map(|text| Status::Note { text }).collect(),
            ]),
            b,
        )
    }
}

#[derive(Clone, PartialEq, Debug, Default, DbValue, DbTypeMarker, DbSerialize)]
pub struct Attribute {
    pub name: String,
    pub value: String,
    pub weight: f64,
}
impl Grid for Attribute {
    const VEC_LENS: &'static [usize] = &[0, 1, 2];
    fn grid(b: usize) -> Vec<Self> {
        prod3(&String::grid(4), &String::grid(5), &f64::grid(17), b).into_iter().map(|(name, value, weight)| Attribute { name, value, weight }).collect()
    }
}
biteq_struct!(Attribute { name, value, weight });
biteq_via_eq!(Status);

#[derive(Clone, PartialEq, Debug, DbValue, DbSerialize)]
pub struct GenericValue<T: AgdbSerialize> {
    pub values: Vec<T>,
}
impl<T: AgdbSerialize> DbTypeMarker for GenericValue<T> {}
impl<T: AgdbSerialize + Grid> Grid for GenericValue<T> {
    fn grid(b: usize) -> Vec<Self> {
        Vec::<T>::grid(b).into_iter().map(|values| GenericValue { values }).collect()
    }
}
impl<T: AgdbSerialize + BitEq> BitEq for GenericValue<T> {
    fn bit_eq(&self, o: &Self) -> bool {
        self.values.bit_eq(&o.values)
    }
}

// ---------------------------------------------------------------------------
// DbType / DbElement corpus (C22). `IdField` abstracts over the supported
// types of the `db_id` field.

pub mod user {
    use super::*;
    use agdb::{DbElement, DbType};

    #[derive(DbType, Clone, Debug, PartialEq)]
    pub struct Plain {
        pub name: String,
        pub age: u64,
    }
    grid_struct!(Plain { name: String, age: u64 });
    biteq_via_eq!(Plain);

    #[derive(DbType, Clone, Debug, PartialEq)]
    pub struct WithId {
        pub db_id: Option<DbId>,
        pub name: String,
        pub age: u64,
    }

    #[derive(DbType, Clone, Debug, PartialEq)]
    pub struct WithQueryId {
        pub db_id: Option<QueryId>,
        pub name: String,
        pub age: i64,
    }

    #[derive(DbType, Clone, Debug, PartialEq)]
    pub struct WithPlainId {
        pub db_id: DbId,
        pub name: String,
        pub tags: Vec<String>,
    }

    #[derive(DbType, Clone, Debug)]
    pub struct AllScalars {
        pub db_id: Option<DbId>,
        pub bytes: Vec<u8>,
        pub u64: u64,
        pub u32: u32,
        pub i64: i64,
        pub i32: i32,
        pub f64: f64,
        pub f32: f32,
        pub string: String,
        pub flag: bool,
    }

    #[derive(DbType, Clone, Debug)]
    pub struct AllVecs {
        pub db_id: Option<DbId>,
        pub vec_u64: Vec<u64>,
        pub vec_u32: Vec<u32>,
        pub vec_i64: Vec<i64>,
        pub vec_i32: Vec<i32>,
        pub vec_f64: Vec<f64>,
        pub vec_f32: Vec<f32>,
        pub vec_string: Vec<String>,
        pub vec_bool: Vec<bool>,
    }

    #[derive(DbType, Clone, Debug, PartialEq)]
    pub struct WithOption {
        pub db_id: Option<DbId>,
        pub name: String,
        pub value: Option<u64>,
        pub text: Option<String>,
        pub list: Option<Vec<i64>>,
    }

    #[derive(DbType, Clone, Debug)]
    pub struct WithCustom {
        pub db_id: Option<DbId>,
        pub status: Status,
        pub attr: Attribute,
        pub statuses: Vec<Status>,
        pub attrs: Vec<Attribute>,
        pub opt: Option<Status>,
    }

    #[derive(DbType, Clone, Debug, PartialEq)]
    pub struct Flattened {
        pub db_id: Option<DbId>,
        pub category: String,
        #[agdb(flatten)]
        pub inner: Plain,
    }

    #[derive(DbType, Clone, Debug, PartialEq)]
    pub struct Renamed {
        pub db_id: Option<DbId>,
        #[agdb(rename = "category_name")]
        pub category: String,
        #[agdb(rename = "n")]
        pub count: u64,
    }

    #[derive(DbType, Clone, Debug, PartialEq)]
    pub struct Skipped {
        pub db_id: Option<DbId>,
        pub category: String,
        #[agdb(skip)]
        pub cache: u64,
        #[agdb(skip)]
        pub note: Option<String>,
    }

    #[derive(DbElement, Clone, Debug, PartialEq)]
    pub struct Elem {
        pub db_id: Option<DbId>,
        pub name: String,
        pub n: i64,
    }

    #[derive(DbType, Clone, Debug, PartialEq)]
    pub struct StdTypes {
        pub db_id: Option<DbId>,
        pub t: SystemTime,
        pub p: PathBuf,
        pub a: SocketAddr,
        pub ip: IpAddr,
        pub ts: Vec<SystemTime>,
        pub ps: Vec<PathBuf>,
    }

    #[derive(DbType, Clone, Debug, PartialEq)]
    pub struct GenericHolder {
        pub db_id: Option<DbId>,
        pub gv: GenericValue<u64>,
        pub gs: GenericValue<String>,
    }

    // ---- every field attribute crossed with every field shape ---------------
    // (shapes: scalar, float, String, Vec<T>, Option<T>, Option<String>,
    //  Option<Vec<T>>, custom DbValue struct, custom DbValue enum, Vec<custom>,
    //  Option<custom>)

    /// `rename` on every shape
    #[derive(DbType, Clone, Debug)]
    pub struct RenamedShapes {
        pub db_id: Option<DbId>,
        #[agdb(rename = "r_scalar")]
        pub scalar: u64,
        #[agdb(rename = "r_float")]
        pub float: f64,
        #[agdb(rename = "r_string")]
        pub string: String,
        #[agdb(rename = "r_vec")]
        pub vec: Vec<i64>,
        #[agdb(rename = "r_opt")]
        pub opt: Option<u64>,
        #[agdb(rename = "r_opt_string")]
        pub opt_string: Option<String>,
        #[agdb(rename = "r_opt_vec")]
        pub opt_vec: Option<Vec<i64>>,
        #[agdb(rename = "r_custom")]
        pub custom: Attribute,
        #[agdb(rename = "r_enum")]
        pub status: Status,
        #[agdb(rename = "r_vec_custom")]
        pub vec_custom: Vec<Status>,
        #[agdb(rename = "r_opt_custom")]
        pub opt_custom: Option<Attribute>,
    }

    /// two fields renamed to each other's identifier (a lookup by identifier
    /// instead of by the renamed key finds the WRONG value, not nothing), with
    /// a plain `DbId` id field
    #[derive(DbType, Clone, Debug, PartialEq)]
    pub struct RenameSwap {
        pub db_id: DbId,
        #[agdb(rename = "second")]
        pub first: u64,
        #[agdb(rename = "first")]
        pub second: Option<u64>,
        #[agdb(rename = "fourth")]
        pub third: Vec<String>,
        #[agdb(rename = "third")]
        pub fourth: Option<Vec<String>>,
    }

    /// `skip` on every shape (plus skip together with rename), `Option<QueryId>` id
    #[derive(DbType, Clone, Debug, PartialEq)]
    pub struct SkippedShapes {
        pub db_id: Option<QueryId>,
        pub kept: String,
        #[agdb(skip)]
        pub scalar: u64,
        #[agdb(skip)]
        pub string: String,
        #[agdb(skip)]
        pub vec: Vec<i64>,
        #[agdb(skip)]
        pub opt: Option<u64>,
        #[agdb(skip)]
        pub opt_vec: Option<Vec<i64>>,
        #[agdb(skip)]
        pub custom: Attribute,
        #[agdb(skip)]
        pub status: Status,
        #[agdb(skip)]
        pub vec_custom: Vec<Status>,
        #[agdb(skip, rename = "never_stored")]
        pub renamed: i64,
        pub kept_opt: Option<i64>,
    }

    #[derive(DbType, Clone, Debug, PartialEq)]
    pub struct InnerRenamed {
        #[agdb(rename = "ir_n")]
        pub n: u64,
        #[agdb(rename = "ir_o")]
        pub o: Option<String>,
        pub v: Vec<u64>,
    }
    #[derive(DbType, Clone, Debug, PartialEq)]
    pub struct InnerCustom {
        pub st: Status,
        pub ost: Option<Status>,
        pub sts: Vec<Status>,
        #[agdb(skip)]
        pub tmp: u64,
    }
    #[derive(DbType, Clone, Debug, PartialEq)]
    pub struct InnerLeaf {
        pub leaf_name: String,
        pub leaf_list: Vec<i64>,
    }
    #[derive(DbType, Clone, Debug, PartialEq)]
    pub struct InnerNest {
        #[agdb(flatten)]
        pub deep: InnerLeaf,
        #[agdb(rename = "nest_x")]
        pub x: i64,
    }

    /// `flatten` of nested types that themselves use rename / Option / skip /
    /// custom values / a further flatten
    #[derive(DbType, Clone, Debug, PartialEq)]
    pub struct FlattenShapes {
        pub db_id: Option<DbId>,
        pub own: String,
        #[agdb(flatten)]
        pub a: InnerRenamed,
        #[agdb(flatten)]
        pub b: InnerCustom,
        #[agdb(flatten)]
        pub c: InnerNest,
    }

    /// flatten of nested types WITHOUT optional fields (typed key selection is used)
    #[derive(DbType, Clone, Debug, PartialEq)]
    pub struct FlattenPlain {
        pub db_id: Option<DbId>,
        #[agdb(rename = "own_renamed")]
        pub own: u64,
        #[agdb(flatten)]
        pub c: InnerNest,
        #[agdb(flatten)]
        pub p: Plain,
    }

    /// the element derive with rename / Option / skip / flatten together
    #[derive(DbElement, Clone, Debug, PartialEq)]
    pub struct ElemShapes {
        pub db_id: Option<DbId>,
        #[agdb(rename = "e_name")]
        pub name: String,
        #[agdb(rename = "e_opt")]
        pub opt: Option<i64>,
        #[agdb(skip)]
        pub cache: Vec<u64>,
        #[agdb(flatten)]
        pub inner: InnerLeaf,
    }

    /// declaration shapes as stored values: enums with explicit discriminants
    /// / repr, single-variant enum, wide tuple struct, two-parameter generic -
    /// plain, optional and in vectors
    #[derive(DbType, Clone, Debug)]
    pub struct DeclShapes {
        pub db_id: Option<DbId>,
        pub prio: Priority,
        pub oprio: Option<Priority>,
        pub vprio: Vec<Priority>,
        pub gap: Gap,
        pub vrepr: Vec<ReprU8>,
        pub orepr: Option<ReprU8>,
        pub one: OneTuple,
        pub vone: Vec<OneTuple>,
        pub t5: Tuple5,
        pub pair: Pair<u64, String>,
        pub opair: Option<Pair<Priority, Gap>>,
    }
}
