//! Shared sequence-exploration bench for C24, C25, C26: named base worlds
//! (set up once with real requests, snapshotted as files), and a per-worker
//! `Lab` that restores a base world, executes requests against the in-process
//! server on a current-thread tokio runtime (deterministic), and observes.

use crate::vh::world::{PASSWORD, Resp, Server, Snapshot, file_tree, login, rt_current};
use engine::Scratch;
use serde_json::{Value, json};
use std::collections::BTreeMap;

#[derive(Clone, Debug, PartialEq)]
pub(crate) struct Req {
    /// symbolic caller: a key of `Base::tokens`, or "garbage" / "none"
    pub(crate) caller: String,
    pub(crate) method: String,
    /// raw target below /api/v1, percent-encoded, with query string
    pub(crate) uri: String,
    pub(crate) body: Option<Value>,
    /// operation kind, used in signatures
    pub(crate) op: String,
}

impl Req {
    pub(crate) fn new(caller: &str, method: &str, uri: &str, body: Option<Value>, op: &str) -> Req {
        Req { caller: caller.to_string(), method: method.to_string(), uri: uri.to_string(), body, op: op.to_string() }
    }
    pub(crate) fn to_json(&self) -> Value {
        json!({"caller": self.caller, "method": self.method, "uri": self.uri, "body": self.body, "op": self.op})
    }
    pub(crate) fn from_json(v: &Value) -> Req {
        Req {
            caller: v["caller"].as_str().unwrap_or("none").to_string(),
            method: v["method"].as_str().unwrap_or("GET").to_string(),
            uri: v["uri"].as_str().unwrap_or("/status").to_string(),
            body: if v["body"].is_null() { None } else { Some(v["body"].clone()) },
            op: v["op"].as_str().unwrap_or("?").to_string(),
        }
    }
    pub(crate) fn short(&self) -> String {
        format!("{}:{} {}", self.caller, self.method, self.uri)
    }
}

pub(crate) fn reqs_to_json(r: &[Req]) -> Value {
    Value::Array(r.iter().map(|x| x.to_json()).collect())
}

pub(crate) fn reqs_from_json(v: &Value) -> Vec<Req> {
    v.as_array().map(|a| a.iter().map(Req::from_json).collect()).unwrap_or_default()
}

/// Declarative set-up of a base world (executed once, with real requests).
#[derive(Clone, Debug)]
pub(crate) enum Setup {
    /// admin creates the user (PBKDF2)
    AddUser(&'static str),
    /// log `user` in and remember the token under the caller name
    Login(&'static str, &'static str),
    /// POST /user/logout with that caller's token (the token stays remembered: a logged-out token)
    Logout(&'static str),
    /// the stored expiry of that caller's token is rewritten to the past after every reset
    Expire(&'static str),
    /// any request that must succeed
    Call(&'static str, &'static str, String, Option<Value>),
}

#[derive(Clone)]
pub(crate) struct Base {
    pub(crate) name: String,
    pub(crate) snapshot: Snapshot,
    pub(crate) tokens: BTreeMap<String, String>,
    pub(crate) expire: Vec<String>,
}

impl Base {
    /// The admin is always logged in as caller "admin".
    pub(crate) fn build(name: &str, script: &[Setup]) -> Base {
        let scratch = Scratch::new("base");
        let root = scratch.path("w");
        let data = format!("{root}/a/b/data");
        let rt = rt_current();
        let mut tokens = BTreeMap::new();
        let mut expire = vec![];
        let r: Result<(), String> = rt.block_on(async {
            let s = Server::start(&data).await?;
            let admin = login(&s, "admin", "admin").await?;
            tokens.insert("admin".to_string(), admin.clone());
            for step in script {
                match step {
                    Setup::AddUser(u) => {
                        crate::vh::world::must(&s, "POST", &format!("/admin/user/{u}/add"), &admin, Some(&json!({"password": PASSWORD}))).await?;
                    }
                    Setup::Login(user, caller) => {
                        let pw = if *user == "admin" { "admin" } else { PASSWORD };
                        tokens.insert(caller.to_string(), login(&s, user, pw).await?);
                    }
                    Setup::Logout(caller) => {
                        let t = tokens.get(*caller).ok_or("logout: unknown caller")?.clone();
                        crate::vh::world::must(&s, "POST", "/user/logout", &t, None).await?;
                    }
                    Setup::Expire(caller) => expire.push(caller.to_string()),
                    Setup::Call(caller, method, uri, body) => {
                        let t = tokens.get(*caller).ok_or("call: unknown caller")?.clone();
                        crate::vh::world::must(&s, method, uri, &t, body.as_ref()).await?;
                    }
                }
            }
            s.stop();
            Ok(())
        });
        if let Err(e) = r {
            engine::machinery_failure(&format!("base world {name}: {e}"));
        }
        drop(rt); // closes every database (Db::drop optimises the files)
        Base { name: name.to_string(), snapshot: Snapshot::take(&root), tokens, expire }
    }

    /// The Authorization header for a caller `<key>[@<form>]`. Forms = the spellings the
    /// server accepts for one and the same token (user_id.rs: case-insensitive scheme via the
    /// typed header, `utilities::unquote` strips any leading and trailing double quotes):
    /// plain `Bearer t` | quoted `Bearer "t"` (the JSON form the login response has) |
    /// lower `bearer t` | quoted2 `Bearer ""t""` | leftquote `Bearer "t`.
    pub(crate) fn auth_header(&self, caller: &str) -> Option<String> {
        let (key, form) = caller.split_once('@').unwrap_or((caller, "plain"));
        let t = self.token(key)?;
        Some(match form {
            "plain" => format!("Bearer {t}"),
            "quoted" => format!("Bearer \"{t}\""),
            "lower" => format!("bearer {t}"),
            "quoted2" => format!("Bearer \"\"{t}\"\""),
            "leftquote" => format!("Bearer \"{t}"),
            f => engine::machinery_failure(&format!("unknown token presentation form {f}")),
        })
    }

    pub(crate) fn token(&self, caller: &str) -> Option<String> {
        match caller {
            "none" => None,
            "garbage" => Some("00000000-0000-4000-8000-000000000000".to_string()),
            c => self.tokens.get(c).cloned(),
        }
    }
}

pub(crate) struct Lab {
    _scratch: Scratch,
    pub(crate) root: String,
    pub(crate) data: String,
    rt: tokio::runtime::Runtime,
    server: Option<Server>,
    /// true: every reset is a full restart of all server components (slow; used to confirm violations)
    fresh: bool,
    pool_names: Vec<(String, String)>,
    pub(crate) resets: u64,
    pub(crate) requests: u64,
    /// seconds spent in reset / call / observe (profiling, echoed into the evidence)
    pub(crate) t_reset: f64,
    pub(crate) t_call: f64,
    pub(crate) t_observe: f64,
}

impl Lab {
    pub(crate) fn new(tag: &str, fresh: bool, pool_names: &[(String, String)]) -> Lab {
        let scratch = Scratch::new(tag);
        let root = scratch.path("w");
        let data = format!("{root}/a/b/data");
        Lab { _scratch: scratch, root, data, rt: rt_current(), server: None, fresh, pool_names: pool_names.to_vec(), resets: 0, requests: 0, t_reset: 0.0, t_call: 0.0, t_observe: 0.0 }
    }

    pub(crate) fn reset(&mut self, base: &Base) {
        let t0 = std::time::Instant::now();
        self.reset_inner(base);
        self.t_reset += t0.elapsed().as_secs_f64();
    }

    fn reset_inner(&mut self, base: &Base) {
        self.resets += 1;
        if self.fresh || self.server.is_none() {
            if let Some(s) = self.server.take() {
                s.stop();
                drop(s);
                // a new runtime: nothing of the old server survives
                self.rt = rt_current();
            }
            base.snapshot.restore(&self.root);
            let data = self.data.clone();
            let s = self.rt.block_on(async { Server::start(&data).await }).unwrap_or_else(|e| engine::machinery_failure(&format!("server start on base {}: {e}", base.name)));
            self.server = Some(s);
        } else {
            let root = self.root.clone();
            let names = self.pool_names.clone();
            let mut s = self.server.take().unwrap();
            let r = self.rt.block_on(async { s.reset(&root, &base.snapshot, &names).await });
            if let Err(e) = r {
                engine::machinery_failure(&format!("world reset to base {}: {e}", base.name));
            }
            self.server = Some(s);
        }
        let s = self.server.as_ref().unwrap();
        for c in &base.expire {
            let t = base.tokens.get(c).unwrap_or_else(|| engine::machinery_failure("expire: unknown caller"));
            if let Err(e) = self.rt.block_on(s.set_token_expiry(t, 1)) {
                engine::machinery_failure(&format!("cannot rewrite the expiry of {c}: {e}"));
            }
        }
    }

    /// Executes one request; a panic escaping the router is reported as status 599.
    pub(crate) fn call(&mut self, base: &Base, req: &Req) -> Resp {
        let t0 = std::time::Instant::now();
        let r = self.call_inner(base, req);
        self.t_call += t0.elapsed().as_secs_f64();
        r
    }

    fn call_inner(&mut self, base: &Base, req: &Req) -> Resp {
        self.requests += 1;
        let auth = base.auth_header(&req.caller);
        let s = self.server.as_ref().unwrap_or_else(|| engine::machinery_failure("call before reset"));
        let rt = &self.rt;
        match engine::catch(|| rt.block_on(s.call_auth(&req.method, &req.uri, auth.as_deref(), req.body.as_ref()))) {
            Ok(r) => r,
            Err(p) => {
                // the server objects may be in any state now: restart at the next reset
                let r = Resp { status: 599, body: format!("panic: {} at {}", p.normalised(), p.file()).into_bytes() };
                if let Some(s) = self.server.take() {
                    std::mem::forget(s);
                }
                self.rt = rt_current();
                r
            }
        }
    }

    pub(crate) fn alive(&self) -> bool {
        self.server.is_some()
    }

    pub(crate) fn observe(&mut self) -> Value {
        let t0 = std::time::Instant::now();
        let r = self.observe_inner();
        self.t_observe += t0.elapsed().as_secs_f64();
        r
    }

    fn observe_inner(&mut self) -> Value {
        let Some(s) = self.server.as_ref() else { return json!({"error": "server gone after a panic"}) };
        let rt = &self.rt;
        match engine::catch(|| rt.block_on(s.observe())) {
            Ok(Ok(v)) => v,
            Ok(Err(e)) => json!({"error": e}),
            Err(p) => json!({"error": format!("panic while observing: {} at {}", p.normalised(), p.file())}),
        }
    }

    /// (owner, db, type) of every database the server db lists, sorted
    pub(crate) fn registered(&mut self) -> Vec<(String, String, String)> {
        let Some(s) = self.server.as_ref() else { return vec![] };
        let rt = &self.rt;
        let mut v: Vec<(String, String, String)> = match engine::catch(|| rt.block_on(s.server_db.dbs())) {
            Ok(Ok(d)) => d.into_iter().map(|d| (d.owner, d.db, format!("{:?}", d.db_type).to_lowercase())).collect(),
            _ => vec![],
        };
        v.sort();
        v
    }

    pub(crate) fn tree(&self) -> BTreeMap<String, String> {
        file_tree(&self.root)
    }

    pub(crate) fn profile(labs: &[std::sync::Mutex<Lab>]) -> Value {
        let (mut a, mut b, mut c, mut n, mut r) = (0.0, 0.0, 0.0, 0u64, 0u64);
        for l in labs {
            let l = l.lock().unwrap();
            a += l.t_reset;
            b += l.t_call;
            c += l.t_observe;
            n += l.resets;
            r += l.requests;
        }
        json!({"cpu_s_world_reset": (a * 10.0).round() / 10.0, "cpu_s_requests": (b * 10.0).round() / 10.0, "cpu_s_observation": (c * 10.0).round() / 10.0, "resets": n, "requests": r})
    }

    pub(crate) fn with_server<R>(&mut self, f: impl FnOnce(&tokio::runtime::Runtime, &Server) -> R) -> Option<R> {
        let s = self.server.as_ref()?;
        Some(f(&self.rt, s))
    }
}
