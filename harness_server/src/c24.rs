pub(crate) fn run(_args: &engine::Args) -> i32 {
    engine::machinery_failure("not implemented")
}
