//! C24 - the server enforces authentication and per-database permissions.
//!
//! Enumerated: every sequence of <= d requests over an alphabet
//! (caller kind x operation) from 3 base worlds, on the real router/extractors/
//! server db (in-process server, current-thread runtime).
//!   callers: admin | usr1 | usr2 (valid tokens) | loggedout (a token that was
//!            logged out) | expired (stored expiry rewritten to the past) |
//!            garbage (well-formed unknown token) | none (no header);
//!            loggedout/expired are admin's tokens on /admin/ routes and usr1's
//!            (the owner's) elsewhere
//!   operations: see `ops()` - db add/delete/remove/copy/rename/backup/clear/
//!            optimize/audit, exec (read), exec (write query), exec_mut, db
//!            user add (read|write|admin)/remove, user logout, and the admin
//!            routes user add/delete/logout/logout_all/list, db add/delete/
//!            exec_mut/user add/rename(transfer)/list
//! Oracle = the documented permission table ("Database Actions" in
//! agdb_web/content/docs/03.references/02.server.md) + token validity,
//! one-directional as the statement is:
//!   not permitted      => status 401/403/404 AND the observable world (users
//!                         with session counts, every db with owner, type, roles,
//!                         complete content, audit log, backup flag) unchanged
//!   permitted and 2xx  => the world equals the reference model after applying
//!                         the operation's effect
//!   permitted, not 2xx => nothing demanded (counted)
//! The model's role table is its own (never read back from the server).

use crate::vh::lab::{Base, Lab, Req, Setup};
use crate::vh::refdb::{RefDb, is_mutating};
use crate::vh::world::PASSWORD;
use agdb::{QueryBuilder, QueryType};
use agdb_api::Queries;
use engine::{Args, DistinctCounter, Report, Tier};
use serde_json::{Value, json};
use std::collections::{BTreeMap, BTreeSet};
use std::sync::atomic::{AtomicU64, Ordering};

const CALLERS: [&str; 7] = ["admin", "usr1", "usr2", "loggedout", "expired", "garbage", "none"];
/// spellings of one token the server accepts (see `Base::auth_header`); a caller is `<kind>[@<form>]`
const FORMS: [&str; 4] = ["quoted", "lower", "quoted2", "leftquote"];

#[derive(Clone, Debug, PartialEq)]
enum Op {
    Add(&'static str, &'static str),
    Delete(&'static str, &'static str),
    Remove(&'static str, &'static str),
    /// copy (owner, db) to <caller>/<new>
    Copy(&'static str, &'static str, &'static str),
    Rename(&'static str, &'static str, &'static str),
    Backup(&'static str, &'static str),
    ClearAll(&'static str, &'static str),
    Optimize(&'static str, &'static str),
    Audit(&'static str, &'static str),
    ExecRead(&'static str, &'static str),
    /// a mutating query through the read-only endpoint
    ExecWrite(&'static str, &'static str),
    ExecMut(&'static str, &'static str),
    UserAdd(&'static str, &'static str, &'static str, &'static str),
    UserRemove(&'static str, &'static str, &'static str),
    UserList(&'static str, &'static str),
    DbList,
    Logout,
    ChangePassword,
    AdminUserAdd(&'static str),
    AdminUserDelete(&'static str),
    AdminUserLogout(&'static str),
    AdminLogoutAll,
    AdminUserList,
    AdminDbAdd(&'static str, &'static str),
    AdminDbDelete(&'static str, &'static str),
    AdminDbExecMut(&'static str, &'static str),
    AdminDbUserAdd(&'static str, &'static str, &'static str, &'static str),
    /// transfer: (owner, db) -> (new owner, new db)
    AdminDbRename(&'static str, &'static str, &'static str, &'static str),
    AdminDbList,
}

fn read_queries() -> Vec<QueryType> {
    vec![QueryBuilder::select().node_count().query().into()]
}

fn write_queries() -> Vec<QueryType> {
    vec![QueryBuilder::insert().nodes().count(1).query().into()]
}

fn init_queries() -> Vec<QueryType> {
    vec![QueryBuilder::insert().nodes().aliases("root").values([[("k", 0).into()]]).query().into()]
}

fn qjson(q: &[QueryType]) -> Value {
    serde_json::to_value(Queries(q.to_vec())).unwrap()
}

impl Op {
    fn label(&self) -> String {
        match self {
            Op::Add(o, d) => format!("add:{o}/{d}"),
            Op::Delete(o, d) => format!("delete:{o}/{d}"),
            Op::Remove(o, d) => format!("remove:{o}/{d}"),
            Op::Copy(o, d, n) => format!("copy:{o}/{d}->{n}"),
            Op::Rename(o, d, n) => format!("rename:{o}/{d}->{n}"),
            Op::Backup(o, d) => format!("backup:{o}/{d}"),
            Op::ClearAll(o, d) => format!("clear:{o}/{d}"),
            Op::Optimize(o, d) => format!("optimize:{o}/{d}"),
            Op::Audit(o, d) => format!("audit:{o}/{d}"),
            Op::ExecRead(o, d) => format!("exec-read:{o}/{d}"),
            Op::ExecWrite(o, d) => format!("exec-write:{o}/{d}"),
            Op::ExecMut(o, d) => format!("exec_mut:{o}/{d}"),
            Op::UserAdd(o, d, u, r) => format!("db-user-add-{r}:{o}/{d}:{u}"),
            Op::UserRemove(o, d, u) => format!("db-user-remove:{o}/{d}:{u}"),
            Op::UserList(o, d) => format!("db-user-list:{o}/{d}"),
            Op::DbList => "db-list".to_string(),
            Op::Logout => "logout".to_string(),
            Op::ChangePassword => "change-password".to_string(),
            Op::AdminUserAdd(u) => format!("admin-user-add:{u}"),
            Op::AdminUserDelete(u) => format!("admin-user-delete:{u}"),
            Op::AdminUserLogout(u) => format!("admin-user-logout:{u}"),
            Op::AdminLogoutAll => "admin-logout-all".to_string(),
            Op::AdminUserList => "admin-user-list".to_string(),
            Op::AdminDbAdd(o, d) => format!("admin-db-add:{o}/{d}"),
            Op::AdminDbDelete(o, d) => format!("admin-db-delete:{o}/{d}"),
            Op::AdminDbExecMut(o, d) => format!("admin-db-exec_mut:{o}/{d}"),
            Op::AdminDbUserAdd(o, d, u, r) => format!("admin-db-user-add-{r}:{o}/{d}:{u}"),
            Op::AdminDbRename(o, d, no, nd) => format!("admin-db-rename:{o}/{d}->{no}/{nd}"),
            Op::AdminDbList => "admin-db-list".to_string(),
        }
    }

    /// operation kind without its target (signatures)
    fn kind(&self) -> String {
        self.label().split(':').next().unwrap_or("?").to_string()
    }

    fn is_admin_route(&self) -> bool {
        matches!(
            self,
            Op::AdminUserAdd(_) | Op::AdminUserDelete(_) | Op::AdminUserLogout(_) | Op::AdminLogoutAll | Op::AdminUserList | Op::AdminDbAdd(..) | Op::AdminDbDelete(..) | Op::AdminDbExecMut(..) | Op::AdminDbUserAdd(..) | Op::AdminDbRename(..) | Op::AdminDbList
        )
    }

    fn request(&self, caller: &str) -> Req {
        // loggedout / expired: admin's token on admin routes, the owner's elsewhere
        let (kind, form) = caller.split_once('@').unwrap_or((caller, "plain"));
        let caller = kind;
        let key = match (caller, self.is_admin_route()) {
            ("loggedout", true) => "admin_loggedout",
            ("loggedout", false) => "usr1_loggedout",
            ("expired", true) => "admin_expired",
            ("expired", false) => "usr1_expired",
            (c, _) => c,
        };
        let (m, uri, body): (&str, String, Option<Value>) = match self {
            Op::Add(o, d) => ("POST", format!("/db/{o}/{d}/add?db_type=mapped"), None),
            Op::Delete(o, d) => ("DELETE", format!("/db/{o}/{d}/delete"), None),
            Op::Remove(o, d) => ("DELETE", format!("/db/{o}/{d}/remove"), None),
            Op::Copy(o, d, n) => ("POST", format!("/db/{o}/{d}/copy?new_db={n}"), None),
            Op::Rename(o, d, n) => ("POST", format!("/db/{o}/{d}/rename?new_db={n}"), None),
            Op::Backup(o, d) => ("POST", format!("/db/{o}/{d}/backup"), None),
            Op::ClearAll(o, d) => ("POST", format!("/db/{o}/{d}/clear?resource=all"), None),
            Op::Optimize(o, d) => ("POST", format!("/db/{o}/{d}/optimize"), None),
            Op::Audit(o, d) => ("GET", format!("/db/{o}/{d}/audit"), None),
            Op::ExecRead(o, d) => ("POST", format!("/db/{o}/{d}/exec"), Some(qjson(&read_queries()))),
            Op::ExecWrite(o, d) => ("POST", format!("/db/{o}/{d}/exec"), Some(qjson(&write_queries()))),
            Op::ExecMut(o, d) => ("POST", format!("/db/{o}/{d}/exec_mut"), Some(qjson(&write_queries()))),
            Op::UserAdd(o, d, u, r) => ("PUT", format!("/db/{o}/{d}/user/{u}/add?db_role={r}"), None),
            Op::UserRemove(o, d, u) => ("DELETE", format!("/db/{o}/{d}/user/{u}/remove"), None),
            Op::UserList(o, d) => ("GET", format!("/db/{o}/{d}/user/list"), None),
            Op::DbList => ("GET", "/db/list".to_string(), None),
            Op::Logout => ("POST", "/user/logout".to_string(), None),
            Op::ChangePassword => ("PUT", "/user/change_password".to_string(), Some(json!({"password": if caller == "admin" { "admin" } else { PASSWORD }, "new_password": "password456"}))),
            Op::AdminUserAdd(u) => ("POST", format!("/admin/user/{u}/add"), Some(json!({"password": PASSWORD}))),
            Op::AdminUserDelete(u) => ("DELETE", format!("/admin/user/{u}/delete"), None),
            Op::AdminUserLogout(u) => ("POST", format!("/admin/user/{u}/logout"), None),
            Op::AdminLogoutAll => ("POST", "/admin/user/logout_all".to_string(), None),
            Op::AdminUserList => ("GET", "/admin/user/list".to_string(), None),
            Op::AdminDbAdd(o, d) => ("POST", format!("/admin/db/{o}/{d}/add?db_type=mapped"), None),
            Op::AdminDbDelete(o, d) => ("DELETE", format!("/admin/db/{o}/{d}/delete"), None),
            Op::AdminDbExecMut(o, d) => ("POST", format!("/admin/db/{o}/{d}/exec_mut"), Some(qjson(&write_queries()))),
            Op::AdminDbUserAdd(o, d, u, r) => ("PUT", format!("/admin/db/{o}/{d}/user/{u}/add?db_role={r}"), None),
            Op::AdminDbRename(o, d, no, nd) => ("POST", format!("/admin/db/{o}/{d}/rename?new_owner={no}&new_db={nd}"), None),
            Op::AdminDbList => ("GET", "/admin/db/list".to_string(), None),
        };
        let key = if form == "plain" { key.to_string() } else { format!("{key}@{form}") };
        Req::new(&key, m, &uri, body, &self.label())
    }
}

/// the full operation list (simplest first)
fn ops() -> Vec<Op> {
    let (o, d) = ("usr1", "db1");
    vec![
        Op::ExecRead(o, d),
        Op::Audit(o, d),
        Op::UserList(o, d),
        Op::DbList,
        Op::ExecWrite(o, d),
        Op::ExecMut(o, d),
        Op::Optimize(o, d),
        Op::Backup(o, d),
        Op::ClearAll(o, d),
        Op::UserAdd(o, d, "usr2", "read"),
        Op::UserAdd(o, d, "usr2", "write"),
        Op::UserAdd(o, d, "usr2", "admin"),
        Op::UserRemove(o, d, "usr2"),
        Op::Copy(o, d, "db9"),
        Op::Rename(o, d, "db9"),
        Op::Remove(o, d),
        Op::Delete(o, d),
        Op::Add("usr1", "db1"),
        Op::Add("usr2", "db9"),
        Op::ExecMut("usr2", "db9"),
        Op::Delete("usr2", "db9"),
        Op::ExecMut("usr1", "db9"),
        Op::ExecMut("usr2", "db2"),
        Op::UserAdd("usr2", "db2", "usr1", "admin"),
        Op::Delete("usr2", "db2"),
        Op::Logout,
        Op::ChangePassword,
        Op::AdminUserList,
        Op::AdminDbList,
        Op::AdminUserAdd("usr3"),
        Op::AdminUserLogout("usr1"),
        Op::AdminLogoutAll,
        Op::AdminUserDelete("usr2"),
        Op::AdminDbAdd("usr1", "db9"),
        Op::AdminDbExecMut(o, d),
        Op::AdminDbUserAdd(o, d, "usr2", "write"),
        Op::AdminDbRename(o, d, "usr2", "db1"),
        Op::AdminDbDelete(o, d),
    ]
}

/// operations tried with the four invalid caller kinds in the standard alphabet
fn invalid_caller_ops() -> Vec<String> {
    ["exec-read:usr1/db1", "exec_mut:usr1/db1", "delete:usr1/db1", "db-user-add-admin:usr1/db1:usr2", "logout", "admin-user-list", "admin-user-add:usr3", "admin-db-delete:usr1/db1"].iter().map(|s| s.to_string()).collect()
}

/// the reduced alphabet used at depth 3: (caller, op label)
fn reduced_alphabet() -> Vec<(&'static str, &'static str)> {
    vec![
        ("usr1", "exec_mut:usr1/db1"),
        ("usr1", "db-user-add-read:usr1/db1:usr2"),
        ("usr1", "db-user-add-write:usr1/db1:usr2"),
        ("usr1", "db-user-add-admin:usr1/db1:usr2"),
        ("usr1", "db-user-remove:usr1/db1:usr2"),
        ("usr1", "rename:usr1/db1->db9"),
        ("usr1", "remove:usr1/db1"),
        ("usr1", "delete:usr1/db1"),
        ("usr1", "add:usr1/db1"),
        ("usr1", "logout"),
        ("usr1", "exec_mut:usr2/db2"),
        ("usr1", "exec_mut:usr2/db9"),
        ("usr1", "delete:usr2/db2"),
        ("usr1", "exec_mut:usr1/db9"),
        ("usr2", "exec-read:usr1/db1"),
        ("usr2", "exec-write:usr1/db1"),
        ("usr2", "exec_mut:usr1/db1"),
        ("usr2", "optimize:usr1/db1"),
        ("usr2", "backup:usr1/db1"),
        ("usr2", "clear:usr1/db1"),
        ("usr2", "db-user-add-admin:usr1/db1:usr2"),
        ("usr2", "db-user-remove:usr1/db1:usr2"),
        ("usr2", "copy:usr1/db1->db9"),
        ("usr2", "rename:usr1/db1->db9"),
        ("usr2", "delete:usr1/db1"),
        ("usr2", "remove:usr1/db1"),
        ("usr2", "add:usr2/db9"),
        ("usr2", "exec_mut:usr2/db9"),
        ("usr2", "delete:usr2/db9"),
        ("usr2", "db-user-add-admin:usr2/db2:usr1"),
        ("usr2", "logout"),
        ("usr2", "admin-db-delete:usr1/db1"),
        ("usr2", "admin-user-add:usr3"),
        ("admin", "exec_mut:usr1/db1"),
        ("admin", "admin-db-exec_mut:usr1/db1"),
        ("admin", "admin-db-user-add-write:usr1/db1:usr2"),
        ("admin", "admin-db-rename:usr1/db1->usr2/db1"),
        ("admin", "admin-db-delete:usr1/db1"),
        ("admin", "admin-user-logout:usr1"),
        ("admin", "admin-logout-all"),
        ("admin", "admin-user-delete:usr2"),
        ("admin", "logout"),
        ("loggedout", "exec_mut:usr1/db1"),
        ("loggedout", "admin-db-delete:usr1/db1"),
        ("expired", "exec_mut:usr1/db1"),
        ("expired", "admin-db-delete:usr1/db1"),
        ("garbage", "exec_mut:usr1/db1"),
        ("none", "delete:usr1/db1"),
        // token presentation forms
        ("usr1@quoted", "logout"),
        ("usr2@quoted", "logout"),
        ("usr2@lower", "exec_mut:usr1/db1"),
        ("loggedout@quoted", "exec_mut:usr1/db1"),
        // added for the thorough tier's depth 3
        ("usr1", "exec-read:usr1/db1"),
        ("usr1", "backup:usr1/db1"),
        ("usr1", "clear:usr1/db1"),
        ("usr1", "copy:usr1/db1->db9"),
        ("usr2", "db-user-add-write:usr1/db1:usr2"),
        ("usr2", "exec_mut:usr2/db2"),
        ("usr2", "delete:usr2/db2"),
        ("admin", "delete:usr1/db1"),
    ]
}

// ---------------------------------------------------------------------------
// reference model

struct MDb {
    kind: String,
    roles: BTreeMap<String, String>,
    content: RefDb,
    audit: Vec<Value>,
    has_backup: bool,
}

impl MDb {
    fn copy(&self) -> MDb {
        MDb { kind: self.kind.clone(), roles: self.roles.clone(), content: self.content.copy(), audit: self.audit.clone(), has_backup: self.has_backup }
    }
}

struct Model {
    /// user -> live sessions
    users: BTreeMap<String, usize>,
    /// caller key -> (user, token valid)
    tokens: BTreeMap<String, (String, bool)>,
    dbs: BTreeMap<(String, String), MDb>,
    /// files left on disk by `remove`
    orphans: BTreeMap<(String, String), MDb>,
}

fn rank(role: Option<&String>) -> u8 {
    match role.map(|s| s.as_str()) {
        Some("admin") => 3,
        Some("write") => 2,
        Some("read") => 1,
        _ => 0,
    }
}

impl Model {
    /// The model of a base world: users, sessions, roles, audit are read once from the freshly
    /// restored world; the content reference is rebuilt from the base's known set-up queries
    /// and must reproduce the observed dump.
    fn of_base(obs: &Value) -> Model {
        let mut users = BTreeMap::new();
        for u in obs["users"].as_array().cloned().unwrap_or_default() {
            users.insert(u["name"].as_str().unwrap_or("").to_string(), u["sessions"].as_u64().unwrap_or(0) as usize);
        }
        let mut tokens = BTreeMap::new();
        for (k, u, v) in [
            ("admin", "admin", true),
            ("usr1", "usr1", true),
            ("usr2", "usr2", true),
            ("admin_loggedout", "admin", false),
            ("usr1_loggedout", "usr1", false),
            ("admin_expired", "admin", false),
            ("usr1_expired", "usr1", false),
        ] {
            tokens.insert(k.to_string(), (u.to_string(), v));
        }
        let mut dbs = BTreeMap::new();
        for d in obs["dbs"].as_array().cloned().unwrap_or_default() {
            let mut content = RefDb::new();
            content.apply(&init_queries()).unwrap_or_else(|e| engine::machinery_failure(&format!("reference set-up: {e}")));
            if content.dump() != d["dump"] {
                engine::machinery_failure(&format!("reference content does not reproduce base database {}/{}: {} vs {}", d["owner"], d["db"], content.dump(), d["dump"]));
            }
            let mut roles = BTreeMap::new();
            for r in d["roles"].as_array().cloned().unwrap_or_default() {
                roles.insert(r[0].as_str().unwrap_or("").to_string(), r[1].as_str().unwrap_or("").to_string());
            }
            dbs.insert(
                (d["owner"].as_str().unwrap_or("").to_string(), d["db"].as_str().unwrap_or("").to_string()),
                MDb { kind: d["type"].as_str().unwrap_or("").to_string(), roles, content, audit: d["audit"].as_array().cloned().unwrap_or_default(), has_backup: d["has_backup"].as_bool().unwrap_or(false) },
            );
        }
        Model { users, tokens, dbs, orphans: BTreeMap::new() }
    }

    fn observe(&self) -> Value {
        let users: Vec<Value> = self.users.iter().map(|(n, s)| json!({"name": n, "admin": n == "admin", "sessions": s})).collect();
        let dbs: Vec<Value> = self
            .dbs
            .iter()
            .map(|((o, d), m)| {
                let roles: Vec<(String, String)> = m.roles.iter().map(|(a, b)| (a.clone(), b.clone())).collect();
                json!({"owner": o, "db": d, "type": m.kind, "has_backup": m.has_backup, "roles": roles, "dump": m.content.dump(), "audit": m.audit})
            })
            .collect();
        json!({"users": users, "dbs": dbs})
    }

    /// the user a caller key authenticates as, if its token is valid
    fn who(&self, key: &str) -> Option<String> {
        let (u, valid) = self.tokens.get(key)?;
        if *valid && self.users.contains_key(u) { Some(u.clone()) } else { None }
    }

    fn role(&self, user: &str, o: &str, d: &str) -> u8 {
        self.dbs.get(&(o.to_string(), d.to_string())).map(|m| rank(m.roles.get(user))).unwrap_or(0)
    }

    fn role_name(&self, user: Option<&String>, op: &Op) -> &'static str {
        let Some(user) = user else { return "unauthenticated" };
        let target = match op {
            Op::Add(o, d) | Op::Delete(o, d) | Op::Remove(o, d) | Op::Copy(o, d, _) | Op::Rename(o, d, _) | Op::Backup(o, d) | Op::ClearAll(o, d) | Op::Optimize(o, d) | Op::Audit(o, d) | Op::ExecRead(o, d) | Op::ExecWrite(o, d) | Op::ExecMut(o, d) | Op::UserAdd(o, d, ..) | Op::UserRemove(o, d, _) | Op::UserList(o, d) => Some((*o, *d)),
            _ => None,
        };
        match target {
            None => {
                if user == "admin" {
                    "server-admin"
                } else {
                    "user"
                }
            }
            Some((o, d)) => {
                if user == o {
                    if self.dbs.contains_key(&(o.to_string(), d.to_string())) { "owner" } else { "owner-no-db" }
                } else {
                    match self.role(user, o, d) {
                        3 => "db-admin",
                        2 => "db-write",
                        1 => "db-read",
                        _ => "no-role",
                    }
                }
            }
        }
    }

    /// The documented permission table.
    fn permitted(&self, key: &str, op: &Op) -> bool {
        let Some(user) = self.who(key) else { return false };
        let u = user.as_str();
        match op {
            // owner
            Op::Add(o, _) => u == *o,
            // (for a database that does not exist the owner's request can only fail; nothing is demanded then)
            Op::Delete(o, _) | Op::Remove(o, _) | Op::Rename(o, _, _) => u == *o,
            // db admin
            Op::Backup(o, d) | Op::ClearAll(o, d) | Op::UserAdd(o, d, ..) => self.role(u, o, d) >= 3,
            // db admin; a user may also give up their own role (repository test db_user_remove_test::remove_self)
            Op::UserRemove(o, d, target) => self.role(u, o, d) >= 3 || (u == *target && self.role(u, o, d) >= 1),
            // write
            Op::ExecMut(o, d) | Op::Optimize(o, d) => self.role(u, o, d) >= 2,
            // read
            Op::ExecRead(o, d) | Op::Audit(o, d) | Op::Copy(o, d, _) | Op::UserList(o, d) => self.role(u, o, d) >= 1,
            // mutating queries are never allowed through exec
            Op::ExecWrite(..) => false,
            // any authenticated user
            Op::DbList | Op::Logout | Op::ChangePassword => true,
            // server admin
            _ => u == "admin",
        }
    }

    /// Effect of a permitted operation that the server answered with 2xx.
    fn apply(&mut self, key: &str, op: &Op) -> Result<(), String> {
        let user = self.who(key).ok_or("apply without a user")?;
        let k = |o: &str, d: &str| (o.to_string(), d.to_string());
        match op {
            Op::Add(o, d) | Op::AdminDbAdd(o, d) => {
                if self.dbs.contains_key(&k(o, d)) {
                    return Err("the database exists already".to_string());
                }
                let mut m = match self.orphans.remove(&k(o, d)) {
                    Some(m) => m, // the files of a removed database are adopted
                    None => MDb { kind: "mapped".to_string(), roles: BTreeMap::new(), content: RefDb::new(), audit: vec![], has_backup: false },
                };
                m.roles = BTreeMap::from([(o.to_string(), "admin".to_string())]);
                self.dbs.insert(k(o, d), m);
            }
            Op::Delete(o, d) | Op::AdminDbDelete(o, d) => {
                self.dbs.remove(&k(o, d)).ok_or("no such database")?;
            }
            Op::Remove(o, d) => {
                let m = self.dbs.remove(&k(o, d)).ok_or("no such database")?;
                self.orphans.insert(k(o, d), m);
            }
            Op::Copy(o, d, n) => {
                let src = self.dbs.get(&k(o, d)).ok_or("no such database")?;
                if self.dbs.contains_key(&k(&user, n)) || self.orphans.contains_key(&k(&user, n)) {
                    return Err("the target exists already".to_string());
                }
                let mut m = src.copy();
                m.roles = BTreeMap::from([(user.clone(), "admin".to_string())]);
                m.has_backup = false;
                self.dbs.insert(k(&user, n), m);
            }
            Op::Rename(o, d, n) => {
                if self.dbs.contains_key(&k(o, n)) || self.orphans.contains_key(&k(o, n)) {
                    return Err("the target exists already".to_string());
                }
                let m = self.dbs.remove(&k(o, d)).ok_or("no such database")?;
                self.dbs.insert(k(o, n), m);
            }
            Op::AdminDbRename(o, d, no, nd) => {
                if (o, d) != (no, nd) {
                    if self.dbs.contains_key(&k(no, nd)) || self.orphans.contains_key(&k(no, nd)) {
                        return Err("the target exists already".to_string());
                    }
                    let mut m = self.dbs.remove(&k(o, d)).ok_or("no such database")?;
                    if o != no {
                        m.roles.insert(no.to_string(), "admin".to_string());
                    }
                    self.dbs.insert(k(no, nd), m);
                }
            }
            Op::Backup(o, d) => {
                self.dbs.get_mut(&k(o, d)).ok_or("no such database")?.has_backup = true;
            }
            Op::ClearAll(o, d) => {
                let m = self.dbs.get_mut(&k(o, d)).ok_or("no such database")?;
                m.content = RefDb::new();
                m.audit.clear();
                m.has_backup = false;
            }
            Op::ExecMut(o, d) | Op::AdminDbExecMut(o, d) => {
                let m = self.dbs.get_mut(&k(o, d)).ok_or("no such database")?;
                let q = write_queries();
                m.content.apply(&q)?;
                for x in q.iter().filter(|x| is_mutating(x)) {
                    m.audit.push(json!({"user": user, "query": serde_json::to_value(x).unwrap()}));
                }
            }
            Op::UserAdd(o, d, u, r) | Op::AdminDbUserAdd(o, d, u, r) => {
                if !self.users.contains_key(*u) {
                    return Err("no such user".to_string());
                }
                self.dbs.get_mut(&k(o, d)).ok_or("no such database")?.roles.insert(u.to_string(), r.to_string());
            }
            Op::UserRemove(o, d, u) => {
                self.dbs.get_mut(&k(o, d)).ok_or("no such database")?.roles.remove(*u);
            }
            Op::Logout => {
                let (u, valid) = self.tokens.get_mut(key).ok_or("unknown token")?;
                *valid = false;
                let u = u.clone();
                if let Some(s) = self.users.get_mut(&u) {
                    *s = s.saturating_sub(1);
                }
            }
            Op::AdminUserAdd(u) => {
                if self.users.contains_key(*u) {
                    return Err("the user exists already".to_string());
                }
                self.users.insert(u.to_string(), 0);
            }
            Op::AdminUserDelete(u) => {
                self.users.remove(*u).ok_or("no such user")?;
                for (_, (tu, valid)) in self.tokens.iter_mut() {
                    if tu == u {
                        *valid = false;
                    }
                }
                self.dbs.retain(|(o, _), _| o != u);
                self.orphans.retain(|(o, _), _| o != u);
                for m in self.dbs.values_mut() {
                    m.roles.remove(*u);
                }
            }
            Op::AdminUserLogout(u) => {
                if !self.users.contains_key(*u) {
                    return Err("no such user".to_string());
                }
                for (_, (tu, valid)) in self.tokens.iter_mut() {
                    if tu == u {
                        *valid = false;
                    }
                }
                self.users.insert(u.to_string(), 0);
            }
            Op::AdminLogoutAll => {
                for (_, (tu, valid)) in self.tokens.iter_mut() {
                    if tu != "admin" {
                        *valid = false;
                    }
                }
                for (u, s) in self.users.iter_mut() {
                    if u != "admin" {
                        *s = 0;
                    }
                }
            }
            // the password is not part of the observable world
            Op::ChangePassword => {}
            Op::Optimize(..) | Op::Audit(..) | Op::ExecRead(..) | Op::UserList(..) | Op::DbList | Op::AdminUserList | Op::AdminDbList => {}
            Op::ExecWrite(..) => return Err("never permitted".to_string()),
        }
        Ok(())
    }
}

// ---------------------------------------------------------------------------

fn bases() -> Vec<Base> {
    let common = |extra: Vec<Setup>| -> Vec<Setup> {
        let mut v = vec![
            Setup::AddUser("usr1"),
            Setup::AddUser("usr2"),
            Setup::Login("usr1", "usr1"),
            Setup::Login("usr2", "usr2"),
            Setup::Login("usr1", "usr1_loggedout"),
            Setup::Logout("usr1_loggedout"),
            Setup::Login("admin", "admin_loggedout"),
            Setup::Logout("admin_loggedout"),
            Setup::Login("usr1", "usr1_expired"),
            Setup::Expire("usr1_expired"),
            Setup::Login("admin", "admin_expired"),
            Setup::Expire("admin_expired"),
        ];
        v.extend(extra);
        v
    };
    let init = qjson(&init_queries());
    let db = |caller: &'static str, o: &str, d: &str| -> Vec<Setup> {
        vec![Setup::Call(caller, "POST", format!("/db/{o}/{d}/add?db_type=mapped"), None), Setup::Call(caller, "POST", format!("/db/{o}/{d}/exec_mut"), Some(init.clone()))]
    };
    let mut b1 = db("usr1", "usr1", "db1");
    b1.push(Setup::Call("usr1", "PUT", "/db/usr1/db1/user/usr2/add?db_role=read".to_string(), None));
    let mut b2 = db("usr1", "usr1", "db1");
    b2.push(Setup::Call("usr1", "PUT", "/db/usr1/db1/user/usr2/add?db_role=admin".to_string(), None));
    b2.extend(db("usr2", "usr2", "db2"));
    b2.push(Setup::Call("usr2", "PUT", "/db/usr2/db2/user/usr1/add?db_role=write".to_string(), None));
    vec![
        Base::build("c24-users-only", &common(vec![])),
        Base::build("c24-db1-usr2-reads", &common(b1)),
        Base::build("c24-db1-usr2-admin-db2-usr1-writes", &common(b2)),
    ]
}

fn pool_names() -> Vec<(String, String)> {
    let mut v = vec![];
    for o in ["admin", "usr1", "usr2", "usr3"] {
        for d in ["db1", "db2", "db9"] {
            v.push((o.to_string(), d.to_string()));
        }
    }
    v
}

#[derive(Clone, Debug)]
struct Step {
    caller: &'static str,
    op: Op,
}

struct Found {
    signature: String,
    what: String,
}

#[derive(Default)]
struct Stats {
    sequences: AtomicU64,
    requests: AtomicU64,
    denied_checked: AtomicU64,
    permitted_applied: AtomicU64,
    permitted_failed: AtomicU64,
    model_lost: AtomicU64,
}

fn diff_summary(model: &Value, real: &Value) -> String {
    let mut parts = vec![];
    if model["users"] != real["users"] {
        parts.push(format!("users: expected {} got {}", model["users"], real["users"]));
    }
    let key = |d: &Value| format!("{}/{}", d["owner"].as_str().unwrap_or("?"), d["db"].as_str().unwrap_or("?"));
    let m: BTreeMap<String, Value> = model["dbs"].as_array().cloned().unwrap_or_default().into_iter().map(|d| (key(&d), d)).collect();
    let r: BTreeMap<String, Value> = real["dbs"].as_array().cloned().unwrap_or_default().into_iter().map(|d| (key(&d), d)).collect();
    for (k, d) in &m {
        match r.get(k) {
            None => parts.push(format!("database {k} expected but missing")),
            Some(x) => {
                for f in ["type", "has_backup", "roles", "dump", "audit"] {
                    if d[f] != x[f] {
                        parts.push(format!("{k}.{f}: expected {} got {}", d[f], x[f]));
                    }
                }
            }
        }
    }
    for k in r.keys() {
        if !m.contains_key(k) {
            parts.push(format!("database {k} exists but is not expected"));
        }
    }
    if real.get("error").is_some() {
        parts.push(format!("world cannot be observed: {}", real["error"]));
    }
    let mut s = parts.join("; ");
    if s.len() > 900 {
        s.truncate(900);
    }
    s
}

fn run_sequence(lab: &mut Lab, base: &Base, seq: &[Step], stats: Option<&Stats>, states: Option<&DistinctCounter>, outcomes: Option<&DistinctCounter>) -> (Vec<Found>, Vec<String>) {
    lab.reset(base);
    if let Some(s) = stats {
        s.sequences.fetch_add(1, Ordering::Relaxed);
    }
    let mut found = vec![];
    let mut transcript = vec![];
    let mut world = lab.observe();
    let mut model = Model::of_base(&world);
    if model.observe() != world {
        engine::machinery_failure(&format!("the model does not reproduce base world {}: {}", base.name, diff_summary(&model.observe(), &world)));
    }
    for step in seq {
        let req = step.op.request(step.caller);
        // the model knows tokens, not their spellings
        let token_key = req.caller.split('@').next().unwrap_or("").to_string();
        let who = model.who(&token_key);
        let permitted = model.permitted(&token_key, &step.op);
        let role = model.role_name(who.as_ref(), &step.op);
        let resp = lab.call(base, &req);
        let after = lab.observe();
        if let Some(s) = stats {
            s.requests.fetch_add(1, Ordering::Relaxed);
        }
        if let Some(s) = states {
            s.insert(after.to_string().as_bytes());
        }
        if let Some(o) = outcomes {
            o.insert(format!("{}|{}|{}|{}|{}", step.op.kind(), step.caller, role, permitted, resp.status).as_bytes());
        }
        let sig = |clause: &str| format!("c24|op={}|caller={}|as={role}|clause={clause}|status={}", step.op.kind(), step.caller, resp.status);
        let ctx = format!("{} (caller {} acting as {role}) answered {} {}", req.short(), step.caller, resp.status, engine::normalise(&resp.text()));
        transcript.push(format!("{}:{} as={role} permitted={permitted} -> {} world={:016x}", step.caller, step.op.label(), resp.status, engine::fnv(after.to_string().as_bytes())));
        if !permitted {
            if let Some(s) = stats {
                s.denied_checked.fetch_add(1, Ordering::Relaxed);
            }
            if resp.ok() {
                found.push(Found { signature: sig("not-rejected"), what: format!("{ctx}; the documented permission table does not allow this request, yet it was accepted") });
            } else if ![401, 403, 404].contains(&resp.status) {
                found.push(Found { signature: sig("reject-status"), what: format!("{ctx}; a request without permission must be rejected with 401/403/404") });
            }
            if after != world {
                found.push(Found { signature: sig("effect-without-permission"), what: format!("{ctx}; the request is not permitted but the observable world changed: {}", diff_summary(&world, &after)) });
                // the model follows the server so that later steps are judged on their own
                break;
            }
        } else if resp.ok() {
            if let Some(s) = stats {
                s.permitted_applied.fetch_add(1, Ordering::Relaxed);
            }
            match model.apply(&token_key, &step.op) {
                Ok(()) => {
                    let want = model.observe();
                    if want != after {
                        found.push(Found { signature: sig("effect"), what: format!("{ctx}; the world after the accepted request differs from the model: {}", diff_summary(&want, &after)) });
                        break;
                    }
                }
                Err(e) => {
                    found.push(Found { signature: sig("accepted-impossible"), what: format!("{ctx}; the request was accepted although the model says it cannot succeed: {e}") });
                    break;
                }
            }
        } else {
            if let Some(s) = stats {
                s.permitted_failed.fetch_add(1, Ordering::Relaxed);
            }
            // nothing is demanded of a permitted request that failed; if it changed the world the model is lost
            if after != model.observe() {
                if let Some(s) = stats {
                    s.model_lost.fetch_add(1, Ordering::Relaxed);
                }
                transcript.push("model lost after a failed permitted request that changed the world".to_string());
                break;
            }
        }
        world = after;
        if !lab.alive() {
            break;
        }
    }
    (found, transcript)
}

fn seq_json(base: &Base, seq: &[Step]) -> Value {
    json!({
        "base": base.name,
        "steps": seq.iter().map(|s| json!({"caller": s.caller, "op": s.op.label()})).collect::<Vec<_>>(),
        "requests": seq.iter().map(|s| s.op.request(s.caller).to_json()).collect::<Vec<_>>(),
    })
}

fn caller_static(c: &str) -> &'static str {
    static ALL: std::sync::OnceLock<Vec<&'static str>> = std::sync::OnceLock::new();
    let all = ALL.get_or_init(|| {
        let mut v: Vec<&'static str> = CALLERS.to_vec();
        for k in CALLERS {
            for f in FORMS {
                v.push(Box::leak(format!("{k}@{f}").into_boxed_str()));
            }
        }
        v
    });
    all.iter().find(|x| **x == c).copied().unwrap_or_else(|| engine::machinery_failure(&format!("unknown caller {c}")))
}

/// Token presentation forms x token states x the operations where the spelling matters
/// (logout, change password, one representative per permission class).
fn presentation_entries(tier: Tier, all: &[Op]) -> Vec<Step> {
    let mut v: Vec<(String, &str)> = vec![];
    match tier {
        Tier::Quick => {
            for (c, ops) in [
                ("usr1@quoted", vec!["logout", "exec_mut:usr1/db1", "delete:usr1/db1", "change-password"]),
                ("usr2@quoted", vec!["logout", "exec-read:usr1/db1", "backup:usr1/db1"]),
                ("admin@quoted", vec!["logout", "admin-db-delete:usr1/db1"]),
                ("loggedout@quoted", vec!["exec_mut:usr1/db1", "admin-db-delete:usr1/db1", "change-password"]),
                ("expired@quoted", vec!["exec_mut:usr1/db1", "admin-db-delete:usr1/db1", "logout"]),
                ("usr1@lower", vec!["logout", "exec_mut:usr1/db1"]),
                ("admin@lower", vec!["admin-db-delete:usr1/db1"]),
                ("loggedout@lower", vec!["exec_mut:usr1/db1"]),
                ("expired@lower", vec!["exec_mut:usr1/db1"]),
                ("usr2@quoted2", vec!["logout"]),
                ("usr2@leftquote", vec!["logout"]),
            ] {
                for o in ops {
                    v.push((c.to_string(), o));
                }
            }
        }
        Tier::Thorough => {
            for f in FORMS {
                for k in ["usr1", "usr2", "admin", "loggedout", "expired"] {
                    for o in ["logout", "change-password", "exec-read:usr1/db1", "exec_mut:usr1/db1", "backup:usr1/db1", "delete:usr1/db1", "admin-db-delete:usr1/db1"] {
                        v.push((format!("{k}@{f}"), o));
                    }
                }
            }
        }
    }
    v.iter().map(|(c, o)| step_of(c, o, all)).collect()
}

fn step_of(caller: &str, label: &str, all: &[Op]) -> Step {
    let op = all.iter().find(|o| o.label() == label).cloned().unwrap_or_else(|| engine::machinery_failure(&format!("unknown operation {label}")));
    Step { caller: caller_static(caller), op }
}

pub(crate) fn run(args: &Args) -> i32 {
    let report = Report::new(args, "model_checking");
    let all_ops = ops();
    let bases = bases();
    let pool = pool_names();

    if let Some(path) = &args.replay {
        let doc = crate::vh::world::replay_doc(path);
        let base = bases.iter().find(|b| doc["base"] == b.name.as_str()).unwrap_or_else(|| engine::machinery_failure("replay: unknown base world"));
        let seq: Vec<Step> = doc["steps"].as_array().cloned().unwrap_or_default().iter().map(|s| step_of(s["caller"].as_str().unwrap_or(""), s["op"].as_str().unwrap_or(""), &all_ops)).collect();
        let mut lab = Lab::new("c24r", true, &pool);
        let (found, transcript) = run_sequence(&mut lab, base, &seq, None, None, None);
        for t in &transcript {
            println!("replay: {t}");
        }
        for f in found {
            report.violation(&f.signature, &f.what, seq_json(base, &seq));
        }
        report.set("states", json!(1));
        report.set("transitions", json!(transcript.len().max(1)));
        report.set("traces_validated_against_impl", json!(1));
        report.sample(json!({"replayed": transcript}));
        return report.finish();
    }

    // alphabets
    let invalid_ops = invalid_caller_ops();
    let mut standard: Vec<Step> = vec![];
    let mut full: Vec<Step> = vec![];
    for op in &all_ops {
        for c in CALLERS {
            let valid = ["admin", "usr1", "usr2"].contains(&c);
            full.push(Step { caller: c, op: op.clone() });
            if valid || invalid_ops.contains(&op.label()) {
                standard.push(Step { caller: c, op: op.clone() });
            }
        }
    }
    // quick: the standard alphabet without read-only listings and a few redundant targets
    // (they stay in the thorough full product)
    let quick_skip = ["change-password", "db-user-list", "db-list", "audit", "optimize", "admin-db-list", "admin-user-list", "admin-db-add"];
    let quick_skip_labels = ["exec_mut:usr1/db9", "delete:usr2/db2", "db-user-add-admin:usr2/db2:usr1", "add:usr1/db1"];
    let quick_invalid = ["exec_mut:usr1/db1", "delete:usr1/db1", "logout", "admin-db-delete:usr1/db1"];
    let core: Vec<Step> = standard
        .iter()
        .filter(|s| !quick_skip.contains(&s.op.kind().as_str()) && !quick_skip_labels.contains(&s.op.label().as_str()))
        .filter(|s| ["admin", "usr1", "usr2"].contains(&s.caller) || quick_invalid.contains(&s.op.label().as_str()))
        .cloned()
        .collect();
    let mut core = core;
    // fewer plain invalid-token entries in quick (the presentation entries take their place)
    core.retain(|s| !(["garbage", "none"].contains(&s.caller) && ["logout", "admin-db-delete:usr1/db1"].contains(&s.op.label().as_str())));
    // the admin acting as an ordinary user: three representatives in quick (all of them in thorough)
    core.retain(|s| s.caller != "admin" || s.op.is_admin_route() || ["exec_mut:usr1/db1", "delete:usr1/db1", "logout"].contains(&s.op.label().as_str()));
    core.extend(presentation_entries(Tier::Quick, &all_ops));
    full.extend(presentation_entries(Tier::Thorough, &all_ops));
    let reduced: Vec<Step> = reduced_alphabet().iter().map(|(c, l)| step_of(c, l, &all_ops)).collect();
    // (alphabet, depth) per tier
    let plans: Vec<(&str, &Vec<Step>, usize)> = match args.tier {
        Tier::Quick => vec![("core", &core, 2)],
        Tier::Thorough => vec![("full-product", &full, 2), ("reduced", &reduced, 3)],
    };

    let stats = Stats::default();
    let states = DistinctCounter::default();
    let outcomes = DistinctCounter::default();
    let candidates: std::sync::Mutex<Vec<(usize, Vec<Step>, Vec<Found>, Vec<String>)>> = std::sync::Mutex::new(vec![]);
    let w = engine::workers();
    let labs: Vec<std::sync::Mutex<Lab>> = (0..w).map(|_| std::sync::Mutex::new(Lab::new("c24", false, &pool))).collect();

    // selfcheck of the fast reset: every single request of the full product gives the same
    // status and world on a world reset in place and on a freshly started server
    {
        let fresh: Vec<std::sync::Mutex<Lab>> = (0..w).map(|_| std::sync::Mutex::new(Lab::new("c24f", true, &pool))).collect();
        let check_alphabet: &Vec<Step> = if args.tier == Tier::Quick { &core } else { &standard };
        let items: Vec<(usize, &Step)> = bases.iter().enumerate().flat_map(|(bi, _)| check_alphabet.iter().map(move |s| (bi, s))).collect();
        let mismatches = AtomicU64::new(0);
        engine::par_for(items.len(), args.seed, |wi, i| {
            let (bi, step) = items[i];
            let seq = vec![step.clone()];
            let (f1, t1) = run_sequence(&mut labs[wi].lock().unwrap(), &bases[bi], &seq, None, None, None);
            let (f2, t2) = run_sequence(&mut fresh[wi].lock().unwrap(), &bases[bi], &seq, None, None, None);
            if t1 != t2 || f1.len() != f2.len() {
                mismatches.fetch_add(1, Ordering::Relaxed);
                eprintln!("reset selfcheck mismatch on {}: {:?} vs {:?}", bases[bi].name, t1, t2);
            }
        });
        if mismatches.load(Ordering::Relaxed) > 0 {
            engine::machinery_failure("the in-place world reset does not behave like a freshly started server");
        }
        report.set("reset_selfcheck_requests", json!(items.len()));
    }

    let mut plan_info = vec![];
    for (name, alphabet, depth) in &plans {
        // work items: (base, first step); each item runs all sequences with that first step
        let items: Vec<(usize, usize)> = (0..bases.len()).flat_map(|b| (0..alphabet.len()).map(move |a| (b, a))).collect();
        engine::par_for(items.len(), args.seed, |wi, i| {
            let (bi, ai) = items[i];
            let mut lab = labs[wi].lock().unwrap();
            let mut seq = vec![alphabet[ai].clone()];
            explore(&mut lab, &bases[bi], bi, &mut seq, *depth, alphabet, &stats, &states, &outcomes, &candidates, &report);
        });
        plan_info.push(json!({"alphabet": name, "alphabet_size": alphabet.len(), "depth": depth, "base_worlds": bases.len()}));
    }
    report.set("profile", Lab::profile(&labs));
    drop(labs);

    let mut cands = candidates.into_inner().unwrap();
    cands.sort_by_key(|c| (c.1.len(), c.0, seq_json(&bases[c.0], &c.1)["steps"].to_string()));
    let mut confirmed: BTreeSet<String> = BTreeSet::new();
    let mut lab = Lab::new("c24c", true, &pool);
    let mut replays = 0u64;
    for (bi, seq, found, transcript) in &cands {
        if found.iter().any(|f| !confirmed.contains(&f.signature)) {
            for round in 0..2 {
                let (f2, t2) = run_sequence(&mut lab, &bases[*bi], seq, None, None, None);
                replays += 1;
                let sigs = |v: &Vec<Found>| v.iter().map(|f| f.signature.clone()).collect::<Vec<_>>();
                if &t2 != transcript || sigs(&f2) != sigs(found) {
                    engine::machinery_failure(&format!("C24 case does not reproduce on a freshly started server (round {round}): {}\n  explored: {transcript:?}\n  replayed: {t2:?}", seq_json(&bases[*bi], seq)["steps"]));
                }
            }
            for f in found {
                confirmed.insert(f.signature.clone());
            }
        }
        for f in found {
            report.violation(&f.signature, &f.what, seq_json(&bases[*bi], seq));
        }
    }

    report.set("states", json!(states.len()));
    report.set("transitions", json!(stats.requests.load(Ordering::Relaxed)));
    report.set("traces_validated_against_impl", json!(stats.sequences.load(Ordering::Relaxed)));
    report.set("plans", json!(plan_info));
    report.set("operations", json!(all_ops.iter().map(|o| o.label()).collect::<Vec<_>>()));
    report.set("callers", json!(CALLERS));
    report.set("requests_not_permitted_checked", json!(stats.denied_checked.load(Ordering::Relaxed)));
    report.set("requests_permitted_applied", json!(stats.permitted_applied.load(Ordering::Relaxed)));
    report.set("requests_permitted_but_failed", json!(stats.permitted_failed.load(Ordering::Relaxed)));
    report.set("sequences_cut_because_a_failed_permitted_request_changed_the_world", json!(stats.model_lost.load(Ordering::Relaxed)));
    report.set("distinct_outcomes", json!(outcomes.len()));
    report.set("violating_sequences", json!(cands.len()));
    report.set("confirmation_replays_on_fresh_server", json!(replays));
    report.set("exhaustive", json!(true));
    report.set("what", json!("all request sequences of length <= depth over the alphabet(s) listed in plans, from 3 base worlds; states = distinct observable worlds; transitions = requests executed; distinct_outcomes = distinct (operation, caller, role of the caller, permitted?, status)"));
    report.assume("permission table as documented in agdb_web/content/docs/03.references/02.server.md; in addition a user may remove their own role from a database (repository test db_user_remove_test::remove_self fixes that behaviour)");
    report.assume("token expiry is exercised by rewriting the stored expiry, not by waiting; tokens are the ones the login responses returned");
    report.assume("the HTTP layers below axum routing (TLS, hyper) are not part of the in-process server");
    report.finish()
}

#[allow(clippy::too_many_arguments)]
fn explore(
    lab: &mut Lab,
    base: &Base,
    bi: usize,
    seq: &mut Vec<Step>,
    depth: usize,
    alphabet: &[Step],
    stats: &Stats,
    states: &DistinctCounter,
    outcomes: &DistinctCounter,
    candidates: &std::sync::Mutex<Vec<(usize, Vec<Step>, Vec<Found>, Vec<String>)>>,
    report: &Report,
) {
    let (found, transcript) = run_sequence(lab, base, seq, Some(stats), Some(states), Some(outcomes));
    if seq.len() == 2 && bi == 1 && seq[0].caller == "usr1" && seq[0].op.label().starts_with("db-user-add-write") && seq[1].caller == "usr2" && seq[1].op.label().starts_with("exec_mut:usr1/db1") {
        report.sample(json!({"base": base.name, "sequence": seq.iter().map(|s| format!("{}:{}", s.caller, s.op.label())).collect::<Vec<_>>(), "transcript": transcript}));
    }
    let violated = !found.is_empty();
    if violated {
        candidates.lock().unwrap().push((bi, seq.clone(), found, transcript));
    }
    // violating sequences are extended too (each extension is judged up to the point where the
    // model loses the world); the shortest case per signature becomes the replay file
    let _ = violated;
    if seq.len() < depth {
        for a in alphabet {
            seq.push(a.clone());
            explore(lab, base, bi, seq, depth, alphabet, stats, states, outcomes, candidates, report);
            seq.pop();
        }
    }
}
