//! C25 - a server query batch is all-or-nothing and audited exactly.
//!
//! Batches = every list of <= L queries (quick L=2, thorough L=3) over
//!   insert node | insert alias on `:0` | insert value k=1 on `:0` | read (select root)
//!   | failing read (missing id) | failing write (edge to a missing node)
//!   | reference `:7` (out of bounds)
//! submitted through `exec` and `exec_mut`; every sequence of <= 2 such
//! requests (first by the owner usr1, second by usr2 who holds the write role;
//! thorough additionally: second request through the admin endpoints) from a
//! base world with one database usr1/db1 holding a node `root` with k=0.
//!
//! Oracle after every request (timestamps ignored):
//!   not 2xx  => the database content and its audit log are unchanged
//!   2xx      => the content equals the reference database after applying the
//!               batch in order (reference: agdb DbMemory, batch applied to a
//!               copy, kept only if every query succeeded; `:N` = ids of result
//!               N as documented), and the audit log grew by exactly the
//!               batch's mutating queries, in order, with the caller's name.
//! A batch the reference cannot apply but the server answers 2xx is a violation
//! (some query failed, yet the batch counts as applied).

use crate::vh::lab::{Base, Lab, Req, Setup, reqs_from_json, reqs_to_json};
use crate::vh::refdb::{RefDb, is_mutating, kind_of};
use agdb::{QueryBuilder, QueryType};
use agdb_api::Queries;
use engine::{Args, DistinctCounter, Report, Tier};
use serde_json::{Value, json};
use std::collections::BTreeSet;
use std::sync::atomic::{AtomicU64, Ordering};

fn query_alphabet() -> Vec<(&'static str, QueryType)> {
    vec![
        ("insert-node", QueryBuilder::insert().nodes().count(1).query().into()),
        ("insert-alias-on-:0", QueryBuilder::insert().aliases("a").ids(":0").query().into()),
        ("insert-value-on-:0", QueryBuilder::insert().values([[("k", 1).into()]]).ids(":0").query().into()),
        ("read-root", QueryBuilder::select().ids("root").query().into()),
        ("failing-read", QueryBuilder::select().ids(999).query().into()),
        ("failing-write", QueryBuilder::insert().edges().from("root").to(999).query().into()),
        ("reference-:7", QueryBuilder::select().ids(":7").query().into()),
        // mutating queries that legitimately report result 0 and no elements (or nothing at all):
        // every mutating query of an applied batch must be in the audit log whatever its result
        ("insert-index-unused-key", QueryBuilder::insert().index("zz").query().into()),
        ("insert-index-used-key", QueryBuilder::insert().index("k").query().into()),
        ("remove-index", QueryBuilder::remove().index("k").query().into()),
        ("remove-missing-id", QueryBuilder::remove().ids(999).query().into()),
        ("remove-absent-value", QueryBuilder::remove().values("nokey").ids("root").query().into()),
        ("reinsert-same-alias", QueryBuilder::insert().aliases("root").ids("root").query().into()),
    ]
}

/// the first CORE entries are the design's seven kinds
const CORE: usize = 7;

fn initial_queries() -> Vec<QueryType> {
    vec![QueryBuilder::insert().nodes().aliases("root").values([[("k", 0).into()]]).query().into()]
}

fn base_world() -> Base {
    let init = serde_json::to_value(Queries(initial_queries())).unwrap();
    Base::build(
        "c25-db1-owner-usr1-writer-usr2-dbadmin-usr3",
        &[
            Setup::AddUser("usr1"),
            Setup::AddUser("usr2"),
            Setup::AddUser("usr3"),
            Setup::Login("usr1", "usr1"),
            Setup::Login("usr2", "usr2"),
            Setup::Login("usr3", "usr3"),
            Setup::Call("usr1", "POST", "/db/usr1/db1/add?db_type=mapped".to_string(), None),
            Setup::Call("usr1", "POST", "/db/usr1/db1/exec_mut".to_string(), Some(init)),
            Setup::Call("usr1", "PUT", "/db/usr1/db1/user/usr2/add?db_role=write".to_string(), None),
            // a NON-owner holding the db admin role
            Setup::Call("usr1", "PUT", "/db/usr1/db1/user/usr3/add?db_role=admin".to_string(), None),
        ],
    )
}

/// all index lists of length <= max over 0..n
fn batches(n: usize, max: usize) -> Vec<Vec<usize>> {
    batches_over(&(0..n).collect::<Vec<_>>(), max)
}

fn batches_over(idx: &[usize], max: usize) -> Vec<Vec<usize>> {
    let n = idx.len();
    let map = |b: Vec<Vec<usize>>| -> Vec<Vec<usize>> { b.into_iter().map(|v| v.into_iter().map(|i| idx[i]).collect()).collect() };
    map(batches_raw(n, max))
}

fn batches_raw(n: usize, max: usize) -> Vec<Vec<usize>> {
    let mut out: Vec<Vec<usize>> = vec![vec![]];
    let mut last: Vec<Vec<usize>> = vec![vec![]];
    for _ in 0..max {
        let mut next = vec![];
        for b in &last {
            for i in 0..n {
                let mut c = b.clone();
                c.push(i);
                next.push(c);
            }
        }
        out.extend(next.iter().cloned());
        last = next;
    }
    out
}

#[derive(Clone)]
struct Item {
    endpoint: &'static str, // exec | exec_mut | admin-exec | admin-exec_mut
    batch: Vec<usize>,
}

fn make_req(caller: &str, item: &Item, alpha: &[(&'static str, QueryType)]) -> Req {
    let qs = Queries(item.batch.iter().map(|i| alpha[*i].1.clone()).collect());
    let uri = match item.endpoint {
        "exec" => "/db/usr1/db1/exec",
        "exec_mut" => "/db/usr1/db1/exec_mut",
        "admin-exec" => "/admin/db/usr1/db1/exec",
        _ => "/admin/db/usr1/db1/exec_mut",
    };
    let label: Vec<&str> = item.batch.iter().map(|i| alpha[*i].0).collect();
    Req::new(caller, "POST", uri, Some(serde_json::to_value(&qs).unwrap()), &format!("{}[{}]", item.endpoint, label.join(",")))
}

fn user_of(caller: &str) -> &str {
    caller
}

struct Found {
    signature: String,
    what: String,
}

#[derive(Default)]
struct Stats {
    sequences: AtomicU64,
    requests: AtomicU64,
    applied: AtomicU64,
    failed: AtomicU64,
    failed_with_mutation_before_failure: AtomicU64,
    reference_ok_server_refused: AtomicU64,
}

fn db_entry(obs: &Value) -> Value {
    obs["dbs"].as_array().and_then(|a| a.iter().find(|d| d["owner"] == "usr1" && d["db"] == "db1")).cloned().unwrap_or(Value::Null)
}

fn queries_of(req: &Req) -> Vec<QueryType> {
    req.body.as_ref().and_then(|b| serde_json::from_value::<Queries>(b.clone()).ok()).map(|q| q.0).unwrap_or_default()
}

fn run_sequence(lab: &mut Lab, base: &Base, seq: &[Req], stats: Option<&Stats>, states: Option<&DistinctCounter>, outcomes: Option<&DistinctCounter>) -> (Vec<Found>, Vec<String>) {
    lab.reset(base);
    if let Some(s) = stats {
        s.sequences.fetch_add(1, Ordering::Relaxed);
    }
    let mut found = vec![];
    let mut transcript = vec![];
    let mut reference = RefDb::new();
    if let Err(e) = reference.apply(&initial_queries()) {
        engine::machinery_failure(&format!("reference set-up: {e}"));
    }
    let mut before = db_entry(&lab.observe());
    if before["dump"] != reference.dump() {
        engine::machinery_failure(&format!("the reference database does not reproduce the base world: {} vs {}", before["dump"], reference.dump()));
    }
    for req in seq {
        let queries = queries_of(req);
        let resp = lab.call(base, req);
        let after = db_entry(&lab.observe());
        let endpoint = req.op.split('[').next().unwrap_or("?").to_string();
        // what the reference says
        let mut trial = reference.copy();
        let ref_result = trial.apply(&queries);
        // position/kind of the first failing query according to the reference
        let mut failing = "none";
        let mut mutated_before = "none";
        if ref_result.is_err() {
            for (i, q) in queries.iter().enumerate() {
                // the shortest failing prefix
                let mut p = reference.copy();
                if p.apply(&queries[..=i]).is_err() {
                    failing = kind_of(q);
                    break;
                }
                if is_mutating(q) && mutated_before == "none" {
                    mutated_before = kind_of(q);
                }
            }
        }
        if let Some(s) = stats {
            s.requests.fetch_add(1, Ordering::Relaxed);
            if resp.ok() {
                s.applied.fetch_add(1, Ordering::Relaxed);
            } else {
                s.failed.fetch_add(1, Ordering::Relaxed);
                if mutated_before != "none" {
                    s.failed_with_mutation_before_failure.fetch_add(1, Ordering::Relaxed);
                }
                if ref_result.is_ok() {
                    s.reference_ok_server_refused.fetch_add(1, Ordering::Relaxed);
                }
            }
        }
        let as_role = match req.caller.as_str() {
            "usr1" => "owner",
            "usr2" => "writer",
            "usr3" => "db-admin",
            _ => "server-admin",
        };
        let sig = |clause: &str| format!("c25|ep={endpoint}|as={as_role}|clause={clause}|status={}|mutated_before={mutated_before}|failing={failing}", resp.status);
        let ctx = format!("request {} {} answered {} {}", req.caller, req.op, resp.status, engine::normalise(&resp.text()));
        transcript.push(format!("{} {} -> {} dump={:016x} audit_len={}", req.caller, req.op, resp.status, engine::fnv(after["dump"].to_string().as_bytes()), after["audit"].as_array().map(|a| a.len()).unwrap_or(0)));
        if let Some(s) = states {
            s.insert(format!("{}|{}", after["dump"], after["audit"]).as_bytes());
        }
        if let Some(o) = outcomes {
            o.insert(format!("{}|{}|{}", req.op, resp.status, after["dump"]).as_bytes());
        }
        if after.is_null() || after["dump"].get("error").is_some() {
            found.push(Found { signature: sig("db-unreadable"), what: format!("{ctx}; afterwards the database cannot be read: {}", after["dump"]) });
            break;
        }
        if !resp.ok() {
            if after["dump"] != before["dump"] {
                found.push(Found { signature: sig("failed-batch-changed-db"), what: format!("{ctx}; the batch failed but the database content changed: before {} after {}", before["dump"], after["dump"]) });
            }
            if after["audit"] != before["audit"] {
                found.push(Found { signature: sig("failed-batch-audited"), what: format!("{ctx}; the batch failed but the audit log changed: before {} after {}", before["audit"], after["audit"]) });
            }
        } else {
            match ref_result {
                Err(e) => {
                    found.push(Found { signature: sig("applied-although-a-query-fails"), what: format!("{ctx}; the reference cannot apply the batch ({e}) yet the server reports success") });
                }
                Ok(_) => {
                    reference = trial;
                    let want = reference.dump();
                    if after["dump"] != want {
                        found.push(Found { signature: sig("content"), what: format!("{ctx}; content after the applied batch differs from applying its queries in order: server {} reference {}", after["dump"], want) });
                    }
                }
            }
            // audit: exactly the mutating queries, in order, by the caller
            let old: Vec<Value> = before["audit"].as_array().cloned().unwrap_or_default();
            let new: Vec<Value> = after["audit"].as_array().cloned().unwrap_or_default();
            let expected: Vec<(&str, &str)> = queries.iter().filter(|q| is_mutating(q)).map(|q| (user_of(&req.caller), kind_of(q))).collect();
            let grown_ok = new.len() == old.len() + expected.len() && new[..old.len().min(new.len())] == old[..];
            let mut entries_ok = grown_ok;
            if grown_ok {
                for (e, (u, k)) in new[old.len()..].iter().zip(expected.iter()) {
                    let kind = e["query"].as_object().and_then(|o| o.keys().next().cloned()).unwrap_or_default();
                    if e["user"] != *u || kind != *k {
                        entries_ok = false;
                    }
                }
            }
            if !entries_ok {
                found.push(Found {
                    signature: sig("audit"),
                    what: format!("{ctx}; the audit log should have grown by {expected:?} (user, query kind) but went from {} to {}", before["audit"], after["audit"]),
                });
            }
        }
        before = after;
        if !lab.alive() {
            break;
        }
    }
    (found, transcript)
}

fn seq_json(base: &Base, seq: &[Req]) -> Value {
    json!({"base": base.name, "requests": reqs_to_json(seq)})
}

pub(crate) fn run(args: &Args) -> i32 {
    let report = Report::new(args, "model_checking");
    let base = base_world();
    let pool = vec![("usr1".to_string(), "db1".to_string())];
    let alpha = query_alphabet();

    if let Some(path) = &args.replay {
        let doc = crate::vh::world::replay_doc(path);
        let seq = reqs_from_json(&doc["requests"]);
        let mut lab = Lab::new("c25r", true, &pool);
        let (found, transcript) = run_sequence(&mut lab, &base, &seq, None, None, None);
        for t in &transcript {
            println!("replay: {t}");
        }
        for f in found {
            report.violation(&f.signature, &f.what, seq_json(&base, &seq));
        }
        report.set("states", json!(1));
        report.set("transitions", json!(transcript.len().max(1)));
        report.set("traces_validated_against_impl", json!(1));
        report.sample(json!({"replayed": transcript}));
        return report.finish();
    }

    let max_len = args.tier.pick(2, 3);
    let items = |bs: &[Vec<usize>], eps: &[&'static str]| -> Vec<Item> { eps.iter().flat_map(|ep| bs.iter().map(move |b| Item { endpoint: ep, batch: b.clone() })).collect() };
    let user_eps = ["exec", "exec_mut"];
    let core_idx: Vec<usize> = (0..CORE).collect();
    let bs = batches_over(&core_idx, max_len);
    // plans: (first requests, second requests); every first request alone and followed by every second request
    let mut plans: Vec<(&str, Vec<Item>, Vec<Item>, &str, &str)> = vec![];
    {
        // A: the seven core kinds, batches <= max_len, sequences <= 2
        let first = items(&bs, &user_eps);
        let mut second = first.clone();
        if args.tier == Tier::Thorough {
            // second request also through the admin endpoints, batches of <= 2 queries
            let small: Vec<Vec<usize>> = bs.iter().filter(|b| b.len() <= 2).cloned().collect();
            second.extend(items(&small, &["admin-exec", "admin-exec_mut"]));
        }
        plans.push(("core kinds: owner, then the non-owner writer", first, second, "usr1", "usr2"));
        // B: all kinds (incl. the result-0 mutations), short batches, sequences <= 2
        let all_short = batches(alpha.len(), args.tier.pick(1, 2));
        let f = items(&all_short, &user_eps);
        plans.push(("all kinds, short batches: owner, then the non-owner db admin", f.clone(), f.clone(), "usr1", "usr3"));
        // D: the submitting user is a non-owner with the db admin / write role from the first request on
        plans.push(("all kinds, short batches: non-owner db admin, then the non-owner writer", f.clone(), f, "usr3", "usr2"));
        let small: Vec<Vec<usize>> = bs.iter().filter(|b| b.len() <= 2).cloned().collect();
        plans.push(("core kinds <= 2 queries, single request by the non-owner db admin", items(&small, &user_eps), vec![], "usr3", "usr3"));
        plans.push(("core kinds <= 2 queries, single request by the non-owner writer", items(&small, &user_eps), vec![], "usr2", "usr2"));
        // C: all kinds, batches <= max_len, single requests
        plans.push(("all kinds, single request by the owner", items(&batches(alpha.len(), max_len), &user_eps), vec![], "usr1", "usr1"));
    }
    let work: Vec<(usize, usize)> = plans.iter().enumerate().flat_map(|(p, pl)| (0..pl.1.len()).map(move |i| (p, i))).collect();
    // work items: one per first request (runs the length-1 sequence and all its extensions)
    let stats = Stats::default();
    let states = DistinctCounter::default();
    let outcomes = DistinctCounter::default();
    let candidates: std::sync::Mutex<Vec<(Vec<Req>, Vec<Found>, Vec<String>)>> = std::sync::Mutex::new(vec![]);
    let w = engine::workers();
    let labs: Vec<std::sync::Mutex<Lab>> = (0..w).map(|_| std::sync::Mutex::new(Lab::new("c25", false, &pool))).collect();
    engine::par_for(work.len(), args.seed, |wi, wk| {
        let (pi, i) = work[wk];
        let (first, second) = (&plans[pi].1, &plans[pi].2);
        let mut lab = labs[wi].lock().unwrap();
        let (c1, c2) = (plans[pi].3, plans[pi].4);
        let r1 = make_req(c1, &first[i], &alpha);
        let mut todo: Vec<Vec<Req>> = vec![vec![r1.clone()]];
        for it in second {
            let caller = if it.endpoint.starts_with("admin") { "admin" } else { c2 };
            todo.push(vec![r1.clone(), make_req(caller, it, &alpha)]);
        }
        for (n, seq) in todo.iter().enumerate() {
            let (found, transcript) = run_sequence(&mut lab, &base, seq, Some(&stats), Some(&states), Some(&outcomes));
            if (pi == 0 && i == first.len() / 2 + 9 && n == 30) || (pi == 1 && i == first.len() - 3 && n == 5) {
                report.sample(json!({"sequence": reqs_to_json(seq), "transcript": transcript}));
            }
            if !found.is_empty() {
                candidates.lock().unwrap().push((seq.clone(), found, transcript));
            }
        }
    });
    report.set("profile", Lab::profile(&labs));
    drop(labs);

    let mut cands = candidates.into_inner().unwrap();
    cands.sort_by_key(|c| (c.0.len(), reqs_to_json(&c.0).to_string().len(), reqs_to_json(&c.0).to_string()));
    let mut confirmed: BTreeSet<String> = BTreeSet::new();
    let mut lab = Lab::new("c25c", true, &pool);
    let mut replays = 0u64;
    for (seq, found, transcript) in &cands {
        if found.iter().any(|f| !confirmed.contains(&f.signature)) {
            for round in 0..2 {
                let (f2, t2) = run_sequence(&mut lab, &base, seq, None, None, None);
                replays += 1;
                let sigs = |v: &Vec<Found>| v.iter().map(|f| f.signature.clone()).collect::<Vec<_>>();
                if &t2 != transcript || sigs(&f2) != sigs(found) {
                    engine::machinery_failure(&format!("C25 case does not reproduce on a freshly started server (round {round}): {}\n  explored: {transcript:?}\n  replayed: {t2:?}", reqs_to_json(seq)));
                }
            }
            for f in found {
                confirmed.insert(f.signature.clone());
            }
        }
        for f in found {
            report.violation(&f.signature, &f.what, seq_json(&base, seq));
        }
    }

    report.set("states", json!(states.len()));
    report.set("transitions", json!(stats.requests.load(Ordering::Relaxed)));
    report.set("traces_validated_against_impl", json!(stats.sequences.load(Ordering::Relaxed)));
    report.set("max_queries_per_batch", json!(max_len));
    report.set("query_alphabet", json!(alpha.iter().map(|a| a.0).collect::<Vec<_>>()));
    report.set("plans", json!(plans.iter().map(|p| json!({"plan": p.0, "first_requests": p.1.len(), "second_requests": p.2.len(), "first_caller": p.3, "second_caller": p.4})).collect::<Vec<_>>()));
    report.set("core_batches", json!(bs.len()));
    report.set("batches_applied_2xx", json!(stats.applied.load(Ordering::Relaxed)));
    report.set("batches_failed", json!(stats.failed.load(Ordering::Relaxed)));
    report.set("failed_batches_with_a_mutation_before_the_failing_query", json!(stats.failed_with_mutation_before_failure.load(Ordering::Relaxed)));
    report.set("refused_although_reference_applies", json!(stats.reference_ok_server_refused.load(Ordering::Relaxed)));
    report.set("distinct_outcomes", json!(outcomes.len()));
    report.set("violating_sequences", json!(cands.len()));
    report.set("confirmation_replays_on_fresh_server", json!(replays));
    report.set("exhaustive", json!(true));
    report.set("what", json!("plan A: every batch of <= max_queries_per_batch queries over the 7 core kinds through exec and exec_mut, every sequence of <= 2 such requests; plan B: the same over all 13 kinds with shorter batches (quick 1, thorough 2 queries); plan C: every batch of <= max_queries_per_batch queries over all 13 kinds as a single request; states = distinct (content, audit log) of the database; transitions = requests executed"));
    report.assume("database content is compared through a complete dump (all elements with values, aliases, indexes, node count); the reference for content is agdb's own DbMemory (C25 is not about the query engine)");
    report.assume("audit entries are compared by user and query kind, in order (the server records queries after result injection; timestamps ignored)");
    report.finish()
}
