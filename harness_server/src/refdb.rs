//! Reference database for C24/C25: an in-memory agdb `DbMemory` used as the
//! value oracle for database *content* (neither property is about the query
//! engine itself). All-or-nothing is obtained without relying on agdb's own
//! rollback: a batch is applied to a copy, and the copy replaces the reference
//! only if every query succeeded. Result references (`:N`) are resolved as the
//! server documentation describes: an id `:N` stands for the ids of result N.

use agdb::{DbMemory, QueryBuilder, QueryId, QueryIds, QueryResult, QueryType};
use serde_json::Value;

pub(crate) struct RefDb {
    db: DbMemory,
}

fn resolve_ids(ids: &mut QueryIds, results: &[QueryResult]) -> Result<(), String> {
    match ids {
        QueryIds::Ids(list) => {
            let mut out = vec![];
            for id in list.iter() {
                if let QueryId::Alias(a) = id
                    && let Some(n) = a.strip_prefix(':')
                    && let Ok(n) = n.parse::<usize>()
                {
                    let r = results.get(n).ok_or_else(|| format!("result reference :{n} out of bounds"))?;
                    out.extend(r.elements.iter().map(|e| QueryId::Id(e.id)));
                } else {
                    out.push(id.clone());
                }
            }
            *list = out;
            Ok(())
        }
        QueryIds::Search(s) => {
            for id in [&mut s.origin, &mut s.destination] {
                if let QueryId::Alias(a) = id
                    && let Some(n) = a.strip_prefix(':')
                    && let Ok(n) = n.parse::<usize>()
                {
                    let r = results.get(n).ok_or_else(|| format!("result reference :{n} out of bounds"))?;
                    *id = QueryId::Id(r.elements.first().ok_or("referenced result is empty")?.id);
                }
            }
            Ok(())
        }
    }
}

pub(crate) fn is_mutating(q: &QueryType) -> bool {
    matches!(
        q,
        QueryType::InsertAlias(_)
            | QueryType::InsertEdges(_)
            | QueryType::InsertIndex(_)
            | QueryType::InsertNodes(_)
            | QueryType::InsertValues(_)
            | QueryType::Remove(_)
            | QueryType::RemoveAliases(_)
            | QueryType::RemoveIndex(_)
            | QueryType::RemoveValues(_)
    )
}

pub(crate) fn kind_of(q: &QueryType) -> &'static str {
    match q {
        QueryType::InsertAlias(_) => "InsertAlias",
        QueryType::InsertEdges(_) => "InsertEdges",
        QueryType::InsertIndex(_) => "InsertIndex",
        QueryType::InsertNodes(_) => "InsertNodes",
        QueryType::InsertValues(_) => "InsertValues",
        QueryType::Remove(_) => "Remove",
        QueryType::RemoveAliases(_) => "RemoveAliases",
        QueryType::RemoveIndex(_) => "RemoveIndex",
        QueryType::RemoveValues(_) => "RemoveValues",
        QueryType::Search(_) => "Search",
        QueryType::SelectAliases(_) => "SelectAliases",
        QueryType::SelectAllAliases(_) => "SelectAllAliases",
        QueryType::SelectEdgeCount(_) => "SelectEdgeCount",
        QueryType::SelectIndexes(_) => "SelectIndexes",
        QueryType::SelectKeys(_) => "SelectKeys",
        QueryType::SelectKeyCount(_) => "SelectKeyCount",
        QueryType::SelectNodeCount(_) => "SelectNodeCount",
        QueryType::SelectValues(_) => "SelectValues",
    }
}

impl RefDb {
    pub(crate) fn new() -> RefDb {
        RefDb { db: DbMemory::new("ref").unwrap_or_else(|e| engine::machinery_failure(&format!("reference db: {}", e.description))) }
    }

    pub(crate) fn copy(&self) -> RefDb {
        RefDb { db: self.db.copy("ref").unwrap_or_else(|e| engine::machinery_failure(&format!("reference db copy: {}", e.description))) }
    }

    /// Applies the batch in order, all or nothing. Ok: the results.
    pub(crate) fn apply(&mut self, queries: &[QueryType]) -> Result<Vec<QueryResult>, String> {
        let mut trial = self.copy();
        let mut results: Vec<QueryResult> = vec![];
        for q in queries {
            let mut q = q.clone();
            let r = match &mut q {
                QueryType::InsertAlias(q) => resolve_ids(&mut q.ids, &results).and_then(|_| trial.db.exec_mut(&*q).map_err(|e| e.description)),
                QueryType::InsertEdges(q) => resolve_ids(&mut q.ids, &results)
                    .and_then(|_| resolve_ids(&mut q.from, &results))
                    .and_then(|_| resolve_ids(&mut q.to, &results))
                    .and_then(|_| trial.db.exec_mut(&*q).map_err(|e| e.description)),
                QueryType::InsertIndex(q) => trial.db.exec_mut(&*q).map_err(|e| e.description),
                QueryType::InsertNodes(q) => resolve_ids(&mut q.ids, &results).and_then(|_| trial.db.exec_mut(&*q).map_err(|e| e.description)),
                QueryType::InsertValues(q) => resolve_ids(&mut q.ids, &results).and_then(|_| trial.db.exec_mut(&*q).map_err(|e| e.description)),
                QueryType::Remove(q) => resolve_ids(&mut q.0, &results).and_then(|_| trial.db.exec_mut(&*q).map_err(|e| e.description)),
                QueryType::RemoveAliases(q) => trial.db.exec_mut(&*q).map_err(|e| e.description),
                QueryType::RemoveIndex(q) => trial.db.exec_mut(&*q).map_err(|e| e.description),
                QueryType::RemoveValues(q) => resolve_ids(&mut q.0.ids, &results).and_then(|_| trial.db.exec_mut(&*q).map_err(|e| e.description)),
                QueryType::Search(q) => {
                    let mut ids = QueryIds::Search(q.clone());
                    resolve_ids(&mut ids, &results).and_then(|_| match ids {
                        QueryIds::Search(s) => trial.db.exec(&s).map_err(|e| e.description),
                        _ => Err("unreachable".to_string()),
                    })
                }
                QueryType::SelectAliases(q) => resolve_ids(&mut q.0, &results).and_then(|_| trial.db.exec(&*q).map_err(|e| e.description)),
                QueryType::SelectAllAliases(q) => trial.db.exec(&*q).map_err(|e| e.description),
                QueryType::SelectEdgeCount(q) => trial.db.exec(&*q).map_err(|e| e.description),
                QueryType::SelectIndexes(q) => trial.db.exec(&*q).map_err(|e| e.description),
                QueryType::SelectKeys(q) => resolve_ids(&mut q.0, &results).and_then(|_| trial.db.exec(&*q).map_err(|e| e.description)),
                QueryType::SelectKeyCount(q) => resolve_ids(&mut q.0, &results).and_then(|_| trial.db.exec(&*q).map_err(|e| e.description)),
                QueryType::SelectNodeCount(q) => trial.db.exec(&*q).map_err(|e| e.description),
                QueryType::SelectValues(q) => resolve_ids(&mut q.ids, &results).and_then(|_| trial.db.exec(&*q).map_err(|e| e.description)),
            }?;
            results.push(r);
        }
        self.db = trial.db;
        Ok(results)
    }

    /// Same shape as `Server::dump`.
    pub(crate) fn dump(&self) -> Value {
        let r = vec![
            self.db.exec(QueryBuilder::select().search().elements().query()),
            self.db.exec(QueryBuilder::select().aliases().query()),
            self.db.exec(QueryBuilder::select().indexes().query()),
            self.db.exec(QueryBuilder::select().node_count().query()),
        ];
        let r: Vec<QueryResult> = r.into_iter().map(|x| x.unwrap_or_else(|e| engine::machinery_failure(&format!("reference dump: {}", e.description)))).collect();
        let mut v = serde_json::to_value(&r).unwrap_or(Value::Null);
        if let Some(a) = v.get_mut(1).and_then(|x| x.get_mut("elements")).and_then(|x| x.as_array_mut()) {
            a.sort_by_key(|e| e.to_string());
        }
        // the index list is a set: its listing order is not part of the content (a rolled-back
        // `remove index` re-adds the index at the end of the list)
        if let Some(a) = v.get_mut(2).and_then(|x| x.get_mut("elements")).and_then(|x| x.get_mut(0)).and_then(|x| x.get_mut("values")).and_then(|x| x.as_array_mut()) {
            a.sort_by_key(|e| e.to_string());
        }
        v
    }
}
