//! C31 - every node applies committed actions once each and in log order.
//!
//! Real `ClusterStorage` (inside the real `cluster::new` object) over scratch
//! `ServerDb`/`ClusterLog`/`DbPool` on a MULTI-THREADED tokio runtime. k
//! entries are appended and committed; every execution task the storage
//! starts parks in the cfg(agdb_verif) `task_gate`; the harness releases the
//! parked tasks in every one of the k! orders (waiting for the execution
//! notification before releasing the next). Scenario modes:
//!
//!   one            append 1..k, commit(k)                      - all k! orders
//!   two:j          append 1..k, commit(j), commit(k)           - all k! orders
//!   restart:j      append 1..k, commit(j), run them, restart (a new
//!                  ClusterStorage on the same log), commit(k)  - all (k-j)! orders
//!   crash          append 1..k, commit(k), the process dies before any task ran
//!                  (its whole runtime is dropped), a new runtime and new server
//!                  components start on the same directory        - all k! orders
//!
//!   trunc:p:c:v    (set S2) real entries 1..c-1 and junk at c..k appended, the first p (< c)
//!   trunc2:p:c:v   committed and executed, then the uncommitted junk overwritten (trunc2: twice)
//!                  by the real entries c..k, committed in one call (v=one), two calls (v=two:j)
//!                  or replayed after a crash (v=crash)        - all (k-p)! orders
//!
//! Oracle (only what the statement says): the sequence of log indexes whose
//! execution completed is 1..k in increasing order, each exactly once; the
//! final server state (users, databases, roles, contents, audit) equals that
//! of the in-order run of the same scenario; nothing stays unexecuted.
//! A task that passes the gate out of index order is a schedule the real
//! multi-threaded runtime can produce, as long as the tasks are independent
//! `tokio::spawn`s (which is exactly what the gate observes: if the code
//! serialises the tasks itself, an out-of-order release has no effect).

use crate::action::ClusterAction;
use crate::action::ClusterActionResult;
use crate::action::db_add::DbAdd;
use crate::action::db_exec::DbExec;
use crate::action::db_user_add::DbUserAdd;
use crate::action::user_add::UserAdd;
use crate::raft::Log;
use crate::raft::Storage;
use crate::server_error::ServerResult;
use crate::verif;
use crate::vh::world::{Server, Snapshot, rt_multi};
use agdb::QueryBuilder;
use agdb_api::{DbKind, DbUserRole, Queries};
use engine::{Args, DistinctCounter, Report, Scratch, Tier};
use serde_json::{Value, json};
use std::sync::atomic::{AtomicU64, Ordering};
use std::time::{Duration, Instant};

const QUICK_MAX_K: usize = 3;
const THOROUGH_MAX_K: usize = 5;
/// how long an out-of-order release is given to show an effect before the next release
const RELEASE_WAIT_MS: u64 = 40;
/// upper bound for everything to finish once every task was released
const FINISH_WAIT_MS: u64 = 5000;

type Notifier = tokio::sync::oneshot::Sender<ServerResult<(u64, ClusterActionResult)>>;

fn q(queries: Vec<agdb::QueryType>) -> Queries {
    Queries(queries)
}

fn user_add(name: &str) -> ClusterAction {
    UserAdd { user: name.to_string(), password: vec![7; 32], salt: vec![9; 16] }.into()
}

fn db_exec(queries: Queries) -> ClusterAction {
    DbExec { user: "usr1".to_string(), owner: "usr1".to_string(), db: "db1".to_string(), queries }.into()
}

/// (prefix executed in order beforehand, entries committed together)
fn action_set(set: &str) -> (Vec<ClusterAction>, Vec<(&'static str, ClusterAction)>) {
    let add_db: ClusterAction = DbAdd { owner: "usr1".to_string(), db: "db1".to_string(), db_type: DbKind::Mapped }.into();
    match set {
        // the design's set: a wrong order is visible in the final state
        "S1" => (
            vec![],
            vec![
                ("UserAdd(usr1)", user_add("usr1")),
                ("DbAdd(usr1/db1)", add_db),
                ("DbExec(insert node n)", db_exec(q(vec![QueryBuilder::insert().nodes().aliases("n").values([[("k", 1).into()]]).query().into()]))),
                ("DbUserAdd(usr1/db1,admin,write)", DbUserAdd { owner: "usr1".to_string(), db: "db1".to_string(), user: "admin".to_string(), db_role: DbUserRole::Write }.into()),
                ("DbExec(insert value on n)", db_exec(q(vec![QueryBuilder::insert().values([[("k", 2).into()]]).ids("n").query().into()]))),
            ],
        ),
        // data-dependent queries on one database
        "S2" => (
            vec![user_add("usr1"), add_db],
            vec![
                ("DbExec(insert node n k=1)", db_exec(q(vec![QueryBuilder::insert().nodes().aliases("n").values([[("k", 1).into()]]).query().into()]))),
                ("DbExec(insert value k=2 on n)", db_exec(q(vec![QueryBuilder::insert().values([[("k", 2).into()]]).ids("n").query().into()]))),
                ("DbExec(insert edge n->n)", db_exec(q(vec![QueryBuilder::insert().edges().from("n").to("n").query().into()]))),
                ("DbExec(remove n)", db_exec(q(vec![QueryBuilder::remove().ids("n").query().into()]))),
                ("DbExec(insert node n k=3)", db_exec(q(vec![QueryBuilder::insert().nodes().aliases("n").values([[("k", 3).into()]]).query().into()]))),
            ],
        ),
        _ => engine::machinery_failure("unknown action set"),
    }
}

#[derive(Clone, Debug)]
struct Scenario {
    set: String,
    k: usize,
    mode: String, // one | two:j | restart:j | crash
    order: Vec<u64>, // release order (log indexes relative to the first committed-together entry = 1)
}

impl Scenario {
    fn to_json(&self) -> Value {
        json!({"set": self.set, "k": self.k, "mode": self.mode, "release_order": self.order})
    }
    fn from_json(v: &Value) -> Scenario {
        Scenario {
            set: v["set"].as_str().unwrap_or("S1").to_string(),
            k: v["k"].as_u64().unwrap_or(2) as usize,
            mode: v["mode"].as_str().unwrap_or("one").to_string(),
            order: v["release_order"].as_array().map(|a| a.iter().filter_map(|x| x.as_u64()).collect()).unwrap_or_default(),
        }
    }
}

fn permutations(items: &[u64]) -> Vec<Vec<u64>> {
    if items.len() <= 1 {
        return vec![items.to_vec()];
    }
    let mut out = vec![];
    for i in 0..items.len() {
        let mut rest = items.to_vec();
        let x = rest.remove(i);
        for mut p in permutations(&rest) {
            p.insert(0, x);
            out.push(p);
        }
    }
    out
}

#[derive(Debug, Clone, PartialEq)]
struct Obs {
    /// log indexes (relative) in the order their execution completed
    exec_order: Vec<i64>,
    /// per entry: "ok" | "err:<status>:<text>" | "dropped"
    results: Vec<String>,
    unexecuted: Vec<i64>,
    state: Value,
    notes: Vec<String>,
}

impl Obs {
    fn to_json(&self) -> Value {
        json!({"exec_order": self.exec_order, "results": self.results, "unexecuted": self.unexecuted, "state": self.state, "notes": self.notes})
    }
}

struct Stats {
    scenarios: AtomicU64,
    releases: AtomicU64,
}

async fn wait_until(deadline_ms: u64, mut f: impl FnMut() -> bool) -> bool {
    let t = Instant::now();
    loop {
        if f() {
            return true;
        }
        if t.elapsed() > Duration::from_millis(deadline_ms) {
            return false;
        }
        tokio::time::sleep(Duration::from_micros(200)).await;
    }
}

/// Runs one scenario on a fresh multi-threaded runtime and a restored base directory.
fn run_scenario(sc: &Scenario, base: &Snapshot, scratch: &Scratch, stats: &Stats) -> Result<Obs, String> {
    let root = scratch.path("w");
    base.restore(&root);
    let data = format!("{root}/a/b/data");
    let rt = rt_multi(4);
    stats.scenarios.fetch_add(1, Ordering::Relaxed);
    let r = rt.block_on(async {
        verif::gate_enable(false);
        let mut server = Server::start_opts(&data, false).await?;
        let (prefix, entries) = action_set(&sc.set);
        let entries: Vec<(&str, ClusterAction)> = entries.into_iter().take(sc.k).collect();
        if entries.len() != sc.k {
            return Err(format!("set {} has no {} entries", sc.set, sc.k));
        }
        // prefix: one action at a time through the real cluster object, in order
        for a in prefix {
            let (sender, receiver) = tokio::sync::oneshot::channel();
            let mut raft = server.cluster.raft.write().await;
            let index = raft.storage.log_index() + 1;
            raft.storage.append(Log { db_id: None, index, term: 1, data: a }, Some(sender)).await.map_err(|e| format!("prefix append: {}", e.description))?;
            raft.storage.commit(index).await.map_err(|e| format!("prefix commit: {}", e.description))?;
            drop(raft);
            match receiver.await {
                Ok(Ok(_)) => {}
                Ok(Err(e)) => return Err(format!("prefix action failed: {}", e.description)),
                Err(_) => return Err("prefix action dropped".to_string()),
            }
        }
        let base_index = server.cluster.raft.read().await.storage.log_index();
        let mut notes = vec![];

        verif::gate_enable(true);
        let mut subscription = server.cluster.raft.read().await.storage.subscribe().await;
        let mut receivers = vec![];
        let parts: Vec<&str> = sc.mode.split(':').collect();
        let is_trunc = parts[0] == "trunc" || parts[0] == "trunc2";
        if !is_trunc {
            let mut raft = server.cluster.raft.write().await;
            for (i, (_, a)) in entries.iter().enumerate() {
                let (sender, receiver): (Notifier, _) = tokio::sync::oneshot::channel();
                receivers.push(receiver);
                let index = base_index + 1 + i as u64;
                raft.storage.append(Log { db_id: None, index, term: 1, data: a.clone() }, Some(sender)).await.map_err(|e| format!("append: {}", e.description))?;
            }
        }
        let k = sc.k as u64;
        let mut exec_order: Vec<i64> = vec![];
        let mut expect_parked: Vec<u64> = (1..=k).collect();

        let num = |i: usize| -> Result<u64, String> { parts.get(i).and_then(|x| x.parse::<u64>().ok()).ok_or_else(|| format!("bad mode {}", sc.mode)) };
        let (mode, j) = (parts[0], if is_trunc || parts.len() < 2 { 0 } else { num(1)? });
        match mode {
            "trunc" | "trunc2" => {
                // history with truncation: real entries 1..cut-1 and junk at cut..k are appended, the
                // first p (< cut) are committed and executed, then the uncommitted junk is overwritten
                // (trunc2: first by other junk, then) by the real entries cut..k, which are committed
                // in one call / two calls / and replayed after a crash
                let (p, cut, variant) = (num(1)?, num(2)?, *parts.get(3).unwrap_or(&"one"));
                if !(p < cut && cut <= k) {
                    return Err(format!("bad mode {}", sc.mode));
                }
                let junk = |n: u64| db_exec(q(vec![QueryBuilder::insert().nodes().aliases(format!("junk{n}")).query().into()]));
                {
                    let mut raft = server.cluster.raft.write().await;
                    for i in 1..=k {
                        let index = base_index + i;
                        if i < cut {
                            let (sender, receiver): (Notifier, _) = tokio::sync::oneshot::channel();
                            receivers.push(receiver);
                            raft.storage.append(Log { db_id: None, index, term: 1, data: entries[i as usize - 1].1.clone() }, Some(sender)).await.map_err(|e| format!("append: {}", e.description))?;
                        } else {
                            raft.storage.append(Log { db_id: None, index, term: 1, data: junk(i) }, None).await.map_err(|e| format!("append junk: {}", e.description))?;
                        }
                    }
                }
                if p > 0 {
                    server.cluster.raft.write().await.storage.commit(base_index + p).await.map_err(|e| format!("commit: {}", e.description))?;
                    for i in 1..=p {
                        let idx = base_index + i;
                        if !wait_until(FINISH_WAIT_MS, || verif::gate_parked().contains(&idx)).await {
                            notes.push(format!("entry {i} never reached the gate"));
                        }
                        while verif::gate_release(idx) {
                            stats.releases.fetch_add(1, Ordering::Relaxed);
                        }
                        match tokio::time::timeout(Duration::from_millis(FINISH_WAIT_MS), subscription.recv()).await {
                            Ok(Ok(v)) => exec_order.push(v as i64 - base_index as i64),
                            _ => notes.push(format!("entry {i} did not complete")),
                        }
                    }
                }
                {
                    let mut raft = server.cluster.raft.write().await;
                    if mode == "trunc2" {
                        for i in cut..=k {
                            raft.storage.append(Log { db_id: None, index: base_index + i, term: 2, data: junk(100 + i) }, None).await.map_err(|e| format!("append junk: {}", e.description))?;
                        }
                    }
                    for i in cut..=k {
                        let (sender, receiver): (Notifier, _) = tokio::sync::oneshot::channel();
                        receivers.push(receiver);
                        raft.storage.append(Log { db_id: None, index: base_index + i, term: 3, data: entries[i as usize - 1].1.clone() }, Some(sender)).await.map_err(|e| format!("append: {}", e.description))?;
                    }
                    if variant == "two" {
                        raft.storage.commit(base_index + num(4)?).await.map_err(|e| format!("commit: {}", e.description))?;
                    }
                    raft.storage.commit(base_index + k).await.map_err(|e| format!("commit: {}", e.description))?;
                }
                expect_parked = (p + 1..=k).collect();
                if variant == "crash" {
                    if !wait_until(FINISH_WAIT_MS, || verif::gate_parked().len() as u64 >= k - p).await {
                        notes.push(format!("only {:?} reached the gate before the crash", verif::gate_parked()));
                    }
                    return Ok(Err((base_index, notes, exec_order, expect_parked)));
                }
            }
            "one" => {
                server.cluster.raft.write().await.storage.commit(base_index + k).await.map_err(|e| format!("commit: {}", e.description))?;
            }
            "two" => {
                let mut raft = server.cluster.raft.write().await;
                raft.storage.commit(base_index + j).await.map_err(|e| format!("commit: {}", e.description))?;
                raft.storage.commit(base_index + k).await.map_err(|e| format!("commit: {}", e.description))?;
            }
            "restart" => {
                server.cluster.raft.write().await.storage.commit(base_index + j).await.map_err(|e| format!("commit: {}", e.description))?;
                // run the first j in index order to completion
                for i in 1..=j {
                    let idx = base_index + i;
                    if !wait_until(FINISH_WAIT_MS, || verif::gate_arrived().contains(&idx)).await {
                        notes.push(format!("entry {i} never reached the gate before the restart"));
                    }
                    while verif::gate_release(idx) {
                        stats.releases.fetch_add(1, Ordering::Relaxed);
                    }
                    match tokio::time::timeout(Duration::from_millis(FINISH_WAIT_MS), subscription.recv()).await {
                        Ok(Ok(v)) => exec_order.push(v as i64 - base_index as i64),
                        _ => notes.push(format!("entry {i} did not complete before the restart")),
                    }
                }
                // wait for the executed marks: the restart must find them (the mark is written after the notification)
                let log = server.cluster_log.clone();
                let t = Instant::now();
                loop {
                    let un = log.logs_unexecuted(base_index + j).await.map_err(|e| e.description)?;
                    if un.is_empty() || t.elapsed() > Duration::from_millis(FINISH_WAIT_MS) {
                        break;
                    }
                    tokio::time::sleep(Duration::from_micros(200)).await;
                }
                // restart: a new cluster object (new ClusterStorage) over the same log and databases
                let fresh = crate::cluster::new(&server.config, &server.server_db, &server.cluster_log, &server.db_pool).await.map_err(|e| format!("restart: {}", e.description))?;
                server.cluster = fresh;
                subscription = server.cluster.raft.read().await.storage.subscribe().await;
                receivers.clear(); // the notifiers died with the old storage
                server.cluster.raft.write().await.storage.commit(base_index + k).await.map_err(|e| format!("commit: {}", e.description))?;
                expect_parked = (j + 1..=k).collect();
            }
            "crash" => {
                server.cluster.raft.write().await.storage.commit(base_index + k).await.map_err(|e| format!("commit: {}", e.description))?;
                // let every task the commit started reach the gate, then the process dies (see below)
                if !wait_until(FINISH_WAIT_MS, || verif::gate_arrived().len() as u64 >= k).await {
                    notes.push(format!("only {:?} reached the gate before the crash", verif::gate_arrived()));
                }
                return Ok(Err((base_index, notes, vec![], (1..=k).collect())));
            }
            _ => return Err("bad mode".to_string()),
        }

        finish(sc, server, subscription, receivers, exec_order, expect_parked, base_index, notes, stats).await.map(Ok)
    });
    rt.shutdown_timeout(Duration::from_millis(200));
    let r: Result<Result<Obs, (u64, Vec<String>, Vec<i64>, Vec<u64>)>, String> = r;
    let out = match r {
        Err(e) => Err(e),
        Ok(Ok(obs)) => Ok(obs),
        Ok(Err((base_index, notes, exec_before, expect))) => {
            // mode crash: the runtime with every task of the old process is gone; a new process
            // (new runtime, all server components rebuilt from the same data directory) starts.
            // ClusterStorage::new re-executes the committed entries that are not marked executed.
            verif::gate_enable(true);
            let rt2 = rt_multi(4);
            let r2 = rt2.block_on(async {
                let server = Server::start_opts(&data, false).await?;
                let subscription = server.cluster.raft.read().await.storage.subscribe().await;
                finish(sc, server, subscription, vec![], exec_before, expect, base_index, notes, stats).await
            });
            rt2.shutdown_timeout(Duration::from_millis(200));
            r2
        }
    };
    verif::gate_enable(false);
    out
}

/// Releases the parked execution tasks in the scenario's order and observes the outcome.
#[allow(clippy::too_many_arguments)]
async fn finish(
    sc: &Scenario,
    server: Server,
    mut subscription: tokio::sync::broadcast::Receiver<u64>,
    receivers: Vec<tokio::sync::oneshot::Receiver<ServerResult<(u64, ClusterActionResult)>>>,
    mut exec_order: Vec<i64>,
    expect_parked: Vec<u64>,
    base_index: u64,
    notes: Vec<String>,
    stats: &Stats,
) -> Result<Obs, String> {
    let k = sc.k as u64;
    let release_wait_ms = if sc.k <= 3 { RELEASE_WAIT_MS * 2 } else { RELEASE_WAIT_MS };
        // release in the given order; an index that is not parked (a serialising
        // implementation has not started it yet) is retried in later passes
        let (len0, passed0) = (exec_order.len(), verif::gate_passed().len());
        let mut pending: Vec<u64> = sc.order.clone();
        if pending.iter().copied().collect::<std::collections::BTreeSet<_>>() != expect_parked.iter().copied().collect() {
            return Err(format!("release order {:?} does not match the entries to release {:?}", sc.order, expect_parked));
        }
        // give independent tasks the time to all reach the gate (they do at once in the unchanged code)
        let want = pending.len();
        wait_until(release_wait_ms * 3, || verif::gate_parked().len() >= want).await;
        let started = Instant::now();
        while !pending.is_empty() && started.elapsed() < Duration::from_millis(FINISH_WAIT_MS) {
            let parked = verif::gate_parked();
            let Some(pos) = pending.iter().position(|i| parked.contains(&(base_index + i))) else {
                // nothing releasable yet: collect completions, wait a little
                while let Ok(v) = subscription.try_recv() {
                    exec_order.push(v as i64 - base_index as i64);
                }
                tokio::time::sleep(Duration::from_micros(300)).await;
                continue;
            };
            let i = pending.remove(pos);
            // every task parked under this index (a log that holds two entries with one index starts two)
            while verif::gate_release(base_index + i) {
                stats.releases.fetch_add(1, Ordering::Relaxed);
            }
            // wait for THIS entry's completion; if it does not come (it waits for a predecessor) go on
            let t = Instant::now();
            loop {
                match tokio::time::timeout(Duration::from_millis(2), subscription.recv()).await {
                    Ok(Ok(v)) => {
                        exec_order.push(v as i64 - base_index as i64);
                        if v == base_index + i {
                            break;
                        }
                    }
                    Ok(Err(_)) => break,
                    Err(_) => {}
                }
                if t.elapsed() > Duration::from_millis(release_wait_ms) {
                    break;
                }
            }
        }
        // everything released: drain. Done when every task that reached the gate has passed it and
        // completed and at least k completions were seen; tasks that show up late under an index of
        // the entries under test (duplicates) are released as well.
        let t = Instant::now();
        loop {
            for idx in verif::gate_parked() {
                if idx > base_index && idx <= base_index + k {
                    while verif::gate_release(idx) {
                        stats.releases.fetch_add(1, Ordering::Relaxed);
                    }
                }
            }
            while let Ok(v) = subscription.try_recv() {
                exec_order.push(v as i64 - base_index as i64);
            }
            let arrived = verif::gate_arrived().len();
            let passed = verif::gate_passed().len();
            let seen = exec_order.len() - len0;
            if passed == arrived && seen + passed0 >= arrived && exec_order.iter().filter(|i| **i >= 1).count() as u64 >= k {
                // quiescent: give a straggler one more chance to appear
                tokio::time::sleep(Duration::from_millis(2)).await;
                if verif::gate_arrived().len() == arrived && subscription.is_empty() {
                    break;
                }
            }
            if t.elapsed() > Duration::from_millis(FINISH_WAIT_MS) {
                break;
            }
            tokio::time::sleep(Duration::from_micros(300)).await;
        }
        let mut results = vec![];
        for r in receivers {
            results.push(match tokio::time::timeout(Duration::from_millis(FINISH_WAIT_MS), r).await {
                Ok(Ok(Ok(_))) => "ok".to_string(),
                Ok(Ok(Err(e))) => format!("err:{}:{}", e.status.as_u16(), e.description),
                Ok(Err(_)) => "dropped".to_string(),
                Err(_) => "timeout".to_string(),
            });
        }
        // the executed mark is written after the notification
        let t = Instant::now();
        let mut unexecuted: Vec<i64>;
        loop {
            unexecuted = server.cluster_log.logs_unexecuted(base_index + k).await.map_err(|e| e.description)?.iter().map(|l| l.index as i64 - base_index as i64).collect();
            if unexecuted.is_empty() || t.elapsed() > Duration::from_millis(200) {
                break;
            }
            tokio::time::sleep(Duration::from_micros(300)).await;
        }
        verif::gate_enable(false);
        let state = server.observe().await?;
        server.stop();
        Ok(Obs { exec_order, results, unexecuted, state, notes })
}

fn scenarios_for(set: &str, k: usize) -> Vec<Scenario> {
    let all: Vec<u64> = (1..=k as u64).collect();
    let mut out = vec![];
    for order in permutations(&all) {
        out.push(Scenario { set: set.to_string(), k, mode: "one".to_string(), order: order.clone() });
        out.push(Scenario { set: set.to_string(), k, mode: "crash".to_string(), order: order.clone() });
        for j in 1..k {
            out.push(Scenario { set: set.to_string(), k, mode: format!("two:{j}"), order: order.clone() });
        }
    }
    for j in 1..k {
        let rest: Vec<u64> = (j as u64 + 1..=k as u64).collect();
        for order in permutations(&rest) {
            out.push(Scenario { set: set.to_string(), k, mode: format!("restart:{j}"), order });
        }
    }
    out
}

/// Histories in which uncommitted entries are overwritten (see run_scenario, "trunc").
fn trunc_scenarios(set: &str, k: usize, all_variants_for_trunc2: bool) -> Vec<Scenario> {
    let mut out = vec![];
    for p in 0..k {
        let rest: Vec<u64> = (p as u64 + 1..=k as u64).collect();
        for cut in p + 1..=k {
            let mut variants = vec!["one".to_string(), "crash".to_string()];
            if all_variants_for_trunc2 {
                // thorough only: the two-commit splits
                for j in p + 1..k {
                    variants.push(format!("two:{j}"));
                }
            }
            for order in permutations(&rest) {
                for v in &variants {
                    out.push(Scenario { set: set.to_string(), k, mode: format!("trunc:{p}:{cut}:{v}"), order: order.clone() });
                    if all_variants_for_trunc2 || v == "one" {
                        out.push(Scenario { set: set.to_string(), k, mode: format!("trunc2:{p}:{cut}:{v}"), order: order.clone() });
                    }
                }
            }
        }
    }
    out
}

fn mode_kind(mode: &str) -> &str {
    mode.split(':').next().unwrap_or(mode)
}

/// Checks one observation against the in-order reference; returns (clause, what) per failed clause.
fn judge(sc: &Scenario, obs: &Obs, reference: &Obs) -> Vec<(String, String)> {
    let k = sc.k as i64;
    let mut out = vec![];
    let mut counts = std::collections::BTreeMap::new();
    for i in &obs.exec_order {
        *counts.entry(*i).or_insert(0u64) += 1;
    }
    let missing: Vec<i64> = (1..=k).filter(|i| !counts.contains_key(i)).collect();
    // an index <= 0 is an entry that had been executed before the entries under test were appended
    let repeated: Vec<i64> = counts.iter().filter(|(i, c)| **c > 1 || **i < 1).map(|(i, _)| *i).collect();
    if !missing.is_empty() || !obs.unexecuted.is_empty() {
        out.push(("never-executed".to_string(), format!("committed entries {missing:?} were never executed (still marked unexecuted: {:?}); completion order {:?}", obs.unexecuted, obs.exec_order)));
    }
    if !repeated.is_empty() {
        out.push(("executed-twice".to_string(), format!("committed entries {repeated:?} were executed more than once (indexes relative to the first entry under test); completion order {:?}", obs.exec_order)));
    }
    if missing.is_empty() && repeated.is_empty() {
        let sorted: Vec<i64> = (1..=k).collect();
        if obs.exec_order != sorted {
            out.push(("exec-order".to_string(), format!("entries committed together were executed in the order {:?} when their tasks were scheduled in the order {:?}; log order is {:?}", obs.exec_order, sc.order, sorted)));
        }
    }
    if obs.state != reference.state {
        out.push(("final-state".to_string(), format!("final server state differs from the in-order run (results {:?} vs in-order {:?})", obs.results, reference.results)));
    }
    out
}

pub(crate) fn run(args: &Args) -> i32 {
    let report = Report::new(args, "model_checking");
    let scratch = Scratch::new("c31");
    // base directory: data dir three levels inside the scratch dir, admin created once
    let root = scratch.path("w");
    let data = format!("{root}/a/b/data");
    {
        let rt = rt_multi(2);
        rt.block_on(async {
            let s = Server::start_opts(&data, false).await.unwrap_or_else(|e| engine::machinery_failure(&e));
            s.stop();
        });
        rt.shutdown_timeout(Duration::from_millis(200));
    }
    let base = Snapshot::take(&root);
    let stats = Stats { scenarios: AtomicU64::new(0), releases: AtomicU64::new(0) };

    if let Some(path) = &args.replay {
        let doc = crate::vh::world::replay_doc(path);
        let sc = Scenario::from_json(&doc);
        let mut reference_sc = sc.clone();
        if sc.mode.starts_with("trunc") {
            reference_sc.mode = "one".to_string();
            reference_sc.order = (1..=sc.k as u64).collect();
        }
        reference_sc.order.sort();
        let reference = run_scenario(&reference_sc, &base, &scratch, &stats).unwrap_or_else(|e| engine::machinery_failure(&e));
        let obs = run_scenario(&sc, &base, &scratch, &stats).unwrap_or_else(|e| engine::machinery_failure(&e));
        println!("replay {}: completion order {:?}, results {:?}", sc.to_json(), obs.exec_order, obs.results);
        for (clause, what) in judge(&sc, &obs, &reference) {
            report.violation(&format!("c31|mode={}|clause={clause}", mode_kind(&sc.mode)), &what, sc.to_json());
        }
        report.set("states", json!(1));
        report.set("transitions", json!(stats.releases.load(Ordering::Relaxed)));
        report.set("traces_validated_against_impl", json!(stats.scenarios.load(Ordering::Relaxed)));
        report.sample(json!({"scenario": sc.to_json(), "observed": obs.to_json()}));
        return report.finish();
    }

    let max_k = match args.tier {
        Tier::Quick => QUICK_MAX_K,
        Tier::Thorough => THOROUGH_MAX_K,
    };
    let max_trunc_k = match args.tier {
        Tier::Quick => 3,
        Tier::Thorough => 4,
    };
    let states = DistinctCounter::default();
    let outcomes = DistinctCounter::default();
    let mut per_k = serde_json::Map::new();
    for set in ["S1", "S2"] {
        for k in 2..=max_k {
            let mut list = scenarios_for(set, k);
            if set == "S2" && k <= max_trunc_k {
                list.extend(trunc_scenarios(set, k, args.tier == Tier::Thorough));
            }
            let mut references: std::collections::BTreeMap<String, Obs> = Default::default();
            let mut n = 0u64;
            for sc in &list {
                n += 1;
                let ref_mode = if sc.mode.starts_with("trunc") { "one".to_string() } else { sc.mode.clone() };
                if !references.contains_key(&ref_mode) {
                    let mut r = sc.clone();
                    r.mode = ref_mode.clone();
                    r.order = (1..=k as u64).collect();
                    r.order.retain(|i| ref_mode == "one" || sc.order.contains(i));
                    r.order.sort();
                    let o = run_scenario(&r, &base, &scratch, &stats).unwrap_or_else(|e| engine::machinery_failure(&format!("reference run {}: {e}", r.to_json())));
                    // the in-order run must itself be well-behaved, else there is no reference
                    let sorted: Vec<i64> = (1..=k as i64).collect();
                    if o.exec_order != sorted || !o.unexecuted.is_empty() {
                        report.violation(
                            &format!("c31|mode={}|clause=in-order-run", mode_kind(&sc.mode)),
                            &format!("even with the tasks scheduled in index order the completion order is {:?}, unexecuted {:?}", o.exec_order, o.unexecuted),
                            r.to_json(),
                        );
                    }
                    references.insert(ref_mode.clone(), o);
                }
                let reference = &references[&ref_mode];
                let obs = run_scenario(sc, &base, &scratch, &stats).unwrap_or_else(|e| engine::machinery_failure(&format!("scenario {}: {e}", sc.to_json())));
                states.insert(obs.state.to_string().as_bytes());
                outcomes.insert(format!("{:?}|{:?}|{}", obs.exec_order, obs.results, obs.state).as_bytes());
                if n <= 2 && k == max_k {
                    report.sample(json!({"scenario": sc.to_json(), "entries": action_set(set).1.iter().take(k).map(|e| e.0).collect::<Vec<_>>(), "completion_order": obs.exec_order, "results": obs.results}));
                }
                let failed = judge(sc, &obs, reference);
                if !failed.is_empty() {
                    // replay twice. Identical observations: report as judged. Different observations:
                    // if EVERY execution violates the oracle the scenario is a violation all the same
                    // (the subject, not the harness, is nondeterministic: reported under the clauses
                    // common to all executions, else under clause=unstable); if some execution is
                    // clean the harness cannot decide: machinery failure.
                    let o2 = run_scenario(sc, &base, &scratch, &stats).unwrap_or_else(|e| engine::machinery_failure(&e));
                    let o3 = run_scenario(sc, &base, &scratch, &stats).unwrap_or_else(|e| engine::machinery_failure(&e));
                    let (f2, f3) = (judge(sc, &o2, reference), judge(sc, &o3, reference));
                    if o2 == obs && o3 == obs {
                        for (clause, what) in failed {
                            report.violation(&format!("c31|mode={}|clause={clause}", mode_kind(&sc.mode)), &what, sc.to_json());
                        }
                    } else if f2.is_empty() || f3.is_empty() {
                        engine::machinery_failure(&format!(
                            "scenario {} does not reproduce and one execution satisfies the oracle: {:?}/{:?} then {:?}/{:?} then {:?}/{:?}",
                            sc.to_json(), obs.exec_order, obs.results, o2.exec_order, o2.results, o3.exec_order, o3.results
                        ));
                    } else {
                        let common: Vec<&(String, String)> = failed.iter().filter(|(c, _)| f2.iter().any(|x| x.0 == *c) && f3.iter().any(|x| x.0 == *c)).collect();
                        let note = format!(" [three executions gave completion orders {:?}, {:?}, {:?}; all violate]", obs.exec_order, o2.exec_order, o3.exec_order);
                        if common.is_empty() {
                            report.violation(&format!("c31|mode={}|clause=unstable", mode_kind(&sc.mode)), &format!("every execution violates the oracle, each in a different clause{note}"), sc.to_json());
                        }
                        for (clause, what) in common {
                            report.violation(&format!("c31|mode={}|clause={clause}", mode_kind(&sc.mode)), &format!("{what}{note}"), sc.to_json());
                        }
                    }
                }
            }
            per_k.insert(format!("{set}_k{k}"), json!(list.len()));
        }
    }
    report.set("states", json!(states.len()));
    report.set("transitions", json!(stats.releases.load(Ordering::Relaxed)));
    report.set("traces_validated_against_impl", json!(stats.scenarios.load(Ordering::Relaxed)));
    report.set("distinct_outcomes", json!(outcomes.len()));
    report.set("exhaustive", json!(true));
    report.set("max_k", json!(max_k));
    report.set("max_k_truncation_histories", json!(max_trunc_k));
    report.set("scenarios_per_set_and_k", Value::Object(per_k));
    report.set("release_wait_ms", json!(RELEASE_WAIT_MS));
    report.set("what", json!("for 2 action sets and every k in 2..=max_k: all k! release orders of the k execution tasks for modes one-commit, two-commits (every split), crash-before-execution+restart, and all (k-j)! orders after restart with j entries executed; states = distinct final server states, transitions = task releases, traces = complete scenario executions on the real ClusterStorage (including reference and confirmation runs)"));
    report.assume("schedules are enumerated at task-start granularity (the gate is the first statement of each spawned execution task), not at every await inside an action");
    report.assume("a task released out of index order is a schedule tokio's multi-threaded runtime can produce for independent spawned tasks");
    report.finish()
}
