//! Harness modules of the server checks. This directory is linked into the
//! symlink mirror of `/repo/agdb_server/src` as module `vh`, so everything in
//! here is compiled as part of the (mirrored) server crate and can use its
//! `pub(crate)` items: `app::app`, `ServerDb`, `DbPool`, `ClusterStorage`, ...
//!
//! `server_checks <C24|C25|C26|C31|conformance|smoke> [--tier quick|thorough] [--replay file]`

pub(crate) mod c24;
pub(crate) mod c25;
pub(crate) mod c26;
pub(crate) mod c31;
pub(crate) mod conformance;
pub(crate) mod lab;
pub(crate) mod refdb;
pub(crate) mod world;

pub(crate) fn main() {
    let args = engine::parse_args();
    engine::install_quiet_panic_hook();
    let r = engine::catch(|| match args.property.as_str() {
        "C24" => c24::run(&args),
        "C25" => c25::run(&args),
        "C26" => c26::run(&args),
        "C31" => c31::run(&args),
        "conformance" => conformance::run(&args),
        "smoke" => world::smoke(),
        other => engine::machinery_failure(&format!("unknown check {other}")),
    });
    match r {
        Ok(code) => std::process::exit(code),
        Err(p) => engine::machinery_failure(&format!("harness panic: {} at {}", p.message, p.location)),
    }
}
