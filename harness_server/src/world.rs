//! The in-process server: the real `app::app` router over real
//! `ServerDb`/`DbPool`/`ClusterLog`/`ClusterStorage` on a scratch data
//! directory, driven with `tower::ServiceExt::oneshot` (no sockets; a single
//! node cluster, i.e. leader, commit on append, spawned execution, result
//! notifier). Plus: snapshots of the data directory (so that PBKDF2 is paid
//! once per base world, not per sequence), observation of the "world" through
//! the server's own accessors, and the file tree under the scratch directory.

use crate::cluster::Cluster;
use crate::cluster_log::ClusterLog;
use crate::config::Config;
use crate::db_pool::DbPool;
use crate::server_db::ServerDb;
use agdb::QueryBuilder;
use agdb_api::Queries;
use axum::body::Body;
use axum::http::Request;
use http_body_util::BodyExt;
use serde_json::{Value, json};
use std::collections::BTreeMap;
use std::path::Path;
use std::sync::Arc;
use tokio::sync::broadcast;
use tower::ServiceExt;

pub(crate) const API: &str = "/api/v1";

pub(crate) struct Server {
    pub(crate) config: Config,
    /// None when started without the HTTP layer (C31, conformance)
    pub(crate) router: Option<axum::Router>,
    pub(crate) server_db: ServerDb,
    pub(crate) db_pool: DbPool,
    pub(crate) cluster: Cluster,
    pub(crate) cluster_log: ClusterLog,
    pub(crate) shutdown: broadcast::Sender<()>,
}

#[derive(Clone, Debug)]
pub(crate) struct Resp {
    pub(crate) status: u16,
    pub(crate) body: Vec<u8>,
}

impl Resp {
    pub(crate) fn text(&self) -> String {
        String::from_utf8_lossy(&self.body).to_string()
    }
    pub(crate) fn json(&self) -> Value {
        serde_json::from_slice(&self.body).unwrap_or(Value::Null)
    }
    pub(crate) fn ok(&self) -> bool {
        (200..300).contains(&self.status)
    }
}

pub(crate) fn rt_current() -> tokio::runtime::Runtime {
    tokio::runtime::Builder::new_current_thread()
        .enable_all()
        .build()
        .unwrap_or_else(|e| engine::machinery_failure(&format!("tokio runtime: {e}")))
}

pub(crate) fn rt_multi(threads: usize) -> tokio::runtime::Runtime {
    tokio::runtime::Builder::new_multi_thread()
        .worker_threads(threads)
        .enable_all()
        .build()
        .unwrap_or_else(|e| engine::machinery_failure(&format!("tokio runtime: {e}")))
}

pub(crate) fn make_config(data_dir: &str) -> Result<Config, String> {
    // parsed by the server's own config reader; everything else = server defaults
    let text = format!("data_dir: {data_dir}\nlog_level: off\ntoken_expiry_seconds: 86400\n");
    let mut c = crate::config::from_str(&text)?;
    c.start_time = 1;
    Ok(Config::new(c))
}

impl Server {
    /// The construction sequence of the repository's `main.rs`, minus the listener.
    pub(crate) async fn start(data_dir: &str) -> Result<Server, String> {
        Self::start_opts(data_dir, true).await
    }

    pub(crate) async fn start_opts(data_dir: &str, with_router: bool) -> Result<Server, String> {
        let t = std::time::Instant::now();
        let prof = std::env::var("VERIF_PROFILE").is_ok();
        macro_rules! lap { ($n:expr) => { if prof { eprintln!("  {} {:?}", $n, t.elapsed()); } } }
        let config = make_config(data_dir)?;
        crate::logger::init(config.log_level);
        crate::password::init(config.pepper);
        let (shutdown, _rx) = broadcast::channel::<()>(1);
        let server_db = crate::server_db::new(&config, shutdown.subscribe()).await.map_err(|e| format!("server_db::new: {}", e.description))?;
        lap!("server_db");
        let cluster_log = crate::cluster_log::new(&config).await.map_err(|e| format!("cluster_log::new: {}", e.description))?;
        crate::cluster_log::migrate_from_server_db(&server_db, &cluster_log).await.map_err(|e| format!("migrate: {}", e.description))?;
        lap!("cluster_log");
        let db_pool = crate::db_pool::new(config.clone(), &server_db).await.map_err(|e| format!("db_pool::new: {}", e.description))?;
        lap!("db_pool");
        let cluster = crate::cluster::new(&config, &server_db, &cluster_log, &db_pool).await.map_err(|e| format!("cluster::new: {}", e.description))?;
        lap!("cluster");
        let router = if with_router {
            Some(crate::app::app(cluster.clone(), config.clone(), db_pool.clone(), server_db.clone(), shutdown.clone()).map_err(|e| format!("app: {}", e.description))?)
        } else {
            None
        };
        lap!("app");
        Ok(Server { config, router, server_db, db_pool, cluster, cluster_log, shutdown })
    }

    /// `uri` is the raw request target below /api/v1 (already percent-encoded).
    pub(crate) async fn call(&self, method: &str, uri: &str, token: Option<&str>, body: Option<&Value>) -> Resp {
        let auth = token.map(|t| format!("Bearer {t}"));
        self.call_auth(method, uri, auth.as_deref(), body).await
    }

    /// `auth` is the complete value of the Authorization header.
    pub(crate) async fn call_auth(&self, method: &str, uri: &str, auth: Option<&str>, body: Option<&Value>) -> Resp {
        let mut b = Request::builder().method(method).uri(format!("{API}{uri}"));
        if let Some(a) = auth {
            b = b.header("authorization", a);
        }
        let req = match body {
            Some(j) => b.header("content-type", "application/json").body(Body::from(serde_json::to_vec(j).unwrap())),
            None => b.body(Body::empty()),
        };
        let req = match req {
            Ok(r) => r,
            // not a request an HTTP client could send (e.g. raw control character in the target)
            Err(e) => return Resp { status: 0, body: format!("unrepresentable request: {e}").into_bytes() },
        };
        let Some(router) = &self.router else {
            return Resp { status: 0, body: b"server started without router".to_vec() };
        };
        let resp = match router.clone().oneshot(req).await {
            Ok(r) => r,
            Err(e) => match e {},
        };
        let status = resp.status().as_u16();
        let body = match resp.into_body().collect().await {
            Ok(b) => b.to_bytes().to_vec(),
            Err(e) => format!("<body error {e}>").into_bytes(),
        };
        Resp { status, body }
    }

    /// Fast world reset: keeps the (expensive, 87 ms) router and makes the state
    /// handles it is bound to point at a world restored from `snapshot`:
    /// the `Db` values inside the `ServerDb`/`ClusterLog` locks are swapped for
    /// ones opened by the server's own constructors on the restored files, the
    /// pool is emptied (by name: `pool_names` lists every database name the
    /// alphabet can create) and refilled from the restored server db, and the
    /// raft cluster inside the lock is replaced by the one of a new
    /// `cluster::new` (new `ClusterStorage`). Everything is bound to the full
    /// restart by `Lab::selfcheck` (identical outcomes for every alphabet
    /// request) and by confirming every violation on a freshly started server.
    pub(crate) async fn reset(&mut self, root: &str, snapshot: &Snapshot, pool_names: &[(String, String)]) -> Result<(), String> {
        let t = std::time::Instant::now();
        let prof = std::env::var("VERIF_PROFILE").is_ok();
        macro_rules! lap { ($n:expr) => { if prof { eprintln!("  reset:{} {:?}", $n, t.elapsed()); } } }
        for (o, n) in pool_names {
            let _ = self.db_pool.remove_db(o, n).await;
        }
        lap!("pool-emptied");
        snapshot.restore(root);
        lap!("files-restored");
        let (tx, _rx) = broadcast::channel::<()>(1);
        let fresh_db = crate::server_db::new(&self.config, tx.subscribe()).await.map_err(|e| format!("server_db::new: {}", e.description))?;
        {
            let mut a = self.server_db.db.write().await;
            let mut b = fresh_db.db.write().await;
            std::mem::swap(&mut *a, &mut *b);
        }
        let _ = tx.send(()); // ends the clean-up task of the temporary handle (it holds the old Db)
        drop(fresh_db);
        lap!("server-db");
        let fresh_log = crate::cluster_log::new(&self.config).await.map_err(|e| format!("cluster_log::new: {}", e.description))?;
        {
            let mut a = self.cluster_log.0.write().await;
            let mut b = fresh_log.0.write().await;
            std::mem::swap(&mut *a, &mut *b);
        }
        drop(fresh_log);
        lap!("cluster-log");
        for d in self.server_db.dbs().await.map_err(|e| format!("dbs: {}", e.description))? {
            self.db_pool.add_db(&d.owner, &d.db, d.db_type).await.map_err(|e| format!("pool add {}/{}: {}", d.owner, d.db, e.description))?;
        }
        lap!("pool-filled");
        let fresh = crate::cluster::new(&self.config, &self.server_db, &self.cluster_log, &self.db_pool).await.map_err(|e| format!("cluster::new: {}", e.description))?;
        let fresh = Arc::try_unwrap(fresh).map_err(|_| "fresh cluster is shared".to_string())?;
        let raft = Arc::try_unwrap(fresh.raft).map_err(|_| "fresh raft is shared".to_string())?.into_inner();
        *self.cluster.raft.write().await = raft;
        tokio::task::yield_now().await;
        lap!("cluster");
        Ok(())
    }

    pub(crate) fn stop(&self) {
        let _ = self.shutdown.send(());
    }

    /// Rewrite the stored expiry of a token (the server compares it with the wall clock).
    pub(crate) async fn set_token_expiry(&self, token: &str, expires_at: u64) -> Result<(), String> {
        let r = self
            .server_db
            .db
            .write()
            .await
            .exec_mut(QueryBuilder::insert().values_uniform([("expires_at", expires_at).into()]).search().index("token").value(token).query())
            .map_err(|e| e.description)?;
        if r.result == 0 {
            return Err("token not stored".to_string());
        }
        Ok(())
    }

    /// Everything C24/C25 call "the observable world": users (with the number of
    /// live sessions), every database with its roles per user, its complete
    /// content and its audit log. Timestamps are dropped; lists are sorted.
    pub(crate) async fn observe(&self) -> Result<Value, String> {
        let mut users = vec![];
        for u in self.server_db.user_statuses().await.map_err(|e| format!("user_statuses: {}", e.description))? {
            users.push(json!({"name": u.username, "admin": u.admin, "sessions": u.sessions.len()}));
        }
        users.sort_by_key(|u| u["name"].as_str().unwrap_or("").to_string());
        let mut dbs = vec![];
        for d in self.server_db.dbs().await.map_err(|e| format!("dbs: {}", e.description))? {
            let id = d.db_id.unwrap_or_default();
            let mut roles: Vec<(String, String)> = self
                .server_db
                .db_users(id)
                .await
                .map_err(|e| format!("db_users: {}", e.description))?
                .into_iter()
                .map(|u| (u.username, format!("{:?}", u.role).to_lowercase()))
                .collect();
            roles.sort();
            let dump = self.dump(&d.owner, &d.db).await;
            let audit = self.audit(&d.owner, &d.db).await;
            dbs.push(json!({
                "owner": d.owner, "db": d.db, "type": format!("{:?}", d.db_type).to_lowercase(),
                "has_backup": d.backup != 0, "roles": roles, "dump": dump, "audit": audit,
            }));
        }
        dbs.sort_by_key(|d| (d["owner"].as_str().unwrap_or("").to_string(), d["db"].as_str().unwrap_or("").to_string()));
        Ok(json!({"users": users, "dbs": dbs}))
    }

    /// Complete content of one database through the pool: all elements with all
    /// values, all aliases, all indexes.
    pub(crate) async fn dump(&self, owner: &str, db: &str) -> Value {
        let q = Queries(vec![
            QueryBuilder::select().search().elements().query().into(),
            QueryBuilder::select().aliases().query().into(),
            QueryBuilder::select().indexes().query().into(),
            QueryBuilder::select().node_count().query().into(),
        ]);
        match self.db_pool.exec(owner, db, q).await {
            Ok(r) => {
                let mut v = serde_json::to_value(&r).unwrap_or(Value::Null);
                // aliases are reported in hash order
                if let Some(a) = v.get_mut(1).and_then(|x| x.get_mut("elements")).and_then(|x| x.as_array_mut()) {
                    a.sort_by_key(|e| e.to_string());
                }
                // the index list is a set: its listing order is not part of the content (a rolled-back
                // `remove index` re-adds the index at the end of the list)
                if let Some(a) = v.get_mut(2).and_then(|x| x.get_mut("elements")).and_then(|x| x.get_mut(0)).and_then(|x| x.get_mut("values")).and_then(|x| x.as_array_mut()) {
                    a.sort_by_key(|e| e.to_string());
                }
                v
            }
            Err(e) => json!({"error": e.description}),
        }
    }

    /// Audit log of one database: (user, query) in file order; timestamps dropped.
    pub(crate) async fn audit(&self, owner: &str, db: &str) -> Value {
        match self.db_pool.audit(owner, db).await {
            Ok(a) => Value::Array(a.0.iter().map(|q| json!({"user": q.username, "query": serde_json::to_value(&q.query).unwrap_or(Value::Null)})).collect()),
            Err(e) => json!({"error": e.description}),
        }
    }
}

// ---------------------------------------------------------------------------
// percent-encoding of one path segment / query value

pub(crate) fn enc(s: &str) -> String {
    let mut out = String::new();
    for b in s.bytes() {
        if b.is_ascii_alphanumeric() || matches!(b, b'.' | b'_' | b'-' | b'~') {
            out.push(b as char);
        } else {
            out.push_str(&format!("%{b:02X}"));
        }
    }
    out
}

// ---------------------------------------------------------------------------
// directory snapshots and file trees

/// relative path -> None (directory) | Some(bytes)
#[derive(Clone, Default)]
pub(crate) struct Snapshot(pub(crate) BTreeMap<String, Option<Vec<u8>>>);

fn walk(root: &Path, rel: &str, out: &mut BTreeMap<String, Option<Vec<u8>>>) {
    let dir = if rel.is_empty() { root.to_path_buf() } else { root.join(rel) };
    let Ok(rd) = std::fs::read_dir(&dir) else { return };
    for e in rd.flatten() {
        let name = e.file_name().to_string_lossy().to_string();
        let r = if rel.is_empty() { name } else { format!("{rel}/{name}") };
        let p = e.path();
        let Ok(md) = std::fs::symlink_metadata(&p) else { continue };
        if md.is_dir() {
            out.insert(r.clone(), None);
            walk(root, &r, out);
        } else {
            out.insert(r, Some(std::fs::read(&p).unwrap_or_default()));
        }
    }
}

impl Snapshot {
    pub(crate) fn take(root: &str) -> Snapshot {
        let mut m = BTreeMap::new();
        walk(Path::new(root), "", &mut m);
        Snapshot(m)
    }

    /// Make `root` contain exactly this snapshot.
    pub(crate) fn restore(&self, root: &str) {
        let _ = std::fs::remove_dir_all(root);
        std::fs::create_dir_all(root).unwrap_or_else(|e| engine::machinery_failure(&format!("restore {root}: {e}")));
        for (rel, content) in &self.0 {
            let p = Path::new(root).join(rel);
            match content {
                None => std::fs::create_dir_all(&p).unwrap_or_else(|e| engine::machinery_failure(&format!("restore {rel}: {e}"))),
                Some(b) => std::fs::write(&p, b).unwrap_or_else(|e| engine::machinery_failure(&format!("restore {rel}: {e}"))),
            }
        }
    }

    /// path -> "dir" | "file:<len>:<fnv>"
    pub(crate) fn tree(&self) -> BTreeMap<String, String> {
        self.0
            .iter()
            .map(|(k, v)| {
                (
                    k.clone(),
                    match v {
                        None => "dir".to_string(),
                        Some(b) => format!("file:{}:{:016x}", b.len(), engine::fnv(b)),
                    },
                )
            })
            .collect()
    }
}

pub(crate) fn file_tree(root: &str) -> BTreeMap<String, String> {
    Snapshot::take(root).tree()
}

/// (created, changed, deleted) paths between two trees
pub(crate) fn tree_diff(before: &BTreeMap<String, String>, after: &BTreeMap<String, String>) -> (Vec<String>, Vec<String>, Vec<String>) {
    let mut created = vec![];
    let mut changed = vec![];
    let mut deleted = vec![];
    for (k, v) in after {
        match before.get(k) {
            None => created.push(k.clone()),
            Some(b) if b != v => changed.push(k.clone()),
            _ => {}
        }
    }
    for k in before.keys() {
        if !after.contains_key(k) {
            deleted.push(k.clone());
        }
    }
    (created, changed, deleted)
}

// ---------------------------------------------------------------------------
// helpers shared by the checks

pub(crate) const PASSWORD: &str = "password123";

/// admin token by logging in (PBKDF2: ~24 ms)
pub(crate) async fn login(s: &Server, user: &str, password: &str) -> Result<String, String> {
    let r = s.call("POST", "/user/login", None, Some(&json!({"username": user, "password": password}))).await;
    if r.status != 200 {
        return Err(format!("login {user}: {} {}", r.status, r.text()));
    }
    r.json().as_str().map(|s| s.to_string()).ok_or_else(|| "login: no token".to_string())
}

pub(crate) async fn must(s: &Server, method: &str, uri: &str, token: &str, body: Option<&Value>) -> Result<Resp, String> {
    let r = s.call(method, uri, Some(token), body).await;
    if !r.ok() {
        return Err(format!("set-up request {method} {uri} failed: {} {}", r.status, r.text()));
    }
    Ok(r)
}

pub(crate) fn replay_doc(path: &str) -> Value {
    let text = std::fs::read_to_string(path).unwrap_or_else(|e| engine::machinery_failure(&format!("{path}: {e}")));
    let v: Value = serde_json::from_str(&text).unwrap_or_else(|e| engine::machinery_failure(&format!("{path}: {e}")));
    if v.get("replay").is_some() { v["replay"].clone() } else { v }
}

/// Smoke test of the seam: start, login, user add, db add, exec_mut, audit.
pub(crate) fn smoke() -> i32 {
    let scratch = engine::Scratch::new("smoke");
    let data = scratch.path("a/b/data");
    let rt = rt_current();
    let t0 = std::time::Instant::now();
    let r: Result<(), String> = rt.block_on(async {
        let s = Server::start(&data).await?;
        println!("start: {:?}", t0.elapsed());
        let t = std::time::Instant::now();
        let admin = login(&s, "admin", "admin").await?;
        println!("login: {:?}", t.elapsed());
        must(&s, "POST", "/admin/user/usr1/add", &admin, Some(&json!({"password": PASSWORD}))).await?;
        let u1 = login(&s, "usr1", PASSWORD).await?;
        let t = std::time::Instant::now();
        must(&s, "POST", "/db/usr1/db1/add?db_type=mapped", &u1, None).await?;
        println!("db add: {:?}", t.elapsed());
        let q = Queries(vec![QueryBuilder::insert().nodes().aliases("root").values([[("k", 1).into()]]).query().into()]);
        let t = std::time::Instant::now();
        let r = must(&s, "POST", "/db/usr1/db1/exec_mut", &u1, Some(&serde_json::to_value(&q).unwrap())).await?;
        println!("exec_mut: {:?} -> {}", t.elapsed(), r.text());
        let r = must(&s, "GET", "/db/usr1/db1/audit", &u1, None).await?;
        println!("audit: {}", r.text());
        let t = std::time::Instant::now();
        println!("observe: {}", s.observe().await?);
        println!("observe took {:?}", t.elapsed());
        s.stop();
        Ok(())
    });
    drop(rt);
    if let Err(e) = r {
        engine::machinery_failure(&e);
    }
    let t = std::time::Instant::now();
    let snap = Snapshot::take(&scratch.path("a"));
    println!("tree: {:?}", snap.tree());
    snap.restore(&scratch.path("a"));
    println!("snapshot+restore: {:?}", t.elapsed());
    let rt = rt_current();
    let t = std::time::Instant::now();
    rt.block_on(async {
        let s = Server::start(&data).await.unwrap_or_else(|e| engine::machinery_failure(&e));
        println!("restart: {:?}", t.elapsed());
        println!("observe: {}", s.observe().await.unwrap_or_default());
    });
    0
}
