//! `server_checks conformance` - binds the Raft harness's in-memory
//! MirrorStorage to the real log storage (`ClusterStorage` over `ClusterLog`).
//!
//! If /verif/harness_raft/mirror_traces.json exists, every trace in it (a list
//! of storage calls with the mirror's answers after each call) is replayed
//! against the real storage on a scratch data directory and compared after
//! every call. Otherwise (or with `--generate`) all call sequences of length <= 4 over
//! append(index 1..3, term 1..2) / commit(index 0..3) are generated and the
//! real storage's answers are written, in the same format, to
//! /verif/harness_server/real_storage_traces.json.
//!
//! Format: {"format":1,"traces":[{"calls":[
//!   {"op":"append","index":1,"term":1,"data":7,"after":{"log_index":1,"log_term":1,"log_commit":0,
//!        "logs":{"0":[[1,1,7]],"1":[[1,1,7]],"2":[[1,1,7]]}}},
//!   {"op":"commit","index":1,"after":{...}} ]}]}
//! "logs" maps from_index (decimal) to the list of [index, term, data] that
//! logs(from_index) returns. `data` is a small integer; it is stored in the
//! real log as the cluster action UserAdd{user: "u<data>"}.

use crate::action::ClusterAction;
use crate::action::user_add::UserAdd;
use crate::raft::{Log, Storage};
use crate::vh::world::{Server, Snapshot, rt_current};
use engine::{Args, Scratch};
use serde_json::{Value, json};
use std::sync::Mutex;
use std::sync::atomic::{AtomicU64, Ordering};

const MIRROR_TRACES: &str = "/verif/harness_raft/mirror_traces.json";
const REAL_TRACES: &str = "/verif/harness_server/real_storage_traces.json";

#[derive(Clone, Debug)]
enum Call {
    Append { index: u64, term: u64, data: u64 },
    Commit { index: u64 },
}

fn action_of(data: u64) -> ClusterAction {
    UserAdd { user: format!("u{data}"), password: vec![1; 32], salt: vec![2; 16] }.into()
}

fn data_of(a: &ClusterAction) -> Value {
    match a {
        ClusterAction::UserAdd(u) => u.user.strip_prefix('u').and_then(|s| s.parse::<u64>().ok()).map(|d| json!(d)).unwrap_or(json!(u.user)),
        _ => json!("?"),
    }
}

fn parse_call(v: &Value) -> Option<Call> {
    match v["op"].as_str()? {
        "append" => Some(Call::Append { index: v["index"].as_u64()?, term: v["term"].as_u64()?, data: v["data"].as_u64().unwrap_or(0) }),
        "commit" => Some(Call::Commit { index: v["index"].as_u64()? }),
        _ => None,
    }
}

fn call_json(c: &Call) -> Value {
    match c {
        Call::Append { index, term, data } => json!({"op": "append", "index": index, "term": term, "data": data}),
        Call::Commit { index } => json!({"op": "commit", "index": index}),
    }
}

/// Runs the calls against a real storage on a restored base directory; returns the answers after every call.
fn real_answers(base: &Snapshot, scratch: &Scratch, calls: &[Call], froms: &[Vec<u64>]) -> Result<Vec<Value>, String> {
    let root = scratch.path("w");
    base.restore(&root);
    let data = format!("{root}/a/b/data");
    let rt = rt_current();
    let r = rt.block_on(async {
        let server = Server::start_opts(&data, false).await?;
        let mut out = vec![];
        for (n, c) in calls.iter().enumerate() {
            let mut raft = server.cluster.raft.write().await;
            match c {
                Call::Append { index, term, data } => raft.storage.append(Log { db_id: None, index: *index, term: *term, data: action_of(*data) }, None).await.map_err(|e| format!("append: {}", e.description))?,
                Call::Commit { index } => raft.storage.commit(*index).await.map_err(|e| format!("commit: {}", e.description))?,
            }
            let mut logs = serde_json::Map::new();
            // which from_index values to ask for: the ones the trace lists, else 0..=count+1
            let count = raft.storage.logs(0).await.map_err(|e| format!("logs: {}", e.description))?.len() as u64;
            let wanted: Vec<u64> = if froms.get(n).map(|f| !f.is_empty()).unwrap_or(false) { froms[n].clone() } else { (0..=count + 1).collect() };
            for from in wanted {
                let l = raft.storage.logs(from).await.map_err(|e| format!("logs({from}): {}", e.description))?;
                logs.insert(from.to_string(), Value::Array(l.iter().map(|x| json!([x.index, x.term, data_of(&x.data)])).collect()));
            }
            out.push(json!({"log_index": raft.storage.log_index(), "log_term": raft.storage.log_term(), "log_commit": raft.storage.log_commit(), "logs": Value::Object(logs)}));
            drop(raft);
            tokio::task::yield_now().await;
        }
        server.stop();
        Ok(out)
    });
    drop(rt);
    r
}

fn generated() -> Vec<Vec<Call>> {
    let mut alphabet = vec![];
    for index in 1..=3u64 {
        for term in 1..=2u64 {
            alphabet.push(Call::Append { index, term, data: index * 10 + term });
        }
    }
    for index in 0..=3u64 {
        alphabet.push(Call::Commit { index });
    }
    let mut out: Vec<Vec<Call>> = vec![];
    let mut last: Vec<Vec<Call>> = vec![vec![]];
    for _ in 0..4 {
        let mut next = vec![];
        for t in &last {
            for c in &alphabet {
                let mut n = t.clone();
                n.push(c.clone());
                next.push(n);
            }
        }
        out.extend(next.iter().cloned());
        last = next;
    }
    out
}

pub(crate) fn run(args: &Args) -> i32 {
    // base directory with the admin user already created (PBKDF2 once)
    let scratch = Scratch::new("conf");
    let root = scratch.path("w");
    {
        let rt = rt_current();
        rt.block_on(async {
            let s = Server::start_opts(&format!("{root}/a/b/data"), false).await.unwrap_or_else(|e| engine::machinery_failure(&e));
            s.stop();
        });
    }
    let base = Snapshot::take(&root);
    drop(scratch);
    let w = engine::workers();
    let scratches: Vec<Mutex<Scratch>> = (0..w).map(|_| Mutex::new(Scratch::new("conf"))).collect();

    let force_generate = args.extra.iter().any(|a| a == "--generate");
    // VERIF_MIRROR_TRACES: alternative input file (used to show that a wrong mirror answer is detected)
    let mirror_file = std::env::var("VERIF_MIRROR_TRACES").unwrap_or_else(|_| MIRROR_TRACES.to_string());
    if !force_generate && let Ok(text) = std::fs::read_to_string(&mirror_file) {
        let doc: Value = serde_json::from_str(&text).unwrap_or_else(|e| engine::machinery_failure(&format!("{MIRROR_TRACES}: {e}")));
        let traces = doc["traces"].as_array().cloned().unwrap_or_else(|| engine::machinery_failure(&format!("{MIRROR_TRACES}: no \"traces\" array")));
        let disagreements = Mutex::new(vec![]);
        let calls_checked = AtomicU64::new(0);
        engine::par_for(traces.len(), args.seed, |wi, i| {
            let t = &traces[i];
            let entries = t["calls"].as_array().cloned().unwrap_or_default();
            let calls: Vec<Call> = entries.iter().map(|c| parse_call(c).unwrap_or_else(|| engine::machinery_failure(&format!("{MIRROR_TRACES}: trace {i}: bad call {c}")))).collect();
            let froms: Vec<Vec<u64>> = entries.iter().map(|c| c["after"]["logs"].as_object().map(|o| o.keys().filter_map(|k| k.parse().ok()).collect()).unwrap_or_default()).collect();
            let s = scratches[wi].lock().unwrap();
            let real = real_answers(&base, &s, &calls, &froms).unwrap_or_else(|e| engine::machinery_failure(&format!("trace {i}: {e}")));
            for (n, (c, r)) in entries.iter().zip(real.iter()).enumerate() {
                calls_checked.fetch_add(1, Ordering::Relaxed);
                let m = &c["after"];
                for f in ["log_index", "log_term", "log_commit", "logs"] {
                    if m.get(f).is_some() && m[f] != r[f] {
                        disagreements.lock().unwrap().push(format!("trace {i} call {n} ({}): {f}: mirror {} real {}", call_json(&calls[n]), m[f], r[f]));
                        return;
                    }
                }
            }
        });
        let d = disagreements.into_inner().unwrap();
        println!("conformance: {} mirror traces ({} calls) replayed against the real ClusterStorage/ClusterLog, {} disagreements", traces.len(), calls_checked.load(Ordering::Relaxed), d.len());
        for x in d.iter().take(10) {
            println!("DISAGREEMENT {x}");
        }
        return if d.is_empty() { 0 } else { 1 };
    }

    let traces = generated();
    let results: Vec<Mutex<Option<Value>>> = (0..traces.len()).map(|_| Mutex::new(None)).collect();
    engine::par_for(traces.len(), args.seed, |wi, i| {
        let s = scratches[wi].lock().unwrap();
        let real = real_answers(&base, &s, &traces[i], &[]).unwrap_or_else(|e| engine::machinery_failure(&format!("generated trace {i}: {e}")));
        let calls: Vec<Value> = traces[i]
            .iter()
            .zip(real)
            .map(|(c, a)| {
                let mut j = call_json(c);
                j["after"] = a;
                j
            })
            .collect();
        *results[i].lock().unwrap() = Some(json!({"calls": calls}));
    });
    let all: Vec<Value> = results.into_iter().map(|m| m.into_inner().unwrap().unwrap()).collect();
    let doc = json!({"format": 1, "source": "real ClusterStorage over ClusterLog (agdb_server), answers after every call", "traces": all});
    std::fs::write(REAL_TRACES, serde_json::to_string(&doc).unwrap()).unwrap_or_else(|e| engine::machinery_failure(&format!("{REAL_TRACES}: {e}")));
    println!("conformance: {} wrote the real storage's answers for {} generated traces (all call sequences of length <= 4) to {REAL_TRACES}", if force_generate { "--generate:".to_string() } else { format!("{MIRROR_TRACES} not found;") }, traces.len());
    0
}
