//! C26 - database files stay inside their owner's directory and never collide;
//! names that cannot satisfy this are rejected.
//!
//! Enumerated: NAMES (32 path-like / special strings) x file operations, from a
//! base world in which usr1 already owns databases `x` and `y` (each with
//! content, an audit log and a backup) and usr2 owns an `x` of its own:
//!   group A  one request that creates a database named N:
//!            add (mapped|file|memory), admin add, copy y->N, rename y->N,
//!            admin copy, admin rename, copy by another user into their dir
//!   group B  add N (3 kinds); exec_mut N; backup N; then one (thorough: two) of
//!            restore, rollback, clear (4 resources), convert (2 targets),
//!            delete, remove, optimize, exec_mut, backup, copy N->cp1, rename N->rn1, audit
//!   group C  add N1; add N2 for name pairs (quick: 10x10, thorough: 32x32)
//! Oracle after EVERY request, by diff of the complete file tree under the
//! scratch directory (the data directory sits three levels inside it) and of
//! the set of registered databases:
//!   escape        a created/changed/deleted path lies outside the directories
//!                 of the owners named in the request (server bookkeeping
//!                 files agdb_server.agdb/.log are exempt)
//!   not-own-file  (2xx) a touched file is not in the file set of any database the request names
//!   left-behind   (2xx transfer to another owner) a file of the database still exists in the old owner's directory
//!   foreign-file  a touched path belongs to the file set (main, .main recovery
//!                 log, backups/N.bak, backups/N.log, audit/N.log) of a
//!                 registered database the request does not name
//!   collision     after the request two registered databases have
//!                 intersecting file sets, or a database's main/recovery file
//!                 is the backups/ or audit/ directory, or a file set leaves
//!                 the owner's directory
//!   not-rejected / reject-with-effect
//!                 the new name cannot satisfy the above (decided from the
//!                 lexically normalised file set) and the request was not
//!                 answered with an error, or was but left a change behind
//! Nothing is demanded about names that can satisfy the property.

use crate::vh::lab::{Base, Lab, Req, Setup, reqs_from_json, reqs_to_json};
use crate::vh::world::{enc, tree_diff};
use agdb::QueryBuilder;
use agdb_api::Queries;
use engine::{Args, DistinctCounter, Report, Tier};
use serde_json::{Value, json};
use std::collections::{BTreeMap, BTreeSet};
use std::sync::atomic::{AtomicU64, Ordering};

const DATA: &str = "a/b/data";

/// (name as the server decodes it, send raw (not percent-encoded) in the path)
fn names() -> Vec<(String, bool)> {
    let long255 = "n".repeat(255);
    let long300 = "m".repeat(300);
    let v: Vec<(&str, bool)> = vec![
        ("..", false),
        ("..", true),
        ("../escape", false),
        ("../usr2/stolen", false),
        ("../../outside", false),
        ("../../../far", false),
        ("a/b", true),
        ("a/b", false),
        (".x", false),
        (".new", false),
        ("backups", false),
        ("audit", false),
        ("backups/x.bak", false),
        ("backups/x.log", false),
        ("audit/x.log", false),
        ("audit/../../escape2", false),
        ("x.bak", false),
        ("x.log", false),
        ("x", false),
        (".", false),
        ("", false),
        ("x.", false),
        ("..x", false),
        ("x/..", false),
        ("x/../z", false),
        ("./x", false),
        ("../usr1/x", false),
        ("my db", false),
        ("d\u{e4}tab\u{e1}se-\u{6570}\u{636e}\u{5e93}", false),
        ("line\nbreak", false),
        ("plain_name-1", false),
        ("w", false),
        ("y", false),
    ];
    let mut out: Vec<(String, bool)> = v.into_iter().map(|(a, b)| (a.to_string(), b)).collect();
    out.push((long255, false));
    out.push((long300, false));
    out
}

fn pair_names_quick() -> Vec<String> {
    ["new", ".new", "./new", "d", "d/e", "backups", "audit/d.log", "..d", "d.", "backups/d.bak"].iter().map(|s| s.to_string()).collect()
}

// ---------------------------------------------------------------------------
// file sets

/// lexical normalisation of a path relative to the scratch root; None = leaves the root
fn norm(path: &str) -> Option<String> {
    let mut out: Vec<&str> = vec![];
    for c in path.split('/') {
        match c {
            "" | "." => {}
            ".." => {
                out.pop()?;
            }
            c => out.push(c),
        }
    }
    Some(out.join("/"))
}

/// raw paths the server derives for (owner, db): [main, recovery log, backup, backup audit, audit]
fn raw_files(owner: &str, db: &str) -> Vec<(&'static str, String)> {
    let main = format!("{DATA}/{owner}/{db}");
    let pos = main.rfind('/').map(|p| p + 1).unwrap_or(0);
    let mut wal = main.clone();
    wal.insert(pos, '.');
    vec![
        ("main", main),
        ("recovery-log", wal),
        ("backup", format!("{DATA}/{owner}/backups/{db}.bak")),
        ("backup-audit", format!("{DATA}/{owner}/backups/{db}.log")),
        ("audit", format!("{DATA}/{owner}/audit/{db}.log")),
    ]
}

/// normalised file set; an entry is None when it leaves the scratch root
fn files(owner: &str, db: &str) -> Vec<(&'static str, Option<String>)> {
    raw_files(owner, db).into_iter().map(|(k, p)| (k, norm(&p))).collect()
}

fn inside_owner(owner: &str, p: &Option<String>) -> bool {
    match p {
        Some(p) => p.starts_with(&format!("{DATA}/{owner}/")),
        None => false,
    }
}

fn reserved(owner: &str) -> [String; 2] {
    [format!("{DATA}/{owner}/backups"), format!("{DATA}/{owner}/audit")]
}

/// Why (owner, name) cannot have a private file set inside the owner's directory, given the other databases.
fn unsatisfiable(owner: &str, name: &str, others: &[(String, String)]) -> Option<&'static str> {
    if name.is_empty() {
        return Some("empty");
    }
    let f = files(owner, name);
    for (_, p) in &f {
        if !inside_owner(owner, p) {
            return Some(match p {
                None => "escape-scratch-root",
                Some(p) if !p.starts_with(&format!("{DATA}/")) => "escape-data-dir",
                Some(p) if p.starts_with(&format!("{DATA}/usr")) && !p.starts_with(&format!("{DATA}/{owner}")) => "escape-other-user",
                _ => "escape-owner-dir",
            });
        }
    }
    let res = reserved(owner);
    for (_, p) in &f {
        let p = p.as_ref().unwrap();
        if res.contains(p) {
            return Some("reserved-dir-name");
        }
    }
    for (o, n) in others {
        if o == owner && n == name {
            continue;
        }
        let g = files(o, n);
        for (k1, p1) in &f {
            for (k2, p2) in &g {
                if p1.is_some() && p1 == p2 {
                    return Some(match (*k1, *k2) {
                        ("main", "main") => "alias-of-existing-db",
                        ("main", "recovery-log") | ("recovery-log", "main") => "recovery-log-of-existing-db",
                        ("main", _) => "backup-or-audit-file-of-existing-db",
                        _ => "shares-file-with-existing-db",
                    });
                }
            }
        }
    }
    None
}

fn name_class(owner: &str, name: &str, others: &[(String, String)]) -> &'static str {
    if let Some(u) = unsatisfiable(owner, name, others) {
        return u;
    }
    if name.contains('/') {
        "subdirectory"
    } else if name.starts_with('.') {
        "leading-dot"
    } else if name.len() > 200 {
        "long"
    } else {
        "plain"
    }
}

// ---------------------------------------------------------------------------
// steps

#[derive(Clone, Debug)]
struct Step {
    req: Req,
    /// databases the request names (their files may be touched)
    subjects: Vec<(String, String)>,
    /// the database a successful request registers under a new name, and the source it replaces (rename)
    creates: Option<(String, String)>,
    replaces: Option<(String, String)>,
}

impl Step {
    fn to_json(&self) -> Value {
        json!({"req": self.req.to_json(), "subjects": self.subjects, "creates": self.creates, "replaces": self.replaces})
    }
    fn from_json(v: &Value) -> Step {
        let pair = |x: &Value| -> Option<(String, String)> { Some((x.get(0)?.as_str()?.to_string(), x.get(1)?.as_str()?.to_string())) };
        Step {
            req: Req::from_json(&v["req"]),
            subjects: v["subjects"].as_array().map(|a| a.iter().filter_map(pair).collect()).unwrap_or_default(),
            creates: pair(&v["creates"]),
            replaces: pair(&v["replaces"]),
        }
    }
}

fn seg(name: &str, raw: bool) -> String {
    if raw { name.to_string() } else { enc(name) }
}

fn write_query() -> Value {
    serde_json::to_value(Queries(vec![QueryBuilder::insert().nodes().count(1).query().into()])).unwrap()
}

fn s(req: Req, subjects: &[(&str, &str)], creates: Option<(&str, &str)>, replaces: Option<(&str, &str)>) -> Step {
    Step {
        req,
        subjects: subjects.iter().map(|(a, b)| (a.to_string(), b.to_string())).collect(),
        creates: creates.map(|(a, b)| (a.to_string(), b.to_string())),
        replaces: replaces.map(|(a, b)| (a.to_string(), b.to_string())),
    }
}

fn add_step(caller: &str, owner: &str, n: &str, raw: bool, kind: &str, admin: bool) -> Step {
    let p = if admin { "/admin/db" } else { "/db" };
    s(Req::new(caller, "POST", &format!("{p}/{owner}/{}/add?db_type={kind}", seg(n, raw)), None, &format!("{}add-{kind}", if admin { "admin-" } else { "" })), &[(owner, n)], Some((owner, n)), None)
}

fn group_a(n: &str, raw: bool) -> Vec<Vec<Step>> {
    let e = enc(n);
    let mut out = vec![];
    for kind in ["mapped", "file", "memory"] {
        out.push(vec![add_step("usr1", "usr1", n, raw, kind, false)]);
    }
    out.push(vec![add_step("admin", "usr1", n, raw, "mapped", true)]);
    // an owner whose directory does not exist yet (no backups/ and audit/ directories either),
    // followed by an ordinary database of that owner being created and backed up
    for kind in ["mapped", "memory"] {
        out.push(vec![
            add_step("usr3", "usr3", n, raw, kind, false),
            add_step("usr3", "usr3", "ok1", false, "mapped", false),
            s(Req::new("usr3", "POST", "/db/usr3/ok1/exec_mut", Some(write_query()), "exec_mut-other"), &[("usr3", "ok1")], None, None),
            s(Req::new("usr3", "POST", "/db/usr3/ok1/backup", None, "backup-other"), &[("usr3", "ok1")], None, None),
        ]);
    }
    if !raw {
        out.push(vec![s(Req::new("usr1", "POST", &format!("/db/usr1/y/copy?new_db={e}"), None, "copy-to"), &[("usr1", "y"), ("usr1", n)], Some(("usr1", n)), None)]);
        out.push(vec![s(Req::new("usr1", "POST", &format!("/db/usr1/y/rename?new_db={e}"), None, "rename-to"), &[("usr1", "y"), ("usr1", n)], Some(("usr1", n)), Some(("usr1", "y")))]);
        out.push(vec![s(Req::new("admin", "POST", &format!("/admin/db/usr1/y/copy?new_owner=usr1&new_db={e}"), None, "admin-copy-to"), &[("usr1", "y"), ("usr1", n)], Some(("usr1", n)), None)]);
        out.push(vec![s(Req::new("admin", "POST", &format!("/admin/db/usr1/y/rename?new_owner=usr1&new_db={e}"), None, "admin-rename-to"), &[("usr1", "y"), ("usr1", n)], Some(("usr1", n)), Some(("usr1", "y")))]);
        out.push(vec![s(Req::new("usr2", "POST", &format!("/db/usr1/y/copy?new_db={e}"), None, "copy-to-other-owner"), &[("usr1", "y"), ("usr2", n)], Some(("usr2", n)), None)]);
        // ownership transfer: y (which has an audit log and a backup) becomes usr2/N
        out.push(vec![s(Req::new("admin", "POST", &format!("/admin/db/usr1/y/rename?new_owner=usr2&new_db={e}"), None, "admin-transfer-to"), &[("usr1", "y"), ("usr2", n)], Some(("usr2", n)), Some(("usr1", "y")))]);
    }
    out
}

fn ops_on(n: &str, raw: bool) -> Vec<Step> {
    let e = seg(n, raw);
    let me = [("usr1", n)];
    let mut v = vec![
        s(Req::new("usr1", "POST", &format!("/db/usr1/{e}/restore"), None, "restore"), &me, None, None),
        s(Req::new("usr1", "POST", &format!("/db/usr1/{e}/rollback"), None, "rollback"), &me, None, None),
    ];
    for r in ["all", "db", "audit", "backup"] {
        v.push(s(Req::new("usr1", "POST", &format!("/db/usr1/{e}/clear?resource={r}"), None, &format!("clear-{r}")), &me, None, None));
    }
    for k in ["mapped", "file", "memory"] {
        v.push(s(Req::new("usr1", "POST", &format!("/db/usr1/{e}/convert?db_type={k}"), None, &format!("convert-{k}")), &me, None, None));
    }
    v.push(s(Req::new("usr1", "DELETE", &format!("/db/usr1/{e}/delete"), None, "delete"), &me, None, None));
    v.push(s(Req::new("usr1", "DELETE", &format!("/db/usr1/{e}/remove"), None, "remove"), &me, None, None));
    v.push(s(Req::new("usr1", "POST", &format!("/db/usr1/{e}/optimize"), None, "optimize"), &me, None, None));
    v.push(s(Req::new("usr1", "POST", &format!("/db/usr1/{e}/exec_mut"), Some(write_query()), "exec_mut"), &me, None, None));
    v.push(s(Req::new("usr1", "POST", &format!("/db/usr1/{e}/backup"), None, "backup"), &me, None, None));
    v.push(s(Req::new("usr1", "GET", &format!("/db/usr1/{e}/audit"), None, "audit"), &me, None, None));
    v.push(s(Req::new("usr1", "POST", &format!("/db/usr1/{e}/copy?new_db=cp1"), None, "copy-from"), &[("usr1", n), ("usr1", "cp1")], Some(("usr1", "cp1")), None));
    v.push(s(Req::new("usr1", "POST", &format!("/db/usr1/{e}/rename?new_db=rn1"), None, "rename-from"), &[("usr1", n), ("usr1", "rn1")], Some(("usr1", "rn1")), Some(("usr1", n))));
    v
}

fn group_b(n: &str, raw: bool, depth: usize) -> Vec<Vec<Step>> {
    let mut out = vec![];
    let ops = ops_on(n, raw);
    for kind in ["mapped", "file", "memory"] {
        let by_op = |op: &str| ops.iter().find(|s| s.req.op == op).cloned().unwrap_or_else(|| engine::machinery_failure("op table"));
        let prefix = vec![add_step("usr1", "usr1", n, raw, kind, false), by_op("exec_mut"), by_op("backup")];
        for a in &ops {
            let mut seq = prefix.clone();
            seq.push(a.clone());
            out.push(seq.clone());
            if depth >= 2 && a.req.op != "delete" && a.req.op != "remove" && a.req.op != "rename-from" {
                for b in &ops {
                    let mut seq2 = seq.clone();
                    seq2.push(b.clone());
                    out.push(seq2);
                }
            }
        }
    }
    out
}

fn group_c(pairs: &[String]) -> Vec<Vec<Step>> {
    let mut out = vec![];
    for a in pairs {
        for b in pairs {
            out.push(vec![add_step("usr1", "usr1", a, false, "mapped", false), add_step("usr1", "usr1", b, false, "mapped", false)]);
        }
    }
    out
}

// ---------------------------------------------------------------------------

fn base_world() -> Base {
    let w = write_query();
    let mut script = vec![Setup::AddUser("usr1"), Setup::AddUser("usr2"), Setup::AddUser("usr3"), Setup::Login("usr1", "usr1"), Setup::Login("usr2", "usr2"), Setup::Login("usr3", "usr3")];
    for (u, d) in [("usr1", "x"), ("usr1", "y"), ("usr1", "w"), ("usr2", "x")] {
        script.push(Setup::Call(u, "POST", format!("/db/{u}/{d}/add?db_type=mapped"), None));
        script.push(Setup::Call(u, "POST", format!("/db/{u}/{d}/exec_mut"), Some(w.clone())));
        script.push(Setup::Call(u, "POST", format!("/db/{u}/{d}/backup"), None));
        script.push(Setup::Call(u, "POST", format!("/db/{u}/{d}/exec_mut"), Some(w.clone())));
    }
    script.push(Setup::Call("usr1", "PUT", "/db/usr1/y/user/usr2/add?db_role=read".to_string(), None));
    Base::build("c26-owners-with-dbs-x-y-w", &script)
}

fn pool_names(all: &[String]) -> Vec<(String, String)> {
    let mut v = vec![];
    for o in ["usr1", "usr2", "usr3"] {
        for n in all.iter().map(|s| s.as_str()).chain(["x", "y", "w", "cp1", "rn1", "ok1"]) {
            v.push((o.to_string(), n.to_string()));
        }
    }
    v
}

const BOOKKEEPING: [&str; 4] = ["a/b/data/agdb_server.agdb", "a/b/data/.agdb_server.agdb", "a/b/data/agdb_server.log", "a/b/data/.agdb_server.log"];

struct Found {
    signature: String,
    what: String,
}

#[derive(Default)]
struct Stats {
    sequences: AtomicU64,
    requests: AtomicU64,
    accepted: AtomicU64,
    rejected: AtomicU64,
    unsat_requests: AtomicU64,
}

/// Runs one sequence; returns the violations found and a transcript (status, tree diff) for reproducibility checks.
fn run_sequence(lab: &mut Lab, base: &Base, seq: &[Step], stats: Option<&Stats>, states: Option<&DistinctCounter>, outcomes: Option<&DistinctCounter>) -> (Vec<Found>, Vec<String>) {
    lab.reset(base);
    let mut found = vec![];
    let mut transcript = vec![];
    if let Some(st) = stats {
        st.sequences.fetch_add(1, Ordering::Relaxed);
    }
    let mut tree = lab.tree();
    let mut reg: Vec<(String, String)> = lab.registered().into_iter().map(|(o, d, _)| (o, d)).collect();
    for step in seq {
        if !lab.alive() {
            break;
        }
        let resp = lab.call(base, &step.req);
        if resp.status == 0 {
            transcript.push(format!("{} -> unrepresentable", step.req.short()));
            continue;
        }
        let after = lab.tree();
        let after_reg: Vec<(String, String)> = lab.registered().into_iter().map(|(o, d, _)| (o, d)).collect();
        let (created, changed, deleted) = tree_diff(&tree, &after);
        let touched: Vec<String> = created.iter().chain(changed.iter()).chain(deleted.iter()).filter(|p| !BOOKKEEPING.contains(&p.as_str())).cloned().collect();
        transcript.push(format!("{} -> {} +{:?} ~{:?} -{:?} reg={:?}", step.req.short(), resp.status, created, changed.iter().filter(|p| !BOOKKEEPING.contains(&p.as_str())).collect::<Vec<_>>(), deleted, after_reg));
        if let Some(st) = stats {
            st.requests.fetch_add(1, Ordering::Relaxed);
            if resp.ok() { st.accepted.fetch_add(1, Ordering::Relaxed) } else { st.rejected.fetch_add(1, Ordering::Relaxed) };
        }
        if let Some(s) = states {
            s.insert(format!("{:?}|{:?}", after.keys().collect::<Vec<_>>(), after_reg).as_bytes());
        }
        if let Some(o) = outcomes {
            o.insert(format!("{}|{}|{}|{}|{}", step.req.op, resp.status, created.len(), changed.len(), deleted.len()).as_bytes());
        }
        // name class: of the first database named in the request whose name is not "plain"
        // (the created name first), so that later steps on a bad name keep its class
        let mut cands: Vec<(String, String)> = step.creates.iter().cloned().collect();
        cands.extend(step.subjects.iter().cloned());
        let (mut cls_owner, mut cls_name) = cands[0].clone();
        let mut class = "plain";
        for (o, n) in &cands {
            let others: Vec<(String, String)> = reg.iter().filter(|d| Some(*d) != step.replaces.as_ref() && !(d.0 == *o && d.1 == *n)).cloned().collect();
            let c = name_class(o, n, &others);
            if c != "plain" {
                class = c;
                cls_owner = o.clone();
                cls_name = n.clone();
                break;
            }
        }
        let _ = &cls_owner;
        // operation family (add-mapped/add-file/add-memory -> add, clear-all -> clear, ...) and status class
        let family = ["admin-add", "add", "clear", "convert"].iter().find(|f| step.req.op.starts_with(&format!("{f}-"))).map(|f| f.to_string()).unwrap_or_else(|| step.req.op.clone());
        let status_class = match resp.status {
            200..=299 => "2xx".to_string(),
            500..=598 => "5xx".to_string(),
            599 => "panic".to_string(),
            s => s.to_string(),
        };
        let sig = |clause: &str| format!("c26|op={family}|name={class}|clause={clause}|status={status_class}");
        let ctx = format!("request {} (db name {:?}) answered {} {}", step.req.short(), cls_name, resp.status, engine::normalise(&resp.text()));

        // (a) escape
        let owners: BTreeSet<&str> = step.subjects.iter().map(|(o, _)| o.as_str()).collect();
        let escaped: Vec<&String> = touched.iter().filter(|p| !owners.iter().any(|o| p.starts_with(&format!("{DATA}/{o}/")) || **p == format!("{DATA}/{o}"))).collect();
        if !escaped.is_empty() {
            found.push(Found { signature: sig("escape"), what: format!("{ctx}; it created/changed/deleted {escaped:?}, outside the owner's directory {DATA}/{}/", owners.iter().next().unwrap_or(&"?")) });
        }
        // (a') every touched file belongs to the file set of a database the request names
        let mut own: BTreeSet<String> = BTreeSet::new();
        for (o, d) in &step.subjects {
            for (_, p) in files(o, d) {
                if let Some(p) = p {
                    own.insert(p);
                }
            }
        }
        let is_dir = |p: &String| after.get(p).or(tree.get(p)).map(|k| k == "dir").unwrap_or(false);
        let stray: Vec<&String> = touched.iter().filter(|p| !escaped.contains(p) && !is_dir(p) && !own.contains(*p)).collect();
        if !stray.is_empty() && resp.ok() {
            found.push(Found { signature: sig("not-own-file"), what: format!("{ctx}; it created/changed/deleted {stray:?}, which are not files (main, recovery log, backup, backup audit, audit) of the databases the request names {:?}", step.subjects) });
        }
        // (a'') a renamed / transferred database leaves no file behind under its old name
        if let Some((o, d)) = &step.replaces
            && resp.ok()
            && !after_reg.iter().any(|x| x.0 == *o && x.1 == *d)
            // only when the owner changed: then a file left behind is a file of the new owner's
            // database lying in another owner's directory (a same-owner rename that leaves a file
            // under the old name stays inside the owner's directory; not demanded by the statement)
            && step.creates.as_ref().map(|c| c.0 != *o).unwrap_or(false)
        {
            let target: BTreeSet<String> = step.creates.iter().flat_map(|(o2, d2)| files(o2, d2).into_iter().filter_map(|x| x.1)).collect();
            let left: Vec<String> = files(o, d).into_iter().filter_map(|(k, p)| p.map(|p| (k, p))).filter(|(_, p)| !target.contains(p) && after.get(p).map(|k| k != "dir").unwrap_or(false)).map(|(k, p)| format!("{p} ({k})")).collect();
            if !left.is_empty() {
                found.push(Found { signature: sig("left-behind"), what: format!("{ctx}; the database was renamed but {left:?} stayed behind under the old name/owner") });
            }
        }
        // (b) foreign files
        let mut foreign: BTreeMap<String, String> = BTreeMap::new();
        for (o, d) in &reg {
            if step.subjects.iter().any(|x| x.0 == *o && x.1 == *d) {
                continue;
            }
            for (k, p) in files(o, d) {
                if let Some(p) = p {
                    foreign.insert(p, format!("{k} file of {o}/{d}"));
                }
            }
        }
        let mut hit: Vec<String> = touched.iter().filter_map(|p| foreign.get(p).map(|w| format!("{p} ({w})"))).collect();
        // the backups/ and audit/ directories of an owner with databases must stay directories
        for (o, _) in &reg {
            for r in reserved(o) {
                if touched.contains(&r) && after.get(&r).map(|k| k != "dir").unwrap_or(false) && !hit.iter().any(|h| h.starts_with(&r)) {
                    hit.push(format!("{r} (now a file; the directory of {o}'s databases)"));
                }
            }
        }
        if !hit.is_empty() {
            found.push(Found { signature: sig("foreign-file"), what: format!("{ctx}; it created/changed/deleted {hit:?}, files of databases the request does not name") });
        }
        // (c) structural collision among registered databases
        if after_reg != reg {
            let mut why = vec![];
            for (i, (o, d)) in after_reg.iter().enumerate() {
                let f = files(o, d);
                for (k, p) in &f {
                    if !inside_owner(o, p) {
                        why.push(format!("{k} file of {o}/{d:?} is outside {DATA}/{o}/"));
                    } else if reserved(o).contains(p.as_ref().unwrap()) {
                        why.push(format!("{k} file of {o}/{d:?} is the directory {}", p.as_ref().unwrap()));
                    }
                }
                for (o2, d2) in after_reg.iter().skip(i + 1) {
                    let g = files(o2, d2);
                    for (k1, p1) in &f {
                        for (k2, p2) in &g {
                            if p1.is_some() && p1 == p2 {
                                why.push(format!("{k1} file of {o}/{d:?} is the {k2} file of {o2}/{d2:?}"));
                            }
                        }
                    }
                }
            }
            if !why.is_empty() {
                found.push(Found { signature: sig("collision"), what: format!("{ctx}; registered databases now share files or leave their directory: {why:?}") });
            }
        }
        // (d) names that cannot satisfy the property must be rejected without effect
        if let Some((o, n)) = &step.creates {
            let already = reg.iter().any(|d| d.0 == *o && d.1 == *n);
            let others: Vec<(String, String)> = reg.iter().filter(|d| Some(*d) != step.replaces.as_ref()).cloned().collect();
            if !already && let Some(u) = unsatisfiable(o, n, &others) {
                if let Some(st) = stats {
                    st.unsat_requests.fetch_add(1, Ordering::Relaxed);
                }
                if resp.ok() {
                    found.push(Found { signature: sig("not-rejected"), what: format!("{ctx}; the name cannot have a private file set inside {DATA}/{o}/ ({u}) but the request was accepted") });
                } else if !touched.is_empty() || after_reg != reg {
                    found.push(Found { signature: sig("reject-with-effect"), what: format!("{ctx}; the name is unusable ({u}) and the request failed, but it left changes behind: {touched:?}") });
                }
            }
        }
        tree = after;
        reg = after_reg;
    }
    (found, transcript)
}

fn seq_json(base: &Base, seq: &[Step]) -> Value {
    json!({"base": base.name, "steps": seq.iter().map(|s| s.to_json()).collect::<Vec<_>>(), "requests": reqs_to_json(&seq.iter().map(|s| s.req.clone()).collect::<Vec<_>>())})
}

pub(crate) fn run(args: &Args) -> i32 {
    let report = Report::new(args, "model_checking");
    let base = base_world();
    let all_names = names();
    let name_strings: Vec<String> = all_names.iter().map(|n| n.0.clone()).chain(pair_names_quick()).collect();
    let pool = pool_names(&name_strings);

    if let Some(path) = &args.replay {
        let doc = crate::vh::world::replay_doc(path);
        let steps: Vec<Step> = doc["steps"].as_array().map(|a| a.iter().map(Step::from_json).collect()).unwrap_or_default();
        let _ = reqs_from_json(&doc["requests"]);
        let mut lab = Lab::new("c26r", true, &pool);
        let (found, transcript) = run_sequence(&mut lab, &base, &steps, None, None, None);
        for t in &transcript {
            println!("replay: {t}");
        }
        for f in found {
            report.violation(&f.signature, &f.what, seq_json(&base, &steps));
        }
        report.set("states", json!(1));
        report.set("transitions", json!(transcript.len().max(1)));
        report.set("traces_validated_against_impl", json!(1));
        report.sample(json!({"replayed": transcript}));
        return report.finish();
    }

    let depth_b = args.tier.pick(1, 2);
    let pairs: Vec<String> = match args.tier {
        Tier::Quick => pair_names_quick(),
        Tier::Thorough => {
            let mut v: Vec<String> = all_names.iter().filter(|n| !n.1).map(|n| n.0.clone()).collect();
            v.extend(pair_names_quick());
            v.sort();
            v.dedup();
            v
        }
    };
    let mut sequences: Vec<Vec<Step>> = vec![];
    for (n, raw) in &all_names {
        sequences.extend(group_a(n, *raw));
        sequences.extend(group_b(n, *raw, depth_b));
    }
    sequences.extend(group_c(&pairs));
    let stats = Stats::default();
    let states = DistinctCounter::default();
    let outcomes = DistinctCounter::default();
    let candidates: std::sync::Mutex<Vec<(usize, Vec<Found>, Vec<String>)>> = std::sync::Mutex::new(vec![]);

    let w = engine::workers();
    let labs: Vec<std::sync::Mutex<Lab>> = (0..w).map(|_| std::sync::Mutex::new(Lab::new("c26", false, &pool))).collect();
    engine::par_for(sequences.len(), args.seed, |wi, i| {
        let mut lab = labs[wi].lock().unwrap();
        let (found, transcript) = run_sequence(&mut lab, &base, &sequences[i], Some(&stats), Some(&states), Some(&outcomes));
        if i < 3 {
            report.sample(json!({"sequence": seq_json(&base, &sequences[i])["requests"], "transcript": transcript}));
        }
        if !found.is_empty() {
            candidates.lock().unwrap().push((i, found, transcript));
        }
    });
    report.set("profile", Lab::profile(&labs));
    drop(labs);

    // confirm every violating sequence twice on a freshly started server: identical transcripts required
    let mut cands = candidates.into_inner().unwrap();
    cands.sort_by_key(|c| c.0);
    // one confirmation per signature is enough for the verdict; all cases are still counted
    let mut confirmed: BTreeSet<String> = BTreeSet::new();
    let confirm_lab = std::sync::Mutex::new(Lab::new("c26c", true, &pool));
    let mut replays = 0u64;
    for (i, found, transcript) in &cands {
        let need = found.iter().any(|f| !confirmed.contains(&f.signature));
        if need {
            let mut lab = confirm_lab.lock().unwrap();
            for round in 0..2 {
                let (f2, t2) = run_sequence(&mut lab, &base, &sequences[*i], None, None, None);
                replays += 1;
                let sigs = |v: &Vec<Found>| v.iter().map(|f| f.signature.clone()).collect::<Vec<_>>();
                if &t2 != transcript || sigs(&f2) != sigs(found) {
                    engine::machinery_failure(&format!(
                        "C26 case does not reproduce on a freshly started server (round {round}): {}\n  explored: {transcript:?}\n  replayed: {t2:?}",
                        seq_json(&base, &sequences[*i])["requests"]
                    ));
                }
            }
            for f in found {
                confirmed.insert(f.signature.clone());
            }
        }
        for f in found {
            report.violation(&f.signature, &f.what, seq_json(&base, &sequences[*i]));
        }
    }

    report.set("states", json!(states.len()));
    report.set("transitions", json!(stats.requests.load(Ordering::Relaxed)));
    report.set("traces_validated_against_impl", json!(stats.sequences.load(Ordering::Relaxed)));
    report.set("sequences", json!(sequences.len()));
    report.set("names", json!(all_names.len()));
    report.set("pair_names", json!(pairs.len()));
    report.set("group_b_ops_after_prefix", json!(depth_b));
    report.set("requests_accepted_2xx", json!(stats.accepted.load(Ordering::Relaxed)));
    report.set("requests_rejected", json!(stats.rejected.load(Ordering::Relaxed)));
    report.set("requests_with_unsatisfiable_name", json!(stats.unsat_requests.load(Ordering::Relaxed)));
    report.set("distinct_outcomes", json!(outcomes.len()));
    report.set("violating_sequences", json!(cands.len()));
    report.set("confirmation_replays_on_fresh_server", json!(replays));
    report.set("exhaustive", json!(true));
    report.set("what", json!("every name x every creating request (group A), every name x 3 kinds x [add, exec_mut, backup] x every file operation (group B; thorough: every ordered pair of operations), every ordered pair of names added one after the other (group C); states = distinct (file tree, registered databases) after a request; transitions = requests executed"));
    report.assume("file sets are compared after lexical normalisation of '.' and '..' (no symlinks exist in the data directory)");
    report.assume("user names are not part of the property (database names only); the owner directories usr1/usr2 are fixed");
    report.assume("the rollback operation's transient files backups/<db> and backups/<db>.audit exist only inside one request and are not part of the at-rest file sets");
    report.finish()
}
