#!/bin/bash
# Builds every harness binary offline from files on disk.
set -e
export CARGO_NET_OFFLINE=true
cd /verif/harness && cargo build --offline --release
if [ -d /verif/harness_raft ]; then
  cd /verif/harness_raft && cargo build --offline --release
fi
if [ -x /verif/harness_server/mkmirror.sh ]; then
  /verif/harness_server/mkmirror.sh
  cd /verif/harness_server && cargo build --offline --release
fi
