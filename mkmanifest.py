#!/usr/bin/env python3
"""Regenerates MANIFEST.json from the table below and validates it."""
import json, subprocess, sys
HOOK_COMMITS = ["94c8dd3"]
# id -> dict(level, text, note, technique, design, engine, thorough(bool))
CHECKS = {
 "C01": dict(level="fault_enumeration", engine="core_checks", design="§3, §4/C01",
   technique="bounded-exhaustive operation sequences x exhaustive crash-point / torn-write / crash-in-recovery enumeration on the real FileStorage (stateless exploration with fault injector)",
   text="Every sequence of <=2 (quick) / <=3 (thorough) storage operations over a 36-op alphabet (incl. nested begin/commit, zero-length and beyond-the-end writes) from 3 base states is run on the real Storage<FileStorage>; for the last operation and for the final drop every prefix of the file-system calls, every byte-prefix of an interrupted log append (3 cut points for data writes) and every prefix of the calls recovery itself makes is turned into a crash image and reopened with FileStorage and FileStorageMemoryMapped; the recovered bytes must equal the content at the last completed outermost transaction (or, monotonically, the content after the transaction the step completes).",
   note="Crash model = prefix of the process's file-system calls with the last one possibly torn (process death, no reordering: the code never syncs). The fs-event hook is trusted to report every mutating call; this is checked each step by comparing the shadow image with the real files. Values/sizes outside the alphabet and sequences longer than the depth are not covered."),
}
NOT_YET = {}
props = [json.loads(l) for l in open('/verif/properties.jsonl')]
checks = []
na = []
for p in props:
    i = p['id']
    if i in CHECKS:
        c = CHECKS[i]
        checks.append({
            "property_id": i,
            "quick_cmd": f"./check {i} --tier quick",
            "thorough_cmd": f"./check {i} --tier thorough",
            "evidence_file": f"/verif/evidence/{i}.json",
            "replay_cmd_template": f"./check {i} --replay {{path}}",
            "engine": c["engine"],
            "level_claimed": {"category": c["level"], "text": c["text"], "design_ref": c["design"]},
            "level_note": c["note"],
            "technique": c["technique"],
        })
    else:
        na.append({"property_id": i, "reason": NOT_YET.get(i, "check not built yet (work in progress; see DESIGN.md §4 for the planned bounded-exhaustive check)")})
m = {
 "version": 1,
 "setup_cmd": "cd /verif && ./setup.sh",
 "hooks": {
   "guard": "agdb_verif",
   "enable": "RUSTFLAGS=--cfg agdb_verif (set in /verif/harness/.cargo/config.toml and /verif/harness_server/.cargo/config.toml; the harness crates depend on /repo/agdb by path, so every check rebuilds from /repo's working tree)",
   "baseline_off_cmd": "cd /repo && cargo nextest run --workspace --no-fail-fast --tool-config-file pb:/w/lib/nextest.toml --profile pb --test-threads 8 --offline",
   "source_commits": HOOK_COMMITS,
   "add_only": True,
 },
 "engines": [
   {"name": "core_checks", "path": "/verif/harness/core_checks", "serves_properties": [c for c in CHECKS if CHECKS[c]["engine"]=="core_checks"], "kind_free_text": "sequence / crash-point / fault / schedule explorers over the real agdb library (Rust, own engine in /verif/harness/engine)"},
 ],
 "checks": checks,
 "not_applicable": na,
 "notes": "All checks enumerate a stated finite space completely on the real code; see DESIGN.md. known_findings.json lists genuine defects (open => KNOWN-FINDING, fixed => suppresses nothing).",
}
json.dump(m, open('/verif/MANIFEST.json','w'), indent=1)
try:
    import jsonschema
    jsonschema.validate(m, json.load(open('/root/.vp/MANIFEST.schema.json')))
    print("MANIFEST.json valid;", len(checks), "checks,", len(na), "not claimed")
except ImportError:
    print("jsonschema not importable; run with python3-vt")
