#!/usr/bin/env python3
"""Regenerates MANIFEST.json from the table below and validates it."""
import json, subprocess, sys
HOOK_COMMITS = subprocess.run(["git","-C","/repo","log","--reverse","--format=%h","--grep=^verif hooks"],capture_output=True,text=True).stdout.split()
# id -> dict(level, text, note, technique, design, engine, thorough(bool))
CHECKS = {
 "C02": dict(level="fault_enumeration", engine="core_checks", design="§3, §4/C02-C03",
   technique="bounded-exhaustive query histories x exhaustive crash-point enumeration (every prefix of the file-system calls of the last step) on the real database, reopened with the real open path",
   text="Every history of <=1 (quick) / <=2 (thorough) steps over the 37-step alphabet H plus close/optimize_storage/shrink_to_fit as last step, from 6 base states (incl. an alias table one insert away from rehashing and a graph with reused ids), is run on DbFile (thorough: also Db); every prefix of the file-system calls the last step makes (thorough: plus 3 byte-prefixes of the interrupted write) is turned into a (data, recovery log) image; each distinct image is reopened with DbFile and Db (thorough: also DbAny file/mapped) and fully dumped: open and every read must succeed, no panic, no single allocation >= 256 MiB.",
   note="Crash model: prefix of the process's file-system calls (process death; the code never syncs). A refused allocation >= 16 GiB aborts the harness (reported as machinery failure, exit 2)."),
 "C03": dict(level="fault_enumeration", engine="core_checks", design="§3, §4/C02-C03",
   technique="bounded-exhaustive query histories x exhaustive crash-point enumeration on the real database, differential oracle against the implementation's own before/after dumps",
   text="Same enumeration as C02 (histories over H incl. committing and aborted multi-query transactions and a query failing midway; every prefix of the last step's file-system calls); the full ordered dump of every reopened crash image must equal the live database's own dump taken immediately before the step or immediately after it completed (after rollback completed, for failing steps).",
   note="Images that do not open or read are left to C02. Crash model as C02."),
 "C19": dict(level="model_checking", engine="core_checks", design="§4/C19",
   technique="explicit-state breadth-first search with exact state deduplication over the real persistent hash multi-map (scaled minimum capacity) + exhaustive grid of insert/lookup/remove cycle families at the real constants through the public API, with a deterministic probe-step budget as termination oracle",
   text="(a) 40 families (alias map | index value map) x live-set size {0,1,5,30,59} x remove oldest|newest x distinct | all-colliding-mod-64 keys, each 200 (quick) / 2000 (thorough) insert+lookup+remove cycles through Db queries at the real table constants (capacity 64, load 15/16), every query under a budget of 200000 probe steps; (b) BFS over the real MultiMapStorage<u64,u64> with the minimum capacity overridden to 4 (hook), 5 keys x 2 values, <=5 (quick) / <=7 (thorough) entries, once with the operation profile DbIndex uses and once with the profile MapImpl (alias maps) uses, visited set keyed by a 128-bit hash of the raw storage, every state compared with a BTreeMap model and every operation and lookup under a budget of 10000 probe steps.",
   note="Termination oracle: exceeding the probe budget (hook counters in the hash-probe, rehash and edge-list loops) is deemed non-termination. (b) runs at scaled capacity: only operation profiles that the database layer really issues are explored, so that a hang reachable only through unused collection methods (MultiMap iter_key over a table without empty slots, reachable via contains_value) is not reported. The BFS is capped by a state count; the evidence reports the fully covered depth."),
 "C23": dict(level="model_checking", engine="core_checks", design="§4/C23",
   technique="stateless schedule exploration of real OS threads under a baton scheduler (controlled scheduler at the hooked file-system calls of the read path), all interleavings / preemption-bounded, replay-checked",
   text="Real threads read through one shared FileStorage / Arc<RwLock<DbFile>>; every hooked try_lock, fallback open, seek and read of FileStorage::read is a scheduling point owned by the harness. Storage-level harnesses (2 threads x 2 reads of overlapping regions; 3 threads x 1 read of distinct and identical regions): preemption bound 3 (quick) / all interleavings (thorough). Query-level harnesses (select values vs search; select aliases vs index search vs read transaction; thorough: 2 queries per thread): preemption bound 1 (quick) / 2 (thorough). Every thread's results must equal the same calls run alone and none may fail; a failing schedule is re-executed and must reproduce.",
   note="Interleavings inside one system call are not explored; there is no shared mutable memory on this path (safe Rust), the shared state is the kernel file cursor. The evidence reports how many reads found the shared handle busy (contention really explored)."),
 "C32": dict(level="fault_enumeration", engine="core_checks", design="§3, §4/C32",
   technique="bounded-exhaustive query histories x exhaustive single-fault injection at every storage write/resize call of the last step (public StorageData wrapper around the real FileStorage), follow-up step, close and reopen",
   text="Every history of <=1 (quick) / <=2 (thorough) steps over H from 6 base states runs on DbImpl<Faulty(FileStorage)>; for the last step each of its storage write/resize calls (up to ~750 per step) fails once without being performed; the query must return Err, the canonical dump must be unchanged, each follow-up step (1 quick / 6 thorough) must behave exactly as on a never-faulted database, and after close + reopen the follow-up's effect must be present. Every step runs under a probe budget so hangs are reported.",
   note="Fault model: the n-th write/resize returns Err with no side effect; reads, flush and rename never fail. The current tree violates this property by design (no recovery after a failed storage call): listed as open findings, one per failed oracle clause."),
 "C04": dict(level="model_checking", engine="core_checks", design="§4/C04",
   technique="explicit-state breadth-first search with exact state deduplication over the real Storage<MemoryStorage> + bounded-exhaustive lock-step operation sequences on all three back-ends, against a reference model",
   text="(a) BFS from 3 base states over a 35-operation storage alphabet (insert, insert-at incl. beyond the end and zero-length, replace, resize, overlapping/zero-length moves, remove, optimize, reopen) to depth 4 (quick) / 6 (thorough, ~7*10^7 states), visited set keyed by a 128-bit hash of the complete state (raw bytes + record table + free lists); (b) every operation sequence of length <=3 (quick) / <=4 (thorough) executed from scratch on MemoryStorage, FileStorage and FileStorageMemoryMapped. After every operation every index is compared with a BTreeMap<index,bytes> model (whole value, size, reads at offsets, removed indexes unreadable), file length >= live content, and == exactly after optimize.",
   note="Written bytes are a function of (state, operation) so equal states have equal futures. Values and sizes outside the alphabet are not covered. 128-bit state hashes (collision would merge states)."),
 "C05": dict(level="model_checking", engine="core_checks", design="§4/C05",
   technique="bounded-exhaustive query histories x every maintenance operation (and pairs) on the real database, differential oracle (full ordered dump before vs after, plus one further step)",
   text="At every node of the history tree (all histories of <=1 (quick) / <=2 (thorough) steps over the 37-step alphabet H from 6 base states, incl. a state one insert away from rehashing the alias table) each of 9 maintenance operations (reopen same variant, reopen other file variant, optimize_storage, shrink_to_fit, backup+open, backup+open as DbMemory, copy, rename, rename+reopen) and in thorough every ordered pair is applied on DbFile, Db, DbMemory and DbAny(mapped); the full ordered observable dump (elements in id-slot order, values, keys, counts, edge counts, aliases, indexes, index searches, 4 traversals per node) must be unchanged and must still equal the never-maintained database after each of 7 further mutating steps.",
   note="Differential oracle: trusts the dump queries to expose state. Values/keys outside the alphabet and longer histories are not covered."),
 "C06": dict(level="model_checking", engine="core_checks", design="§4/C06",
   technique="bounded-exhaustive query histories executed in lock-step on all six database variants of the real code, differential oracle",
   text="Every history of <=2 (quick) / <=3 (thorough) steps over the 37-step alphabet H (inserts/updates/removals of nodes, edges, values, aliases, indexes; committing and aborted transactions; a query failing midway) from 6 base states is executed in lock-step on DbMemory, DbFile, Db and DbAny x {memory,file,mapped}; every step result (Ok payload or error text) and, at the end of every history, the full observable dump must be identical.",
   note="Variant-independent defects are invisible to this differential oracle (they are the business of C08-C18). Values/keys outside the alphabet are not covered."),
 "C07": dict(level="fault_enumeration", engine="serde_checks", design="§4/C07, harness/serde_checks/NOTES.md",
   technique="exhaustive damage enumeration of seed database files (every truncation, every bit flip, every aligned 8-byte field x boundary values, crafted record headers, damaged/garbage recovery logs, all tiny files), each opened and fully read by the real code in supervised worker processes",
   text="Seed files are produced by scripted histories (quick: one 1.1 KiB seed; thorough: four seeds with indexes, aliases, out-of-line values and free regions); every damaged (file, log) pair of the damage space is opened with Db, DbFile and DbMemory and, if it opens, completely read (elements, values, keys, aliases, edge counts, indexes, index searches). Outcome must be Ok or Err: never a panic, an abort (worker process dies), a single allocation >= 256 MiB or a hang (CPU-time bound).",
   note="Worker processes with a counting allocator; a hang is > 2 s (quick) / 5 s (thorough) of thread CPU time. Open findings (record table sized by an index read from the file, explicit panic on an unknown value type demanded by the repo's own should_panic test, graph.rs overflows, recovery-log hang) are listed in known_findings.json."),
 "C12": dict(level="exploration", engine="serde_checks", design="§4/C12, harness/serde_checks/NOTES.md",
   technique="exhaustive value grid on the real database, bit-for-bit read back",
   text="330 (quick) / 630 (thorough) values of all nine value types (lengths 0..40 around the 15/16-byte inline limit in 1-, 2- and 4-byte characters, extreme integers, float classes incl. signed zeros, subnormals, infinities, quiet/signalling NaN payloads, vectors of 0..5) x used as key and as value x single and bulk insert x 6 database variants x 4 read-back phases (immediately, after relocating inserts, after reopen, after reopen with the other variant); compared by bits. The conversions DbValue::from(f64 / Vec<f64>) are checked bitwise too.",
   note="Grid, not all values."),
 "C20": dict(level="exploration", engine="serde_checks", design="§4/C20, harness/serde_checks/NOTES.md",
   technique="exhaustive boundary-value product over a compiled corpus of 85 serializable types",
   text="85 types (every built-in AgdbSerialize impl, the query types, 25 user types using the derive macros: named/tuple/unit structs, enums with unit/tuple/struct variants, nested, generic, optional, vector fields) x the full product of per-field boundary values capped at 10^4 (quick) / 2*10^5 (thorough) per type: deserialize(serialize(x)) == x (floats by bits), serialized_size(x) == len, decoding tolerates trailing bytes.",
   note="Two open findings: non-UTF-8 paths and IPv6 flow info are serialized through their text form (lossy by format)."),
 "C21": dict(level="fault_enumeration", engine="serde_checks", design="§4/C21, harness/serde_checks/NOTES.md",
   technique="exhaustive mutation enumeration of valid encodings and of all tiny byte strings for 98 deserializers, in supervised worker processes",
   text="For each of 85 deserializers and 13 Vec<T>::try_from(DbValue::Bytes) conversions: every truncation of every seed encoding, every 8-byte window at every offset x 12 boundary values, every byte x 6 values, all byte strings of length <= 3 over {00,01,7f,80,ff}, boundary-8 prefixes + <= 2 bytes, also behind a tag byte (quick 1.06*10^6 cases, thorough 5.5*10^6). Outcome must be Ok or Err: never panic, abort, allocation >= 256 MiB or hang.",
   note="One open finding: Vec of a zero-sized derived type loops by the untrusted length."),
 "C22": dict(level="exploration", engine="serde_checks", design="§4/C22, harness/serde_checks/NOTES.md",
   technique="exhaustive boundary-value product over a compiled corpus of 14 derived user types, stored and read back through the real database",
   text="14 user types (scalar, string, vector, optional, nested-value, flattened, renamed, skipped fields, db_id of every supported type) x per-field boundary products capped at 2000 (quick) / 30000 (thorough) per type: insert singly and in batches of 3, select back as the type, compare; update through the id field and compare every other element's dump.",
   note="One open finding: updating an Option field to None leaves the old property (documented as omission; violates the statement by the letter)."),
 "C08": dict(level="model_checking", engine="core_checks", design="§4/C08-C11,C18",
   technique="bounded-exhaustive command sequences on the real database in lock-step with a reference model (abstract multigraph), ids learned and constrained",
   text="Every sequence of <=5 (quick) / <=6 (thorough) commands over a 14-command alphabet (single, many-to-many and each edge inserts incl. self-loops, parallel edges and a missing endpoint; removals by id, alias and search; id reuse) from 2 base states runs on DbMemory (branching by copy) and on RefDb; after every command: acceptance agrees, new ids have the right sign and a free slot, node count, edge endpoints, per-node total/outgoing/incoming edge counts, cascade removal incl. properties, removed elements not selectable.",
   note="RefDb is written from the property statement and the query reference; values/ids outside the alphabet not covered."),
 "C09": dict(level="model_checking", engine="core_checks", design="§4/C08-C11,C18",
   technique="bounded-exhaustive command sequences on the real database in lock-step with a reference model (per-element ordered key-value map)",
   text="Every sequence of <=5 / <=6 commands over a 14-command alphabet (insert values single/multi/uniform by id, alias, search; insert-or-update of nodes and edges; remove values; element removal and id reuse) from 2 base states; after every command each element's values (in map order while no key was removed or rolled back, as a set afterwards), keys, key count, selection by keys in the requested order, missing key => error, removed element has no properties.",
   note="The relative order of survivors after a key removal or a rolled back query is deliberately not constrained (C13 allows it)."),
 "C10": dict(level="model_checking", engine="core_checks", design="§4/C08-C11,C18",
   technique="bounded-exhaustive command sequences on the real database in lock-step with a reference model (alias bijection)",
   text="Every sequence of <=5 / <=6 commands over a 16-command alphabet (alias on new and existing nodes, re-alias, steal, alias for an edge id, empty alias through both insert paths, multi-alias inserts, alias removal, node/edge removal by id and alias, an aborted transaction moving aliases) from 2 base states; after every command: acceptance agrees (invalid requests rejected without effect), select-all-aliases equals the bijection, per-node alias and alias resolution agree with it.",
   note="as C08"),
 "C11": dict(level="model_checking", engine="core_checks", design="§4/C08-C11,C18",
   technique="bounded-exhaustive command sequences on the real database in lock-step with a reference model (index set over current values)",
   text="Every sequence of <=5 / <=6 commands over a 16-command alphabet (value insert/replace/remove on indexed and non-indexed keys, element removal incl. cascaded edges, index create/remove/create-again, aborted and committing transactions mixing them) from 2 base states; after every command: index listing = per indexed key the number of elements having it, index search for 3 keys x 3 values = exactly the elements whose current value matches (error iff no such index), duplicate index creation rejected.",
   note="as C08"),
 "C14": dict(level="model_checking", engine="search_checks", design="§4/C14, harness/search_checks/NOTES.md",
   technique="exhaustive enumeration of all small multigraph histories x all origins x 4 traversals on the real database against a reference evaluator",
   text="All graph histories (ordered edge insertions incl. self-loops and parallel edges, removal of the j-th oldest edge, node renewal with id reuse) with node slots:history length 1:5, 2:5, 3:5, 4:3 (quick, 4.6*10^5 histories, 3.8*10^7 searches) / 1:7, 2:7, 3:6, 4:5 plus DbFile 3:3 (thorough, 1.2*10^7 histories, 1.15*10^9 searches); every live node and edge as origin x {bfs,dfs} x {from,to}: origin first, result set = reachable set without duplicates, BFS distances non-decreasing with each node's edges newest first, DFS = the unique pre-order with newest-first edges, distances count every element step.",
   note="Only what the statement says is demanded (the order of nodes within a BFS level is free). Graphs beyond the bound are not covered."),
 "C15": dict(level="model_checking", engine="search_checks", design="§4/C15, harness/search_checks/NOTES.md",
   technique="exhaustive enumeration of comparison grids and of all condition lists up to a length over a fixed atom alphabet, on fixed graphs x 4 traversals, against a reference evaluator of the documented truth tables",
   text="A grid of 14787 key-value comparison cells (9 comparison kinds x all value-type pairs incl. cross-type) plus all condition lists of length <= 2 over 60 atoms x 4 modifiers x and/or and where-groups (quick, 9.6*10^4 lists, 1.1*10^7 searches; thorough adds group pairs and all length-3 lists over a 14-atom core, 3.2*10^6 lists, 3.7*10^8 searches) on 4 property-bearing graphs x bfs/dfs x from/to; selection and traversal extent must equal the reference evaluator (type-strict comparisons, documented vector exception).",
   note="Documented-ambiguous corners are judged under every admissible reading (accepted if any matches) and listed in the evidence; beyond/not_beyond joined by or is never generated."),
 "C16": dict(level="model_checking", engine="search_checks", design="§4/C16, harness/search_checks/NOTES.md",
   technique="exhaustive enumeration of (offset, limit) grids x orderings x search kinds on a graph family, differential oracle against the unsliced search",
   text="24 (quick) / 1503 (thorough) graphs x all search kinds (bfs, dfs, both reverse, path, elements) x 4 condition variants x 15 orderings (0-2 keys, asc/desc, mixed presence and types) x the full (offset, limit) grid over 0..n+3 and 2^64-1: result = slice of the same search without limit/offset; with ordering = stable sort by the keys, elements lacking a key last; never Err or panic.",
   note="Between stored values of different types under one ordering key the public Ord of DbValue is assumed."),
 "C17": dict(level="model_checking", engine="search_checks", design="§4/C17, harness/search_checks/NOTES.md",
   technique="exhaustive enumeration of all small multigraphs x endpoint pairs x condition forms and pass/fail/stop assignments, against brute-force minimum cost over all simple paths",
   text="All multigraphs and removal histories on <= 3-4 nodes (quick 9370 graphs, 1.1*10^7 searches; thorough 1.7*10^5 graphs, 6*10^9 searches) x all (origin, destination) pairs incl. equal, missing and edge ids x 10 condition forms + every assignment of pass/fail/stop to the elements: the result is the pass-filtered element list of some path of minimal cost; empty exactly when no usable path / bad endpoint / origin = destination.",
   note="Distance conditions are excluded (not in the statement)."),
 "C18": dict(level="model_checking", engine="core_checks", design="§4/C08-C11,C18",
   technique="bounded-exhaustive command sequences on the real database in lock-step with a reference model; elements search compared at every state incl. all offset/limit pairs",
   text="At every state reached by <=5 / <=6 commands of the C08 alphabet (removals, id reuse) `search().elements()` must list exactly the existing elements in increasing order of |id|; with node(), edge() and keys() conditions exactly the matching ones in that order; and for every (offset, limit) in [0..n+1]^2 the corresponding slice.",
   note="as C08"),
 "C13": dict(level="model_checking", engine="core_checks", design="§4/C13",
   technique="bounded-exhaustive enumeration of aborted transaction bodies and partially failing queries from all states of a bounded history tree, on the real database",
   text="From every state reached by <=1 (quick) / <=2 (thorough) steps of H from 6 base states: every transaction body of 1-2 queries over a 16-query body alphabet and every 3-query body over its 9-query core (value replacement, alias re-assignment and stealing, node removal with edges, index create/remove ...) whose closure then returns Err, and each of 10 single queries that fail after partial work. The order-insensitive canonical dump (elements, endpoints, property sets, aliases, index contents, node count) must be unchanged; every step runs under a hash-probe budget so a rollback that loops forever is reported, not waited for.",
   note="In-memory variant copies of the start state are made with DbImpl::copy (itself checked by C05); thorough adds DbFile with replay from scratch."),
 "C01": dict(level="fault_enumeration", engine="core_checks", design="§3, §4/C01",
   technique="bounded-exhaustive operation sequences x exhaustive crash-point / torn-write / crash-in-recovery enumeration on the real FileStorage (stateless exploration with fault injector)",
   text="Every sequence of <=2 (quick) / <=3 (thorough) storage operations over a 36-op alphabet (incl. nested begin/commit, zero-length and beyond-the-end writes) from 3 base states is run on the real Storage<FileStorage>; for the last operation and for the final drop every prefix of the file-system calls, every byte-prefix of an interrupted log append (3 cut points for data writes) and every prefix of the calls recovery itself makes is turned into a crash image and reopened with FileStorage and FileStorageMemoryMapped; the recovered bytes must equal the content at the last completed outermost transaction (or, monotonically, the content after the transaction the step completes).",
   note="Crash model = prefix of the process's file-system calls with the last one possibly torn (process death, no reordering: the code never syncs). The fs-event hook is trusted to report every mutating call; this is checked each step by comparing the shadow image with the real files. Values/sizes outside the alphabet and sequences longer than the depth are not covered."),
}
NOT_YET = {}
props = [json.loads(l) for l in open('/verif/properties.jsonl')]
checks = []
na = []
for p in props:
    i = p['id']
    if i in CHECKS:
        c = CHECKS[i]
        checks.append({
            "property_id": i,
            "quick_cmd": f"./check {i} --tier quick",
            "thorough_cmd": f"./check {i} --tier thorough",
            "evidence_file": f"/verif/evidence/{i}.json",
            "replay_cmd_template": f"./check {i} --replay {{path}}",
            "engine": c["engine"],
            "level_claimed": {"category": c["level"], "text": c["text"], "design_ref": c["design"]},
            "level_note": c["note"],
            "technique": c["technique"],
        })
    else:
        na.append({"property_id": i, "reason": NOT_YET.get(i, "check not built yet (work in progress; see DESIGN.md §4 for the planned bounded-exhaustive check)")})
m = {
 "version": 1,
 "setup_cmd": "cd /verif && ./setup.sh",
 "hooks": {
   "guard": "agdb_verif",
   "enable": "RUSTFLAGS=--cfg agdb_verif (set in /verif/harness/.cargo/config.toml and /verif/harness_server/.cargo/config.toml; the harness crates depend on /repo/agdb by path, so every check rebuilds from /repo's working tree)",
   "baseline_off_cmd": "cd /repo && cargo nextest run --workspace --no-fail-fast --tool-config-file pb:/w/lib/nextest.toml --profile pb --test-threads 8 --offline",
   "source_commits": HOOK_COMMITS,
   "add_only": True,
 },
 "engines": [
   {"name": "serde_checks", "path": "/verif/harness/serde_checks", "serves_properties": [c for c in CHECKS if CHECKS[c]["engine"]=="serde_checks"], "kind_free_text": "value grids, serialization corpus, damage/mutation enumerators with worker-process isolation"},
   {"name": "search_checks", "path": "/verif/harness/search_checks", "serves_properties": [c for c in CHECKS if CHECKS[c]["engine"]=="search_checks"], "kind_free_text": "exhaustive small-graph / condition-list / slice enumeration against reference evaluators"},
   {"name": "raft_checks", "path": "/verif/harness_raft/raft_checks", "serves_properties": [c for c in CHECKS if CHECKS[c]["engine"]=="raft_checks"], "kind_free_text": "explicit-state and deviation-bounded exploration of the real raft.rs under a virtual clock"},
   {"name": "server_checks", "path": "/verif/harness_server", "serves_properties": [c for c in CHECKS if CHECKS[c]["engine"]=="server_checks"], "kind_free_text": "request-sequence exploration of the in-process server; task-release-order enumeration"},
   {"name": "core_checks", "path": "/verif/harness/core_checks", "serves_properties": [c for c in CHECKS if CHECKS[c]["engine"]=="core_checks"], "kind_free_text": "sequence / crash-point / fault / schedule explorers over the real agdb library (Rust, own engine in /verif/harness/engine)"},
 ],
 "checks": checks,
 "not_applicable": na,
 "notes": "All checks enumerate a stated finite space completely on the real code; see DESIGN.md. known_findings.json lists genuine defects (open => KNOWN-FINDING, fixed => suppresses nothing).",
}
json.dump(m, open('/verif/MANIFEST.json','w'), indent=1)
try:
    import jsonschema
    jsonschema.validate(m, json.load(open('/root/.vp/MANIFEST.schema.json')))
    print("MANIFEST.json valid;", len(checks), "checks,", len(na), "not claimed")
except ImportError:
    print("jsonschema not importable; run with python3-vt")
