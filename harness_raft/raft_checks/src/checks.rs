//! C27, C28, C29: the safety properties. One exploration (E1 from every base
//! state + E2), all invariants evaluated on every transition; the check
//! reports the violations of its own property.

use crate::explore::*;
use crate::world::*;
use engine::{Args, Report, Tier};
use serde_json::json;

pub struct Bounds {
    pub e1_depth: u32,
    pub e1_max_dups: u8,
    pub e1_max_appends: u8,
    pub e1_state_cap: u64,
    pub e2_k: u32,
    pub e2_max_appends: u8,
    pub e2_walk_cap: u32,
    pub e2_state_cap: u64,
    pub e2_term_cap: u64,
}

pub fn bounds(tier: Tier) -> Bounds {
    let env = |k: &str, d: u64| std::env::var(k).ok().and_then(|s| s.parse().ok()).unwrap_or(d);
    match tier {
        Tier::Quick => Bounds {
            e1_depth: env("VERIF_RAFT_E1_DEPTH", 8) as u32,
            e1_max_dups: env("VERIF_RAFT_E1_DUPS", 1) as u8,
            e1_max_appends: env("VERIF_RAFT_E1_APPENDS", 1) as u8,
            e1_state_cap: env("VERIF_RAFT_E1_CAP", 30_000_000),
            e2_k: env("VERIF_RAFT_E2_K", 3) as u32,
            e2_max_appends: env("VERIF_RAFT_E2_APPENDS", 4) as u8,
            e2_walk_cap: env("VERIF_RAFT_E2_WALK", 600) as u32,
            e2_state_cap: env("VERIF_RAFT_E2_CAP", 40_000_000),
            e2_term_cap: env("VERIF_RAFT_E2_TERM_CAP", 8),
        },
        Tier::Thorough => Bounds {
            e1_depth: env("VERIF_RAFT_E1_DEPTH", 10) as u32,
            e1_max_dups: env("VERIF_RAFT_E1_DUPS", 2) as u8,
            e1_max_appends: env("VERIF_RAFT_E1_APPENDS", 2) as u8,
            e1_state_cap: env("VERIF_RAFT_E1_CAP", 60_000_000),
            e2_k: env("VERIF_RAFT_E2_K", 4) as u32,
            e2_max_appends: env("VERIF_RAFT_E2_APPENDS", 5) as u8,
            e2_walk_cap: env("VERIF_RAFT_E2_WALK", 600) as u32,
            e2_state_cap: env("VERIF_RAFT_E2_CAP", 150_000_000),
            e2_term_cap: env("VERIF_RAFT_E2_TERM_CAP", 8),
        },
    }
}

pub fn run(args: &Args) -> i32 {
    if let Some(path) = &args.replay {
        return replay_file(args, path);
    }
    let report = Report::new(args, "model_checking");
    let b = bounds(args.tier);
    let col = Collector::new(&args.property);
    let distinct = Distinct::default();
    let t0 = std::time::Instant::now();

    // ---- E1
    let e1cfg = E1Cfg { depth: b.e1_depth, max_dups: b.e1_max_dups, max_appends: b.e1_max_appends, state_cap: b.e1_state_cap };
    let bases = bases(args.tier == Tier::Thorough);
    let mut e1_states = 0u64;
    let mut e1_trans = 0u64;
    let mut e1_last = 0u64;
    let mut exhaustive = true;
    let mut per_base = vec![];
    for base in &bases {
        let tb = std::time::Instant::now();
        let s = run_e1(base, &e1cfg, &col, args.seed, Some(&distinct));
        e1_states += s.states;
        e1_trans += s.transitions;
        e1_last += s.last_level_states;
        if s.capped {
            exhaustive = false;
        }
        per_base.push(json!({"base": base.name, "base_prefix_events": base.events.len(), "states": s.states, "transitions": s.transitions, "depth_fully_covered": s.full_depth, "states_per_level": s.levels, "capped": s.capped, "wall_s": tb.elapsed().as_secs_f64()}));
        eprintln!("E1 base={} states={} transitions={} depth={} capped={} {:.1}s", base.name, s.states, s.transitions, s.full_depth, s.capped, tb.elapsed().as_secs_f64());
    }
    let t_e1 = t0.elapsed().as_secs_f64();

    // ---- E2
    let e2cfg = E2Cfg { k: b.e2_k, max_appends: b.e2_max_appends, walk_cap: b.e2_walk_cap, state_cap: b.e2_state_cap, term_cap: b.e2_term_cap };
    let t1 = std::time::Instant::now();
    let s2 = run_e2(&bases, &e2cfg, &col, args.seed, Some(&distinct));
    eprintln!("E2 {:?} {:.1}s", s2, t1.elapsed().as_secs_f64());
    if s2.capped || s2.walk_cap_hits > 0 {
        exhaustive = false;
    }

    report.set("states", json!(e1_states + s2.states));
    report.set("transitions", json!(e1_trans + s2.transitions));
    report.set("traces_validated_against_impl", json!(e1_last + s2.executions));
    report.set("exhaustive", json!(exhaustive));
    report.set("distinct_protocol_states_without_ghost", json!(distinct.len()));
    report.set(
        "bounds",
        json!({
            "nodes": N, "quantum_ms": QUANTUM_MS, "election_factor_ms": ELECTION_FACTOR_MS, "heartbeat_ms": HEARTBEAT_MS, "term_timeout_ms": TERM_TIMEOUT_MS, "age_cap_ms": AGE_CAP_MS,
            "e1_depth": b.e1_depth, "e1_max_duplications": b.e1_max_dups, "e1_max_client_appends": b.e1_max_appends, "e1_state_cap_per_base": b.e1_state_cap,
            "e2_max_deviations": b.e2_k, "e2_max_client_appends_including_base_prefix": b.e2_max_appends, "e2_walk_cap_steps": b.e2_walk_cap, "e2_state_cap": b.e2_state_cap, "e2_term_cap": b.e2_term_cap,
        }),
    );
    report.set("e1", json!({"regime": "all interleavings of Tick / Proc(i) / Deliver(m) / DeliverDup(m) / Append(leader), breadth-first, exact deduplication", "per_base": per_base, "states": e1_states, "transitions": e1_trans, "executions_to_depth_bound": e1_last, "wall_s": t_e1}));
    report.set(
        "e2",
        json!({"regime": "fault-free FIFO schedule with <= k deviations (Drop, DeliverDup, Delay, Defer, Skew(i), Isolate(i), Heal, Append(leader)) at every position, run to a fixpoint", "states": s2.states, "transitions": s2.transitions, "executions": s2.executions,
               "states_per_layer": s2.per_layer_states, "executions_per_layer": s2.per_layer_executions, "walk_cap_hits": s2.walk_cap_hits, "states_not_expanded_beyond_term_cap": s2.term_cap_hits, "longest_walk_steps": s2.longest_walk, "capped": s2.capped, "wall_s": t1.elapsed().as_secs_f64()}),
    );
    {
        let mut sk = crate::explore::SKIPPED_BASES.lock().unwrap().clone();
        sk.sort();
        sk.dedup();
        report.set("base_states_skipped_because_their_script_cannot_be_completed_on_this_code", json!(sk));
    }
    report.set("violations_of_sibling_properties_seen", json!(*col.others.lock().unwrap()));
    for base in bases.iter().take(3) {
        report.sample(json!({"regime": "E1", "base": base.name, "base_script": base.events.iter().map(|e| e.to_text()).collect::<Vec<_>>(), "then": "every event sequence up to the depth bound"}));
    }
    let sample_devs = vec![(9u32, Event::Isolate(0)), (40, Event::Heal)];
    report.sample(json!({"regime": "E2", "deviations": sample_devs.iter().map(|(p, e)| json!({"position": p, "event": e.to_text()})).collect::<Vec<_>>(), "events": concretize(&sample_devs, 60).iter().map(|e| e.to_text()).collect::<Vec<_>>()}));
    report.assume("3 nodes; time advances in quanta of 500 ms; timeouts as in the repository's raft tests (election factor 1000 ms, heartbeat 1000 ms, term timeout 3000 ms)");
    report.assume("the log storage is MirrorStorage, written from cluster.rs/cluster_log.rs (see mirror.rs); it never fails and is never restarted");
    report.assume("visited sets hold 128-bit hashes of the canonical state encoding (collision probability negligible at these counts)");
    report.assume("client appends happen only at a node whose state is Leader");
    if args.property == "C27" {
        // other cluster sizes: election-only exploration (see nsize.rs)
        let tn = std::time::Instant::now();
        let ns = crate::nsize::explore(args, &report, args.tier == Tier::Thorough);
        report.set("n45_states", json!(ns.states));
        report.set("n45_transitions", json!(ns.transitions));
        report.set("n45_states_at_depth_bound_not_expanded", json!(ns.last_level));
        report.set("n45_election_only", json!({"what": "N = 4 and N = 5, no client appends, unordered network, breadth-first, exact deduplication; oracle: no two nodes ever Leader for one term", "per_base": ns.per_base, "wall_s": tn.elapsed().as_secs_f64()}));
    }
    col.flush(&report);
    report.finish()
}
