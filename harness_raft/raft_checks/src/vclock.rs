//! Virtual clock substituted for `std::time::Instant` inside raft.rs.
//! Time is a model variable: the explorer sets the thread-local "now" (the
//! node-local clock of the node it is about to call) before every call.
//! `elapsed()` panics on a clock that ran backwards (overflow checks are on),
//! which the harness reports as a machinery failure.

use std::cell::Cell;
use std::time::Duration;

thread_local! {
    static NOW_MS: Cell<u64> = const { Cell::new(0) };
}

pub fn set_now(ms: u64) {
    NOW_MS.with(|n| n.set(ms));
}

pub fn now_ms() -> u64 {
    NOW_MS.with(|n| n.get())
}

#[derive(Clone, Copy, Debug, PartialEq, Eq, PartialOrd, Ord)]
pub struct Instant(u64);

impl Instant {
    pub fn now() -> Self {
        Instant(now_ms())
    }
    pub fn elapsed(&self) -> Duration {
        Duration::from_millis(now_ms() - self.0)
    }
    pub fn ms(&self) -> u64 {
        self.0
    }
}
