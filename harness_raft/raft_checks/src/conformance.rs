//! Binding of MirrorStorage to the real storage.
//! `dump-mirror-traces`: every distinct storage-call trace of length <= 6 that
//! the explorations (E1 from every base, E2) produce on some node, with the
//! mirror's observable answers after every call, written to
//! /verif/harness_raft/mirror_traces.json (format 1, agreed with the server
//! harness, whose `conformance` check replays it against the real
//! ClusterStorage + ClusterLog).
//! `mirror-selftest`: the reverse direction: replays
//! /verif/harness_server/real_storage_traces.json (answers of the REAL storage
//! for all call sequences of length <= 4) against the mirror.

use crate::explore::*;
use crate::mirror::{self, Call, MirrorStorage};
use engine::Args;
use serde_json::{Value, json};

const OUT: &str = "/verif/harness_raft/mirror_traces.json";
const REAL: &str = "/verif/harness_server/real_storage_traces.json";

fn answers(m: &MirrorStorage) -> Value {
    let mut logs = serde_json::Map::new();
    for from in 0..=m.entries.len() as u64 + 1 {
        logs.insert(from.to_string(), json!(m.do_logs(from).iter().map(|e| json!([e.index, e.term, e.data])).collect::<Vec<_>>()));
    }
    json!({"log_index": m.index, "log_term": m.term, "log_commit": m.commit, "logs": Value::Object(logs)})
}

pub fn dump(args: &Args) -> i32 {
    mirror::record_traces(true);
    let col = Collector::new("none");
    let bases = bases(false);
    let depth: u32 = std::env::var("VERIF_RAFT_E1_DEPTH").ok().and_then(|s| s.parse().ok()).unwrap_or(8);
    let cfg = E1Cfg { depth, max_dups: 1, max_appends: 2, state_cap: 20_000_000 };
    for b in &bases {
        run_e1(b, &cfg, &col, args.seed, None);
    }
    let e2 = E2Cfg { k: 3, max_appends: 3, walk_cap: 600, state_cap: 20_000_000, term_cap: 8 };
    run_e2(&bases, &e2, &col, args.seed, None);
    mirror::record_traces(false);
    let traces = mirror::take_traces();
    let mut out = vec![];
    for t in &traces {
        let mut m = MirrorStorage::default();
        let mut calls = vec![];
        for c in t {
            match c {
                Call::Append { index, term, data } => {
                    m.do_append(*index, *term, *data);
                    calls.push(json!({"op": "append", "index": index, "term": term, "data": data, "after": answers(&m)}));
                }
                Call::Commit { index } => {
                    m.do_commit(*index);
                    calls.push(json!({"op": "commit", "index": index, "after": answers(&m)}));
                }
            }
        }
        out.push(json!({"calls": calls}));
    }
    let doc = json!({"format": 1, "source": "raft_checks dump-mirror-traces: distinct storage-call traces (length <= 6) of single nodes during E1 (all bases) and E2 (k<=3), answers of MirrorStorage", "traces": out});
    std::fs::write(OUT, serde_json::to_string(&doc).unwrap()).unwrap_or_else(|e| engine::machinery_failure(&format!("{OUT}: {e}")));
    let by_len: Vec<usize> = (1..=mirror::TRACE_MAX).map(|l| traces.iter().filter(|t| t.len() == l).count()).collect();
    println!("wrote {} traces to {OUT} (by length 1..6: {by_len:?})", traces.len());
    0
}

pub fn selftest() -> i32 {
    let text = match std::fs::read_to_string(REAL) {
        Ok(t) => t,
        Err(e) => engine::machinery_failure(&format!("{REAL}: {e} (generate it with `server_checks conformance` while {OUT} is absent)")),
    };
    let v: Value = serde_json::from_str(&text).unwrap_or_else(|e| engine::machinery_failure(&format!("{REAL}: {e}")));
    let traces = v["traces"].as_array().cloned().unwrap_or_default();
    let mut calls_checked = 0u64;
    for (ti, t) in traces.iter().enumerate() {
        let mut m = MirrorStorage::default();
        for (ci, c) in t["calls"].as_array().unwrap().iter().enumerate() {
            match c["op"].as_str() {
                Some("append") => m.do_append(c["index"].as_u64().unwrap(), c["term"].as_u64().unwrap(), c["data"].as_u64().unwrap() as u8),
                Some("commit") => m.do_commit(c["index"].as_u64().unwrap()),
                _ => engine::machinery_failure("bad op in real_storage_traces.json"),
            }
            let mine = answers(&m);
            let real = &c["after"];
            for k in ["log_index", "log_term", "log_commit"] {
                if mine[k] != real[k] {
                    println!("MIRROR-DISAGREES trace {ti} call {ci} field {k}: mirror {} real {}\ntrace: {}", mine[k], real[k], t);
                    return 1;
                }
            }
            for (from, rl) in real["logs"].as_object().unwrap() {
                let ml = m.do_logs(from.parse().unwrap());
                let mlj = json!(ml.iter().map(|e| json!([e.index, e.term, e.data])).collect::<Vec<_>>());
                if &mlj != rl {
                    println!("MIRROR-DISAGREES trace {ti} call {ci} logs({from}): mirror {mlj} real {rl}\ntrace: {t}");
                    return 1;
                }
            }
            calls_checked += 1;
        }
    }
    println!("mirror agrees with the real storage on {} traces ({} calls, every answer compared)", traces.len(), calls_checked);
    0
}
