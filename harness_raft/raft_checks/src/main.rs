//! Checks of the server's consensus code (C27-C30): explicit-state exploration
//! of the real `agdb_server/src/raft.rs`.
//! `raft_checks <C27|C28|C29|C30> [--tier quick|thorough] [--replay file]`
//! `raft_checks dump-mirror-traces` | `raft_checks mirror-selftest` | `raft_checks show-default`

#[allow(dead_code, clippy::all)]
mod raft {
    include!(concat!(env!("OUT_DIR"), "/raft.rs"));
}
mod mirror;
mod server_error;
mod vclock;
mod world;
mod sched;
mod explore;
mod checks;
mod c30;
mod conformance;
mod nsize;
#[cfg(feature = "sr")]
mod sr;

fn main() {
    let args = engine::parse_args();
    engine::install_quiet_panic_hook();
    let code = match args.property.as_str() {
        "show-default" => {
            let mut w = world::World::new(false);
            for step in 0..80 {
                let ev = sched::default_event(&w);
                let v = w.apply(ev).unwrap();
                println!("{step:3} t={:5} {:12} {:?} {}", w.now, ev.to_text(), (0..3).map(|i| { let s = w.snap(i); format!("{}:{}", world::state_name(s.kind, s.payload), s.term) }).collect::<Vec<_>>(), v.len());
            }
            println!("{}", serde_json::to_string_pretty(&w.observe()).unwrap());
            0
        }
        "run-from-base" => {
            // run-from-base <base name> <len> <pos:Event>...   (deviation script relative to the base, FIFO regime)
            let name = args.extra.first().cloned().unwrap_or_default();
            let bases = explore::bases(true);
            let b = bases.iter().find(|b| b.name == name).unwrap_or_else(|| engine::machinery_failure("no such base"));
            let len: u32 = args.extra.get(1).and_then(|s| s.parse().ok()).unwrap_or(40);
            let devs: Vec<(u32, world::Event)> = args.extra[2..].iter().map(|s| { let (p, e) = s.split_once(':').unwrap(); (p.parse().unwrap(), world::Event::parse(e).unwrap()) }).collect();
            let events = explore::concretize_from(&b.world, &devs, len);
            let w = explore::Witness { regime: "E2", base: b.events.clone(), multiset: false, events, devs };
            let (_v, obs, log) = explore::replay_witness(&w, "C28");
            for l in log.as_array().unwrap().iter().skip(b.events.len()) { println!("{}", l.as_str().unwrap()); }
            println!("{}", serde_json::to_string(&obs["nodes"]).unwrap());
            0
        }
        "show-script" => {
            // show-script <len> <pos:Event>...   e.g. show-script 120 6:Isolate(0)
            let len: u32 = args.extra.first().and_then(|s| s.parse().ok()).unwrap_or(100);
            let devs: Vec<(u32, world::Event)> = args.extra[1..].iter().map(|s| { let (p, e) = s.split_once(':').unwrap(); (p.parse().unwrap(), world::Event::parse(e).unwrap()) }).collect();
            let events = explore::concretize(&devs, len);
            let w = explore::Witness { regime: "E2", base: vec![], multiset: false, events, devs };
            let (_v, obs, log) = explore::replay_witness(&w, "C27");
            for l in log.as_array().unwrap() { println!("{}", l.as_str().unwrap()); }
            println!("{}", serde_json::to_string_pretty(&obs).unwrap());
            0
        }
        #[cfg(feature = "sr")]
        "sr-crosscheck" => sr::crosscheck(&args),
        "dump-mirror-traces" => conformance::dump(&args),
        "mirror-selftest" => conformance::selftest(),
        "C27" | "C28" | "C29" => checks::run(&args),
        "C30" => c30::run(&args),
        other => engine::machinery_failure(&format!("raft_checks: unknown property {other}")),
    };
    std::process::exit(code);
}
