//! C30 — a healthy cluster elects exactly one leader and replicates.
//!
//! The fault-free reachable graph is built explicitly: in every state any
//! in-flight message may be delivered (all delivery orders), any node whose
//! `process()` is due may run it, the clock advances one quantum only when
//! the network is empty and no `process()` is due ("all messages delivered,
//! timers as configured"), and a client may append at the leader while the
//! append budget lasts (only when exactly one node is in state Leader).
//! Start states: the initial state and every post-partition state
//! (`default* Isolate(i) default* [Append default*] Heal`).
//! GOAL = exactly one leader, followed by every other node, and every value appended since the start state
//! as well as every entry the leader holds as committed
//! is committed, as the leader's entry, on every node.
//! Property: every infinite path visits GOAL again and again: the subgraph of
//! non-GOAL states has no cycle, no state beyond the term cap, and GOAL is
//! only left by a client append.

use crate::sched::default_event;
use crate::world::*;
use engine::{Args, Report, Tier};
use serde_json::{Value, json};
use std::collections::HashMap;

struct Cfg {
    max_appends: u8,
    partition_appends: u8,
    term_slack: u64,
    state_cap: usize,
    /// may a client append while an earlier append is not yet committed everywhere?
    overlapping_appends: bool,
    /// partitions start and heal only when no message is in flight
    quiescent_partition_points: bool,
    /// FIFO regime: reorderings (Defer) and client appends per execution
    max_defers: u8,
    max_appends_fifo: u8,
}

fn cfg(tier: Tier) -> Cfg {
    let env = |k: &str, d: u64| std::env::var(k).ok().and_then(|s| s.parse().ok()).unwrap_or(d);
    match tier {
        Tier::Quick => Cfg { max_appends: env("VERIF_C30_APPENDS", 1) as u8, partition_appends: env("VERIF_C30_PAPPENDS", 1) as u8, term_slack: env("VERIF_C30_TERMS", 5), state_cap: env("VERIF_C30_CAP", 6_000_000) as usize, overlapping_appends: env("VERIF_C30_OVERLAP", 0) != 0, quiescent_partition_points: env("VERIF_C30_QUIESCENT", 1) != 0, max_defers: env("VERIF_C30_DEFERS", 2) as u8, max_appends_fifo: env("VERIF_C30_FAPPENDS", 2) as u8 },
        Tier::Thorough => Cfg { max_appends: env("VERIF_C30_APPENDS", 1) as u8, partition_appends: env("VERIF_C30_PAPPENDS", 1) as u8, term_slack: env("VERIF_C30_TERMS", 6), state_cap: env("VERIF_C30_CAP", 40_000_000) as usize, overlapping_appends: env("VERIF_C30_OVERLAP", 0) != 0, quiescent_partition_points: env("VERIF_C30_QUIESCENT", 0) != 0, max_defers: env("VERIF_C30_DEFERS", 2) as u8, max_appends_fifo: env("VERIF_C30_FAPPENDS", 2) as u8 },
    }
}

#[derive(Clone)]
struct Start {
    /// concrete FIFO-regime events from the initial state
    base: Vec<Event>,
    world: World,
    partitioned: bool,
    /// true: every delivery order (unordered network); false: FIFO default schedule with bounded reorderings
    all_orders: bool,
    /// nodes booted at different times (clock leads applied to the initial state)
    boot_offsets: bool,
    /// budget class: 0 = the tier's full budgets, 1 = lean (1 reordering, 1 append; no append in the all-orders regime)
    class: u8,
}

impl Start {
    fn label(&self) -> &'static str {
        match (self.partitioned, self.boot_offsets, self.all_orders) {
            (false, false, true) => "initial/all-orders",
            (false, false, false) => "initial/fifo+reorderings",
            (false, true, true) => "staggered-boot/all-orders",
            (false, true, false) => "staggered-boot/fifo+reorderings",
            (true, _, true) => "post-partition/all-orders",
            (true, _, false) => "post-partition/fifo+reorderings",
        }
    }
}

fn max_term(w: &World) -> u64 {
    (0..N).map(|i| w.nodes[i].v_term()).max().unwrap()
}

/// GOAL, and if not: why not (for the classification of a cycle)
fn goal(w: &World, base_appends: u8) -> Result<(), &'static str> {
    let leaders = w.leaders();
    if leaders.is_empty() {
        return Err("no-leader");
    }
    if leaders.len() > 1 {
        return Err("several-leaders");
    }
    let l = leaders[0];
    // "the cluster has elected a leader": every node knows it (Cluster::leader() answers l everywhere)
    if !(0..N).all(|i| i == l || w.nodes[i].v_state() == (crate::raft::V_FOLLOWER, l as u64)) {
        return Err("leader-not-followed-by-all");
    }
    for d in base_appends + 1..=w.appends {
        if !w.nodes[l].storage.entries.iter().any(|e| e.data == d) {
            return Err("entry-lost-at-leader");
        }
    }
    // every entry appended since the start state, and every entry the leader holds as committed (it was
    // appended at a leader and acknowledged, possibly on the majority side of the partition), is committed
    // as the same entry on every node
    // (an entry in the settled leader's log is never removed again, so it has to become committed: this
    // includes an entry of an older term that was replicated but not yet committed at a leader change)
    for le in w.nodes[l].storage.entries.iter() {
        for i in 0..N {
            let ok = w.nodes[i].storage.entries.iter().any(|e| e.data == le.data && e.index == le.index && e.term == le.term && e.committed);
            if !ok {
                return Err("entry-not-committed-everywhere");
            }
        }
    }
    Ok(())
}

/// (reorderings, appends in the FIFO regime, appends in the all-orders regime) of a budget class
fn budgets(c: &Cfg, class: u8) -> (u8, u8, u8) {
    if class == 0 { (c.max_defers, c.max_appends_fifo, c.max_appends) } else { (1, 1, 0) }
}

fn enabled(w: &World, base_appends: u8, c: &Cfg, class: u8) -> Vec<Event> {
    let mut evs = vec![];
    for k in 0..w.net.len() {
        if k > 0 && w.net[k].enc == w.net[k - 1].enc {
            continue;
        }
        evs.push(Event::Deliver(k as u8));
    }
    let mut due = false;
    for i in 0..N {
        if w.proc_effective(i) {
            evs.push(Event::Proc(i as u8));
            due = true;
        }
    }
    if w.net.is_empty() && !due {
        evs.push(Event::Tick);
    }
    let leaders = w.leaders();
    if leaders.len() == 1 && w.appends - base_appends < budgets(c, class).2 {
        // the client writes once leadership is established: every other node follows this leader
        let l = leaders[0];
        let all_follow = (0..N).all(|i| i == l || w.nodes[i].v_state() == (crate::raft::V_FOLLOWER, l as u64));
        let overlapping = w.appends > base_appends && goal(w, base_appends).is_err();
        if all_follow && (!overlapping || c.overlapping_appends) {
            evs.push(Event::Append(l as u8));
        }
    }
    evs
}

/// walk the default schedule from `w`, calling `f` on every new state, until a state repeats
fn walk_default(mut w: World, mut evs: Vec<Event>, seen: &mut HashMap<u128, ()>, term_cap: u64, f: &mut dyn FnMut(&World, &Vec<Event>)) {
    let mut n = 0;
    loop {
        let h = w.hash(false);
        if seen.insert(h, ()).is_some() {
            return;
        }
        f(&w, &evs);
        if max_term(&w) > term_cap {
            return;
        }
        let ev = default_event(&w);
        w.apply(ev).unwrap();
        evs.push(ev);
        n += 1;
        if n > 5000 {
            engine::machinery_failure("C30: default schedule does not reach a known state within 5000 steps");
        }
    }
}

fn start_states(c: &Cfg) -> Vec<Start> {
    let mk = |base: Vec<Event>, world: World, partitioned: bool, all_orders: bool, boot_offsets: bool, class: u8| Start { base, world, partitioned, all_orders, boot_offsets, class };
    let mut starts = vec![mk(vec![], World::new(false), false, true, false, 0), mk(vec![], World::new(false), false, false, false, 0)];
    // the nodes need not boot at the same instant: node 1 up to 1.5 s, node 2 up to 2.5 s before node 0
    // (their first election timeouts are 1 s and 2 s, so this covers every order and coincidence of the
    // first timer expirations, the split first election included)
    for o1 in 0..=3u32 {
        for o2 in 0..=5u32 {
            if o1 == 0 && o2 == 0 {
                continue;
            }
            let mut w = World::new(false);
            let mut e = vec![];
            for _ in 0..o1 {
                w.apply(Event::Skew(1)).unwrap();
                e.push(Event::Skew(1));
            }
            for _ in 0..o2 {
                w.apply(Event::Skew(2)).unwrap();
                e.push(Event::Skew(2));
            }
            let class = 1; // lean budgets: 1 reordering, 1 append (FIFO), no append in the all-orders regime
            // thorough tier: every delivery order for the coincidences (node 1 and/or node 2 expire together with node 0)
            if (o1 == 2 || o1 == 0) && (o2 == 4 || o2 == 0) && !c.quiescent_partition_points {
                starts.push(mk(e.clone(), w.clone(), false, true, true, class));
            }
            starts.push(mk(e, w, false, false, true, class));
        }
    }
    // layer A: states of the fault-free default run
    let mut a: Vec<(World, Vec<Event>)> = vec![];
    let mut seen_a = HashMap::new();
    walk_default(World::new(false), vec![], &mut seen_a, 8, &mut |w, e| a.push((w.clone(), e.clone())));
    // layer B: partitioned states (the partition may begin at EVERY position); then client appends at a leader.
    // `calm` = the partition began and (below) ends while no message is in flight; in the quick tier only
    // calm partitions get the full budgets, the others the lean ones. Calm points go first so that a state
    // reachable both ways is explored with the full budgets.
    let mut seen_b = HashMap::new();
    let mut b: Vec<(World, Vec<Event>, bool)> = vec![];
    for calm_pass in [true, false] {
        for (w, e) in &a {
            if w.net.is_empty() != calm_pass {
                continue;
            }
            for i in 0..N {
                let mut w2 = w.clone();
                w2.apply(Event::Isolate(i as u8)).unwrap();
                let mut e2 = e.clone();
                e2.push(Event::Isolate(i as u8));
                walk_default(w2, e2, &mut seen_b, 8, &mut |w, e| b.push((w.clone(), e.clone(), calm_pass)));
            }
        }
    }
    let mut layers = vec![b];
    for _ in 0..c.partition_appends {
        let mut next: Vec<(World, Vec<Event>, bool)> = vec![];
        for (w, e, calm) in layers.last().unwrap() {
            for l in w.leaders() {
                let mut w2 = w.clone();
                w2.apply(Event::Append(l as u8)).unwrap();
                let mut e2 = e.clone();
                e2.push(Event::Append(l as u8));
                let calm = *calm;
                walk_default(w2, e2, &mut seen_b, 8, &mut |w, e| next.push((w.clone(), e.clone(), calm)));
            }
        }
        layers.push(next);
    }
    // the scripted base states of E1/E2 that are fault-free from now on (deeper partition histories than the
    // systematic family below: e.g. the new leader two committed entries ahead of the rejoining stale leader)
    for b in crate::explore::bases(true) {
        if b.world.isolated.is_none() && b.world.held.is_empty() && !b.events.is_empty() {
            starts.push(mk(b.events.clone(), b.world.clone(), b.events.iter().any(|e| matches!(e, Event::Isolate(_))), false, false, 0));
        }
    }
    let mut seen_s: HashMap<u128, ()> = HashMap::new();
    for calm_pass in [true, false] {
        for layer in &layers {
            for (w, e, calm_begin) in layer {
                let calm = *calm_begin && w.net.is_empty() && w.delayed.is_empty();
                if calm != calm_pass {
                    continue;
                }
                let mut w2 = w.clone();
                w2.apply(Event::Heal).unwrap();
                let mut e2 = e.clone();
                e2.push(Event::Heal);
                let mut m = w2.clone();
                m.multiset = true;
                m.net.sort_by(|a, b| a.enc.cmp(&b.enc));
                if seen_s.insert(m.hash(false), ()).is_none() {
                    let class = if c.quiescent_partition_points && !calm { 1 } else { 0 };
                    starts.push(mk(e2, w2, true, false, false, class));
                }
            }
        }
    }
    starts
}

struct NodeRec {
    parent: u32,
    ev: Event,
    root: u32,
    depth: u32,
    goal: bool,
    why: &'static str,
    capped: bool,
    flags: u32,
    succ: Vec<(u32, Event)>,
}

struct Graph {
    nodes: Vec<NodeRec>,
    transitions: u64,
    capped: bool,
}

/// the two ghost flags that C30 keeps (everything else of the ghost state is dropped): they only
/// name HOW a node came to hold an entry the leader does not have below a stored one
const KEPT_FLAGS: u32 = F_APPEND_ON_DIVERGENT_PREFIX | F_DIVERGENT_BY_BATCH;

fn strip_ghost(w: &mut World) {
    let f = w.ghost.flags & KEPT_FLAGS;
    w.ghost = Ghost::default();
    w.ghost.flags = f;
}

fn gkey(w: &World, base_appends: u8, defers: u8, class: u8) -> u128 {
    let mut k = w.key(false);
    k.extend_from_slice(&(w.ghost.flags & KEPT_FLAGS).to_le_bytes());
    k.push(base_appends);
    k.push(defers);
    k.push(class);
    hash128(&k)
}

/// events of the FIFO regime: the default schedule, plus (budget permitting) one reordering or a client append
fn enabled_fifo(w: &World, base_appends: u8, defers: u8, c: &Cfg, class: u8) -> Vec<(Event, u8)> {
    let mut evs = vec![(default_event(w), defers)];
    if w.net.len() >= 2 && defers < budgets(c, class).0 {
        evs.push((Event::Defer(0), defers + 1));
    }
    // the client writes at a leader that every other node either follows or - a deposed leader of a LOWER
    // term that has not noticed yet - cannot compete with
    if w.appends - base_appends < budgets(c, class).1 {
        for l in w.leaders() {
            let t = w.nodes[l].v_term();
            let ok = (0..N).all(|i| i == l || w.nodes[i].v_state() == (crate::raft::V_FOLLOWER, l as u64) || (w.is_leader(i) && w.nodes[i].v_term() < t));
            if ok {
                evs.push((Event::Append(l as u8), defers));
            }
        }
    }
    evs
}

fn build(starts: &[Start], c: &Cfg) -> Graph {
    let mut index: HashMap<u128, u32> = HashMap::new();
    let mut g = Graph { nodes: vec![], transitions: 0, capped: false };
    // (node id, world, appends before the start state, term cap, reorderings used)
    let mut queue: std::collections::VecDeque<(u32, World, u8, u64, u8)> = Default::default();
    for (ri, s) in starts.iter().enumerate() {
        let mut w = s.world.clone();
        if s.all_orders {
            w.multiset = true;
            w.net.sort_by(|a, b| a.enc.cmp(&b.enc));
        }
        strip_ghost(&mut w);
        let ba = w.appends;
        let h = gkey(&w, ba, 0, s.class);
        if index.contains_key(&h) {
            continue;
        }
        let id = g.nodes.len() as u32;
        index.insert(h, id);
        let gl = goal(&w, ba);
        g.nodes.push(NodeRec { parent: u32::MAX, ev: Event::Tick, root: ri as u32, depth: 0, goal: gl.is_ok(), why: gl.err().unwrap_or(""), capped: false, flags: w.ghost.flags, succ: vec![] });
        let cap = max_term(&w) + c.term_slack;
        queue.push_back((id, w, ba, cap, 0));
    }
    while let Some((id, w, ba, cap, defers)) = queue.pop_front() {
        if max_term(&w) > cap {
            g.nodes[id as usize].capped = true;
            continue;
        }
        if g.nodes.len() > c.state_cap {
            g.capped = true;
            break;
        }
        let class = starts[g.nodes[id as usize].root as usize].class;
        let evs: Vec<(Event, u8)> = if w.multiset { enabled(&w, ba, c, class).into_iter().map(|e| (e, 0)).collect() } else { enabled_fifo(&w, ba, defers, c, class) };
        for (ev, d2) in evs {
            let mut w2 = w.clone();
            w2.apply(ev).unwrap_or_else(|e| panic!("HARNESS: C30 event {} refused: {e}", ev.to_text()));
            strip_ghost(&mut w2);
            g.transitions += 1;
            let h = gkey(&w2, ba, d2, class);
            let tid = match index.get(&h) {
                Some(t) => *t,
                None => {
                    let t = g.nodes.len() as u32;
                    index.insert(h, t);
                    let gl = goal(&w2, ba);
                    let (root, depth) = (g.nodes[id as usize].root, g.nodes[id as usize].depth + 1);
                    g.nodes.push(NodeRec { parent: id, ev, root, depth, goal: gl.is_ok(), why: gl.err().unwrap_or(""), capped: false, flags: w2.ghost.flags, succ: vec![] });
                    queue.push_back((t, w2, ba, cap, d2));
                    t
                }
            };
            g.nodes[id as usize].succ.push((tid, ev));
        }
    }
    g
}

fn path_to(g: &Graph, mut id: u32) -> (u32, Vec<Event>) {
    let mut evs = vec![];
    while g.nodes[id as usize].parent != u32::MAX {
        evs.push(g.nodes[id as usize].ev);
        id = g.nodes[id as usize].parent;
    }
    evs.reverse();
    (g.nodes[id as usize].root, evs)
}

struct Case {
    signature: String,
    what: String,
    root: u32,
    stem: Vec<Event>,
    cycle: Vec<Event>,
    kind: &'static str,
}

#[derive(Default)]
struct Cases {
    best: std::collections::BTreeMap<String, (Case, u64)>,
}

impl Cases {
    fn push(&mut self, c: Case) {
        match self.best.get_mut(&c.signature) {
            None => {
                self.best.insert(c.signature.clone(), (c, 1));
            }
            Some(e) => {
                e.1 += 1;
                if c.stem.len() + c.cycle.len() < e.0.stem.len() + e.0.cycle.len() {
                    e.0 = c;
                }
            }
        }
    }
}

/// strongly connected components (iterative Tarjan); returns component id per node and component sizes
fn sccs(g: &Graph) -> (Vec<u32>, Vec<u32>) {
    let n = g.nodes.len();
    const UN: u32 = u32::MAX;
    let mut idx = vec![UN; n];
    let mut low = vec![0u32; n];
    let mut on = vec![false; n];
    let mut comp = vec![UN; n];
    let mut sizes: Vec<u32> = vec![];
    let mut st: Vec<u32> = vec![];
    let mut counter = 0u32;
    for s in 0..n {
        if idx[s] != UN {
            continue;
        }
        let mut call: Vec<(u32, usize)> = vec![(s as u32, 0)];
        idx[s] = counter;
        low[s] = counter;
        counter += 1;
        st.push(s as u32);
        on[s] = true;
        while let Some(&mut (u, ref mut k)) = call.last_mut() {
            let ui = u as usize;
            if *k < g.nodes[ui].succ.len() {
                let v = g.nodes[ui].succ[*k].0 as usize;
                *k += 1;
                if idx[v] == UN {
                    idx[v] = counter;
                    low[v] = counter;
                    counter += 1;
                    st.push(v as u32);
                    on[v] = true;
                    call.push((v as u32, 0));
                } else if on[v] {
                    low[ui] = low[ui].min(idx[v]);
                }
            } else {
                if low[ui] == idx[ui] {
                    let c = sizes.len() as u32;
                    let mut size = 0;
                    loop {
                        let x = st.pop().unwrap() as usize;
                        on[x] = false;
                        comp[x] = c;
                        size += 1;
                        if x == ui {
                            break;
                        }
                    }
                    sizes.push(size);
                }
                call.pop();
                if let Some(&(p, _)) = call.last() {
                    let pi = p as usize;
                    low[pi] = low[pi].min(low[ui]);
                }
            }
        }
    }
    (comp, sizes)
}

/// shortest cycle through v inside its component
fn cycle_through(g: &Graph, comp: &[u32], v: u32) -> Vec<Event> {
    let c = comp[v as usize];
    let mut prev: HashMap<u32, (u32, Event)> = HashMap::new();
    let mut q = std::collections::VecDeque::new();
    q.push_back(v);
    while let Some(u) = q.pop_front() {
        for (t, ev) in &g.nodes[u as usize].succ {
            if comp[*t as usize] != c {
                continue;
            }
            if *t == v {
                let mut evs = vec![*ev];
                let mut x = u;
                while x != v {
                    let (p, e) = prev[&x];
                    evs.push(e);
                    x = p;
                }
                evs.reverse();
                return evs;
            }
            if !prev.contains_key(t) {
                prev.insert(*t, (u, *ev));
                q.push_back(*t);
            }
        }
    }
    vec![]
}

fn analyse(g: &Graph, starts: &[Start]) -> (Cases, u64, u64, u64) {
    let mut cases = Cases::default();
    let from = |root: u32| starts[root as usize].label();
    let mut goal_entries = 0u64;
    for (id, nd) in g.nodes.iter().enumerate() {
        if nd.capped {
            // a fault-free run that needs more than `term_slack` new terms has not settled, whatever the
            // momentary number of leaders
            let (root, stem) = path_to(g, id as u32);
            cases.push(Case { signature: format!("elections-do-not-settle|from={}", from(root)), what: format!("a fault-free schedule from the {} state keeps electing: the terms exceed the start term by more than the cap", from(root)), root, stem, cycle: vec![], kind: "term-cap" });
        }
        for (t, _ev) in &nd.succ {
            if !nd.goal && g.nodes[*t as usize].goal {
                goal_entries += 1;
            }
        }
    }
    // eventually-always GOAL: no cycle may contain a non-goal state
    let (comp, sizes) = sccs(g);
    let mut bad_sccs = 0u64;
    let mut worst: HashMap<u32, u32> = HashMap::new(); // component -> non-goal member of least depth
    for (id, nd) in g.nodes.iter().enumerate() {
        let c = comp[id];
        let nontrivial = sizes[c as usize] > 1 || nd.succ.iter().any(|s| s.0 as usize == id);
        if nontrivial && !nd.goal {
            let e = worst.entry(c).or_insert(id as u32);
            if nd.depth < g.nodes[*e as usize].depth {
                *e = id as u32;
            }
        }
    }
    let mut comps: Vec<(u32, u32)> = worst.into_iter().collect();
    comps.sort();
    for (c, v) in comps {
        bad_sccs += 1;
        let cycle = cycle_through(g, &comp, v);
        let mut whys: Vec<&str> = g.nodes.iter().enumerate().filter(|(i, n)| comp[*i] == c && !n.goal).map(|(_, n)| n.why).collect();
        whys.sort();
        whys.dedup();
        let timed = cycle.iter().any(|e| matches!(e, Event::Tick));
        let dead = cycle.iter().all(|e| matches!(e, Event::Tick));
        let (root, stem) = path_to(g, v);
        let fl = g.nodes[v as usize].flags;
        let cause = if fl & F_DIVERGENT_BY_BATCH != 0 {
            "|cause=reconcile-batch-on-divergent-log"
        } else if fl & F_APPEND_ON_DIVERGENT_PREFIX != 0 {
            "|cause=single-append-on-divergent-log"
        } else {
            ""
        };
        let sig = format!("never-settles|{}|{}|from={}{}", whys.join("+"), if dead { "quiescent-nothing-ever-fires" } else if timed { "time-advances" } else { "zero-time-message-loop" }, from(root), cause);
        cases.push(Case { signature: sig, what: format!("a fault-free schedule from the {} state {} without one leader followed by all and everything committed ({}); the loop has {} steps", from(root), if dead { "ends in a state in which no message is in flight and no timer will ever fire," } else { "runs forever through states" }, whys.join("+"), cycle.len()), root, stem, cycle, kind: "cycle" });
    }
    // longest way to the goal (steps) over the acyclic non-goal part
    let n = g.nodes.len();
    let mut longest = vec![0u32; n];
    if bad_sccs == 0 {
        // nodes in reverse topological order = increasing component id of Tarjan (components are emitted sinks first)
        let mut order: Vec<u32> = (0..n as u32).collect();
        order.sort_by_key(|&i| comp[i as usize]);
        for &u in &order {
            let nd = &g.nodes[u as usize];
            if nd.goal {
                continue;
            }
            let mut m = 0;
            for (t, _) in &nd.succ {
                let tn = &g.nodes[*t as usize];
                m = m.max(if tn.goal { 1 } else { longest[*t as usize] + 1 });
            }
            longest[u as usize] = m;
        }
    }
    let max_steps = longest.iter().cloned().max().unwrap_or(0) as u64;
    let goals = g.nodes.iter().filter(|x| x.goal).count() as u64;
    (cases, goal_entries, max_steps, goals)
}

fn case_json(c: &Case, starts: &[Start]) -> Value {
    json!({
        "regime": "C30",
        "kind": c.kind,
        "base": starts[c.root as usize].base.iter().map(|e| e.to_text()).collect::<Vec<_>>(),
        "multiset": starts[c.root as usize].all_orders,
        "stem": c.stem.iter().map(|e| e.to_text()).collect::<Vec<_>>(),
        "cycle": c.cycle.iter().map(|e| e.to_text()).collect::<Vec<_>>(),
        "expect_signature": c.signature,
    })
}

/// re-execute a case on the real code; returns (still violates, log, final observation)
fn replay_case(r: &Value) -> (bool, Vec<String>, Value) {
    let evs = |x: &Value| -> Vec<Event> { x.as_array().map(|a| a.iter().map(|e| Event::parse(e.as_str().unwrap_or("")).unwrap_or_else(|| engine::machinery_failure("replay file: bad event"))).collect()).unwrap_or_default() };
    let base = evs(&r["base"]);
    let stem = evs(&r["stem"]);
    let cycle = evs(&r["cycle"]);
    let kind = r["kind"].as_str().unwrap_or("");
    let mut w = World::new(false);
    let mut log = vec![];
    for e in &base {
        w.apply(*e).unwrap_or_else(|x| engine::machinery_failure(&format!("replay: base event {} refused: {x}", e.to_text())));
    }
    if r["multiset"].as_bool().unwrap_or(true) {
        w.multiset = true;
        w.net.sort_by(|a, b| a.enc.cmp(&b.enc));
    }
    let ba = w.appends;
    let start_term = max_term(&w);
    let line = |w: &World, e: &Event, phase: &str, log: &mut Vec<String>| {
        let states: Vec<String> = (0..N)
            .map(|i| {
                let s = w.snap(i);
                format!("{}:t{}:c{}", state_name(s.kind, s.payload), s.term, s.raft_commit)
            })
            .collect();
        log.push(format!("{phase} t={} {} => {} {}", w.now, e.to_text(), states.join(" "), match goal(w, ba) { Ok(()) => "GOAL".to_string(), Err(y) => format!("not settled: {y}") }));
    };
    for e in &stem {
        w.apply(*e).unwrap_or_else(|x| engine::machinery_failure(&format!("replay: event {} refused: {x}", e.to_text())));
        line(&w, e, "stem ", &mut log);
    }
    let still = match kind {
        "cycle" => {
            // the loop closes (same canonical state, clock ages included) and contains a state that is not settled
            w.ghost = Ghost::default();
            let k0 = w.key(false);
            let mut closes = !cycle.is_empty();
            let mut unsettled = goal(&w, ba).is_err();
            for round in 0..2 {
                for e in &cycle {
                    w.apply(*e).unwrap_or_else(|x| engine::machinery_failure(&format!("replay: cycle event {} refused: {x}", e.to_text())));
                    line(&w, e, if round == 0 { "loop " } else { "again" }, &mut log);
                    if goal(&w, ba).is_err() {
                        unsettled = true;
                    }
                }
                w.ghost = Ghost::default();
                if w.key(false) != k0 {
                    closes = false;
                }
            }
            closes && unsettled
        }
        "term-cap" => max_term(&w) > start_term + r["term_slack"].as_u64().unwrap_or(5),
        _ => engine::machinery_failure("replay file: unknown C30 case kind"),
    };
    (still, log, w.observe())
}

pub fn replay(_args: &Args, r: &Value) -> i32 {
    let (still, log, obs) = replay_case(r);
    for l in &log {
        println!("{l}");
    }
    println!("final observation: {}", serde_json::to_string_pretty(&obs).unwrap());
    if still {
        println!("REPLAY-VIOLATION property=C30 signature={}", r["expect_signature"].as_str().unwrap_or(""));
        1
    } else {
        println!("REPLAY property=C30 no violation on this trace");
        0
    }
}

pub fn run(args: &Args) -> i32 {
    if let Some(path) = &args.replay {
        return crate::explore::replay_file(args, path);
    }
    let report = Report::new(args, "model_checking");
    let c = cfg(args.tier);
    let t0 = std::time::Instant::now();
    let mut starts = start_states(&c);
    if let Some(n) = std::env::var("VERIF_C30_MAX_STARTS").ok().and_then(|s| s.parse::<usize>().ok()) {
        starts.truncate(n);
    }
    let t_starts = t0.elapsed().as_secs_f64();
    let g = engine::catch(|| build(&starts, &c)).unwrap_or_else(|p| engine::machinery_failure(&format!("panic while building the C30 graph: {} at {}", p.message, p.location)));
    let t_build = t0.elapsed().as_secs_f64();
    let (cases, goal_entries, max_steps, goals) = analyse(&g, &starts);
    let all_orders_states = g.nodes.iter().filter(|n| starts[n.root as usize].all_orders).count();
    eprintln!("C30 starts={} states={} (all-orders {}) transitions={} goals={} signatures={} build={:.1}s total={:.1}s", starts.len(), g.nodes.len(), all_orders_states, g.transitions, goals, cases.best.len(), t_build, t0.elapsed().as_secs_f64());

    report.set("states", json!(g.nodes.len()));
    report.set("transitions", json!(g.transitions));
    report.set("traces_validated_against_impl", json!(goal_entries));
    report.set("exhaustive", json!(!g.capped));
    report.set("start_states", json!(starts.len()));
    report.set("states_in_all_orders_regime", json!(all_orders_states));
    report.set("states_in_fifo_regime", json!(g.nodes.len() - all_orders_states));
    report.set("settled_states", json!(goals));
    report.set("executions_reaching_settled_state", json!(goal_entries));
    report.set("longest_fault_free_path_to_settled_state_steps", json!(max_steps));
    report.set(
        "bounds",
        json!({"nodes": N, "quantum_ms": QUANTUM_MS, "election_factor_ms": ELECTION_FACTOR_MS, "heartbeat_ms": HEARTBEAT_MS, "term_timeout_ms": TERM_TIMEOUT_MS, "age_cap_ms": AGE_CAP_MS,
               "all_orders_regime": {"start": "initial state", "max_client_appends": c.max_appends, "overlapping_appends": c.overlapping_appends},
               "fifo_regime": {"starts": "initial state and every post-partition state", "max_reorderings": c.max_defers, "max_client_appends": c.max_appends_fifo, "client_appends_during_partition": c.partition_appends, "partition_points_only_when_network_empty": c.quiescent_partition_points},
               "term_cap_above_start": c.term_slack, "state_cap": c.state_cap}),
    );
    {
        let mut sk = crate::explore::SKIPPED_BASES.lock().unwrap().clone();
        sk.sort();
        sk.dedup();
        report.set("base_states_skipped_because_their_script_cannot_be_completed_on_this_code", json!(sk));
    }
    report.set("wall_start_states_s", json!(t_starts));
    report.set("wall_graph_s", json!(t_build));
    report.sample(json!({"start": "initial", "regime": "all orders", "events": "every order of: Deliver(any in-flight message) | Proc(i) when due | Tick when the network is empty and nothing is due | Append(leader) once every node follows the leader"}));
    for s in starts.iter().skip(2).step_by((starts.len() / 3).max(1)).take(3) {
        report.sample(json!({"start": "post-partition", "regime": "FIFO default schedule + bounded reorderings + appends", "prefix": s.base.iter().map(|e| e.to_text()).collect::<Vec<_>>()}));
    }
    report.assume("healthy = every message is delivered before the clock advances; a due process() cannot be postponed past a clock tick; 3 nodes; quantum 500 ms");
    report.assume("settled = exactly one node in state Leader, every other node in state Follower of it, and every value appended since the start state committed, as the leader's entry, on every node; property = on every infinite fault-free path the cluster is eventually settled forever (no cycle of the graph contains an unsettled state) and no path exceeds the term cap");
    report.assume("the ghost variables are not part of the C30 state; the state additionally records how many client appends preceded the start state and how many reorderings were used");
    report.assume("client appends in the fault-free phase happen only while exactly one node is in state Leader and all others follow it; in the all-orders regime a further append waits until the previous one is committed everywhere");

    for (case, count) in cases.best.values() {
        let mut j = case_json(case, &starts);
        j["term_slack"] = json!(c.term_slack);
        let a = replay_case(&j);
        let b = replay_case(&j);
        if a.0 != b.0 || a.1 != b.1 {
            engine::machinery_failure(&format!("C30 replay of {} is not deterministic", case.signature));
        }
        if !a.0 {
            engine::machinery_failure(&format!("C30 case {} does not reproduce outside the explorer", case.signature));
        }
        j["steps"] = json!(a.1);
        j["observation"] = a.2;
        report.violation(&case.signature, &case.what, j);
        for _ in 1..*count {
            report.violation(&case.signature, &case.what, Value::Null);
        }
    }
    report.finish()
}
