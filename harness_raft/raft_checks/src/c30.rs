use engine::Args;
use serde_json::Value;

pub fn run(_args: &Args) -> i32 {
    engine::machinery_failure("C30 not implemented yet")
}

pub fn replay(_args: &Args, _r: &Value) -> i32 {
    engine::machinery_failure("C30 replay not implemented yet")
}
