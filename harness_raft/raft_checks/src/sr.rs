//! Independent cross-check of the E1 engine: the same model (same start
//! state, same enabled events, same transition function, same canonical key)
//! wrapped as a `stateright::Model`; stateright's own single-threaded BFS must
//! find exactly as many unique states within the depth bound as `run_e1`.
//! stateright stops at the first discovery per property and keeps no
//! signature classification, which is why it is not the primary engine.

use crate::explore::*;
use crate::world::*;
use stateright::{Checker, Model, Property};
use std::hash::{Hash, Hasher};
use std::sync::Arc;

#[derive(Clone)]
pub struct SrState {
    key: Vec<u8>,
    world: Arc<World>,
}

impl Hash for SrState {
    fn hash<H: Hasher>(&self, h: &mut H) {
        self.key.hash(h);
    }
}

impl PartialEq for SrState {
    fn eq(&self, o: &Self) -> bool {
        self.key == o.key
    }
}

impl std::fmt::Debug for SrState {
    fn fmt(&self, f: &mut std::fmt::Formatter<'_>) -> std::fmt::Result {
        write!(f, "state({} key bytes)", self.key.len())
    }
}

struct SrModel {
    start: World,
    cfg: E1Cfg,
    base_appends: u8,
}

impl Model for SrModel {
    type State = SrState;
    type Action = Event;

    fn init_states(&self) -> Vec<SrState> {
        vec![SrState { key: self.start.key(true), world: Arc::new(self.start.clone()) }]
    }

    fn actions(&self, s: &SrState, out: &mut Vec<Event>) {
        out.extend(enabled_e1(&s.world, &self.cfg, self.base_appends));
    }

    fn next_state(&self, s: &SrState, a: Event) -> Option<SrState> {
        let mut w = (*s.world).clone();
        w.apply(a).expect("enabled event");
        Some(SrState { key: w.key(true), world: Arc::new(w) })
    }

    fn properties(&self) -> Vec<Property<Self>> {
        // a property that always holds, so that the checker explores the whole bounded space
        vec![Property::always("explore everything", |_, _| true)]
    }
}

pub fn crosscheck(args: &engine::Args) -> i32 {
    let depth: u32 = args.extra.first().and_then(|s| s.parse().ok()).unwrap_or(8);
    let mut ok = true;
    for base in bases(false) {
        let cfg = E1Cfg { depth, max_dups: 1, max_appends: 1, state_cap: u64::MAX };
        let col = Collector::new("none");
        let mine = run_e1(&base, &cfg, &col, 0, None);
        let mut start = base.world.clone();
        start.multiset = true;
        start.net.sort_by(|a, b| a.enc.cmp(&b.enc));
        start.dups = 0;
        let base_appends = start.appends;
        let model = SrModel { start, cfg: E1Cfg { depth, max_dups: 1, max_appends: 1, state_cap: u64::MAX }, base_appends };
        let t = std::time::Instant::now();
        // stateright numbers the initial state depth 1 and expands a state iff its depth < target
        let checker = model.checker().threads(1).target_max_depth(depth as usize + 1).spawn_bfs().join();
        let theirs = checker.unique_state_count() as u64;
        println!("base={} depth={} own explorer: {} unique states; stateright BFS: {} unique states ({:.1}s) {}", base.name, depth, mine.states, theirs, t.elapsed().as_secs_f64(), if mine.states == theirs { "EQUAL" } else { "DIFFERENT" });
        if mine.states != theirs {
            ok = false;
        }
    }
    if ok { 0 } else { 2 }
}
