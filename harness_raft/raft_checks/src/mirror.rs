//! MirrorStorage: in-memory `raft::Storage<u8, ()>` written from the code of
//! the server's real storage, `ClusterStorage` (agdb_server/src/cluster.rs)
//! over `ClusterLog` (agdb_server/src/cluster_log.rs). Each clause names the
//! file:line it mirrors (lines of the pinned tree ed1d02d..4faf350).
//!
//! Representation: `entries` = the log elements in INSERTION order, i.e. the
//! order of the edges `cluster_log -> element` (cluster_log.rs:74-80); each
//! carries the `committed` flag of the element (key "committed" present with
//! value false = uncommitted, key removed = committed; cluster_log.rs:68-73,
//! 137-143). `index/term/commit` are the three cached fields of
//! `ClusterStorage` (cluster.rs:350-352). The "executed" flag and the
//! notifier plumbing do not influence any value the Raft code can observe
//! and are not mirrored.
//!
//! What is NOT mirrored: restart (`ClusterStorage::new`, cluster.rs:359-379)
//! — no property of this family speaks about restarts; storage errors — the
//! mirror never fails.

use crate::raft::{Log, Storage};
use crate::server_error::ServerResult;
use std::collections::BTreeSet;
use std::sync::Mutex;
use std::sync::atomic::{AtomicBool, Ordering};

#[derive(Clone, Debug, PartialEq, Eq, PartialOrd, Ord, Hash)]
pub struct Entry {
    pub index: u64,
    pub term: u64,
    pub data: u8,
    pub committed: bool,
}

#[derive(Clone, Debug, PartialEq, Eq, PartialOrd, Ord, Hash)]
pub enum Call {
    Append { index: u64, term: u64, data: u8 },
    Commit { index: u64 },
}

#[derive(Clone, Debug, Default)]
pub struct MirrorStorage {
    pub entries: Vec<Entry>,
    pub index: u64,
    pub term: u64,
    pub commit: u64,
    /// call trace since creation; only maintained while RECORD is on and
    /// never part of the model state
    pub calls: Vec<Call>,
    /// fault injection (deviation `FailAppend`): the next `Storage::append` returns an error and has no
    /// effect, like a failed transaction of the real ClusterLog (cluster_log.rs:61-84 runs in one
    /// `transaction_mut`); part of the model state
    pub fail_next_append: bool,
}

pub const TRACE_MAX: usize = 6;
static RECORD: AtomicBool = AtomicBool::new(false);
static TRACES: Mutex<BTreeSet<Vec<Call>>> = Mutex::new(BTreeSet::new());

pub fn record_traces(on: bool) {
    RECORD.store(on, Ordering::SeqCst);
}

pub fn take_traces() -> Vec<Vec<Call>> {
    std::mem::take(&mut *TRACES.lock().unwrap()).into_iter().collect()
}

impl MirrorStorage {
    fn note(&mut self, c: Call) {
        if RECORD.load(Ordering::Relaxed) && self.calls.len() <= TRACE_MAX {
            self.calls.push(c);
            if self.calls.len() <= TRACE_MAX {
                let mut t = TRACES.lock().unwrap();
                if !t.contains(&self.calls) {
                    t.insert(self.calls.clone());
                }
            }
        }
    }

    pub fn do_append(&mut self, index: u64, term: u64, data: u8) {
        self.note(Call::Append { index, term, data });
        // cluster.rs:419 `remove_uncommitted_logs(log.index)` ->
        // cluster_log.rs:195-223: every element found by the index search
        // committed==false whose "index" value >= from_index is removed.
        // Committed elements are never removed, whatever their index.
        self.entries.retain(|e| e.committed || e.index < index);
        // cluster.rs:420 `append_log` -> cluster_log.rs:61-84: new element with
        // committed=false (and executed=false), newest edge of `cluster_log`.
        self.entries.push(Entry { index, term, data, committed: false });
        // cluster.rs:421-422
        self.index = index;
        self.term = term;
    }

    pub fn do_commit(&mut self, index: u64) {
        self.note(Call::Commit { index });
        // cluster.rs:432 `logs_uncommitted(index)` -> cluster_log.rs:167-193:
        // all elements with committed==false and "index" <= index, sorted by
        // "index". (At most one uncommitted element per index can exist,
        // because append removes every uncommitted element with index >= the
        // new one first; so the sort order is total.)
        let mut todo: Vec<usize> = (0..self.entries.len()).filter(|&k| !self.entries[k].committed && self.entries[k].index <= index).collect();
        todo.sort_by_key(|&k| self.entries[k].index);
        for k in todo {
            // cluster.rs:433: the cached commit index becomes the ARGUMENT
            // (not the element's index) and only if at least one element is
            // marked; it is assigned, not maximised.
            self.commit = index;
            // cluster.rs:434-436 -> cluster_log.rs:137-143
            self.entries[k].committed = true;
            // cluster.rs:437 execute_log: spawns the action; not observable
            // by the Raft code.
        }
    }

    pub fn do_logs(&self, from_index: u64) -> Vec<Entry> {
        // cluster.rs:455-457 -> cluster_log.rs:225-256: log_count = number of
        // edges from `cluster_log` (= number of elements); depth-first search
        // from `cluster_log` restricted to neighbours with
        // limit = log_count.saturating_sub(from_index); the search visits the
        // newest edge first, the result is reversed => the NEWEST `limit`
        // elements in insertion order, oldest first. The selection is by
        // POSITION, not by the "index" value. agdb treats limit 0 as "no
        // limit" (agdb/src/db.rs search_from, `(0, 0)` arm), so from_index >=
        // log_count returns ALL elements.
        let n = self.entries.len() as u64;
        let limit = n.saturating_sub(from_index);
        if limit == 0 {
            self.entries.clone()
        } else {
            self.entries[(n - limit) as usize..].to_vec()
        }
    }

    pub fn committed(&self) -> Vec<Entry> {
        let mut v: Vec<Entry> = self.entries.iter().filter(|e| e.committed).cloned().collect();
        v.sort();
        v
    }
}

impl Storage<u8, ()> for MirrorStorage {
    async fn append(&mut self, log: Log<u8>, _notifier: Option<()>) -> ServerResult<()> {
        if self.fail_next_append {
            self.fail_next_append = false;
            return Err(crate::server_error::ServerError { description: "injected storage append failure".into() });
        }
        self.do_append(log.index, log.term, log.data);
        Ok(())
    }

    async fn commit(&mut self, index: u64) -> ServerResult<()> {
        self.do_commit(index);
        Ok(())
    }

    // cluster.rs:447-449
    fn log_index(&self) -> u64 {
        self.index
    }

    // cluster.rs:451-453
    fn log_term(&self) -> u64 {
        self.term
    }

    // cluster.rs:443-445
    fn log_commit(&self) -> u64 {
        self.commit
    }

    async fn logs(&self, from_index: u64) -> ServerResult<Vec<Log<u8>>> {
        // `db_id` is `#[serde(skip)]` in raft.rs: it never travels in a
        // request and raft.rs never reads it; None = the wire form.
        Ok(self.do_logs(from_index).into_iter().map(|e| Log { db_id: None, index: e.index, term: e.term, data: e.data }).collect())
    }
}
