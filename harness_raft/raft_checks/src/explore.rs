//! E1: breadth-first search over ALL event interleavings to a depth bound,
//!     exact deduplication on the canonical key of the complete state.
//! E2: deviation-bounded search around the fault-free FIFO schedule: every
//!     execution with <= k deviations placed at every position, to a fixpoint
//!     (a walk ends when it reaches a state that was already expanded with at
//!     least as much deviation budget left).
//! Violations are never a reason to stop; each is classified by signature.

use crate::sched::default_event;
use crate::world::{Event, N, Viol, World};
use engine::{Args, Report};
use serde_json::{Value, json};
use std::collections::{BTreeMap, HashMap};
use std::sync::Mutex;
use std::sync::atomic::{AtomicBool, AtomicU64, Ordering};

// ---------------------------------------------------------------------------
// witnesses and the collector

#[derive(Clone, Debug)]
pub struct Witness {
    pub regime: &'static str,
    /// prefix run in the FIFO regime from the initial state (base state script)
    pub base: Vec<Event>,
    /// regime of the events after the base: unordered network (E1, C30) or FIFO queue (E2)
    pub multiset: bool,
    pub events: Vec<Event>,
    /// E2: (position in `events`, deviation) for the reader
    pub devs: Vec<(u32, Event)>,
}

impl Witness {
    pub fn rank(&self) -> (u32, u32, u32, Vec<Event>) {
        let r = if self.regime == "E2" { 0 } else { 1 };
        (r, self.devs.len() as u32, (self.base.len() + self.events.len()) as u32, self.events.clone())
    }
    pub fn to_json(&self) -> Value {
        json!({
            "regime": self.regime,
            "base": self.base.iter().map(|e| e.to_text()).collect::<Vec<_>>(),
            "multiset": self.multiset,
            "events": self.events.iter().map(|e| e.to_text()).collect::<Vec<_>>(),
            "deviations": self.devs.iter().map(|(p, e)| json!({"position": p, "event": e.to_text()})).collect::<Vec<_>>(),
        })
    }
    pub fn from_json(v: &Value) -> Option<Witness> {
        let evs = |x: &Value| -> Option<Vec<Event>> { x.as_array()?.iter().map(|e| Event::parse(e.as_str()?)).collect() };
        Some(Witness {
            regime: match v["regime"].as_str()? {
                "E1" => "E1",
                "E2" => "E2",
                _ => "C30",
            },
            base: evs(&v["base"])?,
            multiset: v["multiset"].as_bool()?,
            events: evs(&v["events"])?,
            devs: vec![],
        })
    }
}

struct Found {
    count: u64,
    what: String,
    witness: Witness,
}

pub struct Collector {
    pub property: String,
    found: Mutex<BTreeMap<String, Found>>,
    /// violations of the other properties of the family seen on the way (reported as counts only)
    pub others: Mutex<BTreeMap<String, u64>>,
}

impl Collector {
    pub fn new(property: &str) -> Self {
        Collector { property: property.to_string(), found: Mutex::new(BTreeMap::new()), others: Mutex::new(BTreeMap::new()) }
    }

    pub fn add(&self, viols: &[Viol], witness: impl Fn() -> Witness) {
        for v in viols {
            if v.property != self.property {
                *self.others.lock().unwrap().entry(format!("{}:{}", v.property, v.signature)).or_insert(0) += 1;
                continue;
            }
            let w = witness();
            let mut f = self.found.lock().unwrap();
            match f.get_mut(&v.signature) {
                None => {
                    f.insert(v.signature.clone(), Found { count: 1, what: v.what.clone(), witness: w });
                }
                Some(e) => {
                    e.count += 1;
                    if w.rank() < e.witness.rank() {
                        e.witness = w;
                        e.what = v.what.clone();
                    }
                }
            }
        }
    }

    /// replay every kept witness twice, then hand the cases to the report
    pub fn flush(&self, report: &Report) {
        let f = self.found.lock().unwrap();
        for (sig, e) in f.iter() {
            let a = replay_witness(&e.witness, &self.property);
            let b = replay_witness(&e.witness, &self.property);
            if a.1 != b.1 || a.0 != b.0 {
                engine::machinery_failure(&format!("replay of the witness for {sig} is not deterministic"));
            }
            if !a.0.iter().any(|v| &v.signature == sig) {
                engine::machinery_failure(&format!("witness for {sig} does not reproduce outside the explorer: got {:?}", a.0));
            }
            let mut j = e.witness.to_json();
            j["expect_signature"] = json!(sig);
            j["observation"] = a.1.clone();
            j["steps"] = a.2.clone();
            report.violation(sig, &e.what, j);
            for _ in 1..e.count {
                report.violation(sig, &e.what, Value::Null);
            }
        }
    }
}

/// Re-execute a witness on the real code without any explorer.
/// Returns (violations of `property` met on the way, final observation, step log).
pub fn replay_witness(w: &Witness, property: &str) -> (Vec<Viol>, Value, Value) {
    let mut world = World::new(false);
    let mut viols = vec![];
    let mut log = vec![];
    let mut run = |world: &mut World, evs: &[Event], phase: &str, log: &mut Vec<Value>, viols: &mut Vec<Viol>| {
        for ev in evs {
            let what = match ev {
                Event::Deliver(k) | Event::DeliverDup(k) | Event::Drop(k) | Event::Defer(k) | Event::Delay(k) | Event::Hold(k) => world.net.get(*k as usize).map(crate::world::describe_packet).unwrap_or_default(),
                _ => String::new(),
            };
            let r = world.apply(*ev).unwrap_or_else(|e| engine::machinery_failure(&format!("replay: event {} not enabled: {e}", ev.to_text())));
            let states: Vec<String> = (0..N)
                .map(|i| {
                    let s = world.snap(i);
                    format!("{}:t{}:c{}", crate::world::state_name(s.kind, s.payload), s.term, s.raft_commit)
                })
                .collect();
            log.push(json!(format!("{phase} t={} {} {} => {}{}", world.now, ev.to_text(), what, states.join(" "), if r.is_empty() { String::new() } else { format!("  !! {}", r.iter().map(|v| format!("{}:{}", v.property, v.signature)).collect::<Vec<_>>().join(" ; ")) })));
            viols.extend(r.into_iter().filter(|v| v.property == property));
        }
    };
    run(&mut world, &w.base, "base", &mut log, &mut viols);
    // violations inside the base prefix belong to the base, not to this case
    viols.clear();
    if w.multiset {
        world.multiset = true;
        world.net.sort_by(|a, b| a.enc.cmp(&b.enc));
    }
    run(&mut world, &w.events, "run ", &mut log, &mut viols);
    (viols, world.observe(), Value::Array(log))
}

pub fn replay_file(args: &Args, path: &str) -> i32 {
    let text = std::fs::read_to_string(path).unwrap_or_else(|e| engine::machinery_failure(&format!("{path}: {e}")));
    let v: Value = serde_json::from_str(&text).unwrap_or_else(|e| engine::machinery_failure(&format!("{path}: {e}")));
    let r = if v.get("replay").is_some() { &v["replay"] } else { &v };
    if r["regime"].as_str() == Some("ELECTION-N") {
        return crate::nsize::replay(r);
    }
    if r["regime"].as_str() == Some("C30") {
        return crate::c30::replay(args, r);
    }
    let w = Witness::from_json(r).unwrap_or_else(|| engine::machinery_failure("replay file: bad format"));
    let (viols, obs, log) = replay_witness(&w, &args.property);
    for l in log.as_array().unwrap() {
        println!("{}", l.as_str().unwrap());
    }
    println!("final observation: {}", serde_json::to_string_pretty(&obs).unwrap());
    if viols.is_empty() {
        println!("REPLAY property={} no violation on this trace", args.property);
        0
    } else {
        for v in &viols {
            println!("REPLAY-VIOLATION property={} signature={} what={}", v.property, v.signature, v.what);
        }
        1
    }
}

// ---------------------------------------------------------------------------
// base states (scripted prefixes in the FIFO regime)

pub struct Base {
    pub name: &'static str,
    pub events: Vec<Event>,
    pub world: World,
}

/// script language for base states
pub enum Step {
    /// run the default schedule until the network is empty, there is exactly one leader,
    /// every other node follows it and all appended values are committed everywhere reachable
    Settle,
    /// run the default schedule until node i is Leader
    UntilLeader(u8),
    /// run the default schedule until node i is Candidate
    UntilCandidate(u8),
    /// run the default schedule until some node other than i is Leader
    UntilLeaderOtherThan(u8),
    Ev(Event),
    /// append at the (lowest-numbered) current leader
    AppendAtLeader,
    /// append at node i
    AppendAt(u8),
    /// append at the lowest-numbered leader other than node i
    AppendAtLeaderOtherThan(u8),
    /// n default steps
    Default(u32),
}

/// names of base states whose script could not be completed on the code under test (skipped, reported)
pub static SKIPPED_BASES: Mutex<Vec<String>> = Mutex::new(Vec::new());

struct BaseFailed(String);

pub fn build_base(name: &'static str, script: &[Step]) -> Option<Base> {
    match engine::catch(|| build_base_inner(name, script)) {
        Ok(Ok(b)) => Some(b),
        Ok(Err(BaseFailed(why))) => {
            eprintln!("base {name} skipped: {why}");
            SKIPPED_BASES.lock().unwrap().push(format!("{name}: {why}"));
            None
        }
        Err(p) if p.message.starts_with("BASE-NOT-CONSTRUCTIBLE") => {
            eprintln!("base {name} skipped: {}", p.message);
            SKIPPED_BASES.lock().unwrap().push(format!("{name}: {}", p.message));
            None
        }
        Err(p) => engine::machinery_failure(&format!("panic while building base {name}: {} at {}", p.message, p.location)),
    }
}

fn build_base_inner(name: &'static str, script: &[Step]) -> Result<Base, BaseFailed> {
    let mut w = World::new(false);
    let mut events = vec![];
    let mut go = |w: &mut World, ev: Event, events: &mut Vec<Event>| {
        w.apply(ev).unwrap_or_else(|e| panic!("BASE-NOT-CONSTRUCTIBLE {} not enabled: {e}", ev.to_text()));
        events.push(ev);
    };
    for s in script {
        match s {
            Step::Ev(e) => go(&mut w, *e, &mut events),
            Step::AppendAt(i) => go(&mut w, Event::Append(*i), &mut events),
            Step::AppendAtLeaderOtherThan(i) => {
                let l = *w.leaders().iter().find(|l| **l != *i as usize).unwrap_or_else(|| panic!("BASE-NOT-CONSTRUCTIBLE no leader other than {i} to append at"));
                go(&mut w, Event::Append(l as u8), &mut events);
            }
            Step::AppendAtLeader => {
                let l = *w.leaders().first().unwrap_or_else(|| panic!("BASE-NOT-CONSTRUCTIBLE no leader to append at"));
                go(&mut w, Event::Append(l as u8), &mut events);
            }
            Step::Default(n) => {
                for _ in 0..*n {
                    let ev = default_event(&w);
                    go(&mut w, ev, &mut events);
                }
            }
            Step::UntilLeaderOtherThan(i) => {
                let mut n = 0;
                while !w.leaders().iter().any(|l| *l != *i as usize) {
                    let ev = default_event(&w);
                    go(&mut w, ev, &mut events);
                    n += 1;
                    if n > 2000 {
                        return Err(BaseFailed(format!("no node other than {i} becomes leader on the default schedule")));
                    }
                }
            }
            Step::UntilCandidate(i) => {
                let mut n = 0;
                while w.nodes[*i as usize].v_state().0 != crate::raft::V_CANDIDATE {
                    let ev = default_event(&w);
                    go(&mut w, ev, &mut events);
                    n += 1;
                    if n > 2000 {
                        return Err(BaseFailed(format!("node {i} does not become candidate on the default schedule")));
                    }
                }
            }
            Step::UntilLeader(i) => {
                let mut n = 0;
                while !w.is_leader(*i as usize) {
                    let ev = default_event(&w);
                    go(&mut w, ev, &mut events);
                    n += 1;
                    if n > 2000 {
                        return Err(BaseFailed(format!("node {i} does not become leader on the default schedule")));
                    }
                }
            }
            Step::Settle => {
                let mut n = 0;
                loop {
                    let quiet = w.net.is_empty() && w.delayed.is_empty() && w.held.is_empty();
                    let iso = w.isolated.map(|x| x as usize);
                    let live: Vec<usize> = (0..N).filter(|i| Some(*i) != iso).collect();
                    let leaders: Vec<usize> = live.iter().cloned().filter(|&i| w.is_leader(i)).collect();
                    let settled = quiet
                        && leaders.len() == 1
                        && live.iter().all(|&i| {
                            let s = w.snap(i);
                            let l = w.snap(leaders[0]);
                            (i == leaders[0] || (s.kind == crate::raft::V_FOLLOWER && s.payload == leaders[0] as u64)) && s.entries == l.entries && l.entries.iter().all(|e| e.committed)
                        });
                    if settled {
                        break;
                    }
                    let ev = default_event(&w);
                    go(&mut w, ev, &mut events);
                    n += 1;
                    if n > 3000 {
                        return Err(BaseFailed("does not settle on the default schedule".into()));
                    }
                }
            }
        }
    }
    Ok(Base { name, events, world: w })
}

pub fn bases(thorough: bool) -> Vec<Base> {
    use Event::*;
    use Step::*;
    let mut v: Vec<Option<Base>> = vec![
        build_base("initial", &[]),
        build_base("elected", &[Settle]),
        build_base("append-in-flight", &[Settle, AppendAtLeader]),
        build_base("one-entry-committed", &[Settle, AppendAtLeader, Settle]),
        // leader 0 cut off with an entry nobody else has; 1 and 2 elect a new leader; partition heals now
        build_base("stale-leader-rejoins", &[Settle, Ev(Isolate(0)), AppendAt(0), Default(4), Settle, Ev(Heal)]),
        // same, and the new leader has appended an entry of its own that is committed by the majority
        build_base("stale-leader-rejoins-after-new-commit", &[Settle, Ev(Isolate(0)), AppendAt(0), Default(4), Settle, AppendAtLeaderOtherThan(0), Settle, Ev(Heal)]),
        // same, the new leader is two committed entries ahead
        build_base("stale-leader-rejoins-after-two-new-commits", &[Settle, Ev(Isolate(0)), AppendAt(0), Default(4), Settle, AppendAtLeaderOtherThan(0), Settle, AppendAtLeaderOtherThan(0), Settle, Ev(Heal)]),
        // leader 0 cut off; node 1 has just become candidate (its vote requests are in flight)
        build_base("reelection-in-progress-old-leader-cut-off", &[Settle, Ev(Isolate(0)), UntilCandidate(1)]),
        // node 0 wins the first election with node 1's vote only (its Vote request to node 2 is lost) and is cut
        // off at once; the others elect again; still partitioned (both sides may take client appends)
        build_base("winner-of-a-one-vote-election-cut-off-others-reelected", &[Default(6), Ev(Drop(0)), Default(2), Ev(Isolate(0)), UntilLeaderOtherThan(0)]),
        // the same, and the cut-off winner has taken a client append that it cannot replicate
        build_base("winner-of-a-one-vote-election-cut-off-with-an-append-others-reelected", &[Default(6), Ev(Drop(0)), Default(2), Ev(Isolate(0)), UntilLeaderOtherThan(0), AppendAt(0)]),
        // candidate 0 has been granted node 1's vote but the reply is stuck in the network; its Vote request to node 2 was lost
        build_base("candidate-with-one-vote-reply-stuck-in-the-network", &[Default(6), Ev(Drop(0)), Ev(Hold(0))]),
        // an entry is on nodes 0 and 1 but leader 0 is cut off before it sees the acknowledgement (commit 0
        // everywhere, node 2 never got it); node 1 wins the next term holding the older-term entry
        // uncommitted; the partition heals now
        build_base("leader-change-with-a-replicated-uncommitted-entry", &[Settle, AppendAtLeader, Default(1), Ev(Isolate(0)), UntilLeaderOtherThan(0), Ev(Heal)]),
        // leader 0 is cut off holding a private entry X; node 1 wins term 2, appends Y, node 2 stores and
        // acknowledges it, node 1 commits Y; then the partition FLIPS (0 back, 1 cut off) before the commit
        // index reaches node 2: logs of equal length that differ, node 2 does not know Y is committed
        build_base("partition-flips-after-new-leader-committed-alone", &[Settle, Ev(Isolate(0)), AppendAt(0), Default(4), Settle, AppendAtLeaderOtherThan(0), Default(3), Ev(Heal), Ev(Isolate(1))]),
        // a follower was cut off while an entry was committed; it rejoins now
        build_base("lagging-follower-rejoins", &[Settle, Ev(Isolate(2)), AppendAtLeader, Settle, Ev(Heal)]),
    ];
    if thorough {
        v.push(build_base("two-entries-committed", &[Settle, AppendAtLeader, Settle, AppendAtLeader, Settle]));
        v.push(build_base("leader-cut-off-now", &[Settle, AppendAtLeader, Settle, Ev(Isolate(0))]));
        v.push(build_base("stale-leader-rejoins-new-leader-uncommitted", &[Settle, AppendAtLeader, Settle, Ev(Isolate(0)), AppendAt(0), Default(4), Settle, AppendAtLeaderOtherThan(0), Ev(Heal)]));
    }
    let mut v: Vec<Base> = v.into_iter().flatten().collect();
    for b in &mut v {
        b.world.check_consts();
    }
    v
}

// ---------------------------------------------------------------------------
// E1

pub struct E1Cfg {
    pub depth: u32,
    pub max_dups: u8,
    pub max_appends: u8,
    pub state_cap: u64,
}

#[derive(Default, Debug)]
pub struct E1Stats {
    pub states: u64,
    pub transitions: u64,
    pub full_depth: u32,
    pub last_level_states: u64,
    pub levels: Vec<u64>,
    pub capped: bool,
}

struct Item {
    w: World,
    trace: Vec<Event>,
}

const SHARDS: usize = 256;

pub fn enabled_e1(w: &World, cfg: &E1Cfg, base_appends: u8) -> Vec<Event> {
    let mut evs = vec![Event::Tick];
    for i in 0..N {
        if w.proc_effective(i) {
            evs.push(Event::Proc(i as u8));
        }
    }
    for k in 0..w.net.len() {
        if k > 0 && w.net[k].enc == w.net[k - 1].enc {
            continue;
        }
        evs.push(Event::Deliver(k as u8));
        if w.dups < cfg.max_dups {
            evs.push(Event::DeliverDup(k as u8));
        }
    }
    if w.appends - base_appends < cfg.max_appends {
        for i in w.leaders() {
            evs.push(Event::Append(i as u8));
        }
    }
    evs
}

/// sharded set of 64-bit hashes: counts distinct protocol states (ghost variables left out)
pub struct Distinct {
    shards: Vec<Mutex<std::collections::HashSet<u64>>>,
}

impl Default for Distinct {
    fn default() -> Self {
        Distinct { shards: (0..SHARDS).map(|_| Mutex::new(Default::default())).collect() }
    }
}

impl Distinct {
    pub fn insert(&self, h: u64) {
        self.shards[(h % SHARDS as u64) as usize].lock().unwrap().insert(h);
    }
    pub fn len(&self) -> usize {
        self.shards.iter().map(|s| s.lock().unwrap().len()).sum()
    }
}

pub fn run_e1(base: &Base, cfg: &E1Cfg, col: &Collector, seed: i64, distinct: Option<&Distinct>) -> E1Stats {
    let mut start = base.world.clone();
    start.multiset = true;
    start.net.sort_by(|a, b| a.enc.cmp(&b.enc));
    start.dups = 0;
    let base_appends = start.appends;
    let mut stats = E1Stats::default();
    let visited: Vec<Mutex<HashMap<u128, (u32, u32)>>> = (0..SHARDS).map(|_| Mutex::new(HashMap::new())).collect();
    let h0 = start.hash(true);
    visited[(h0 % SHARDS as u128) as usize].lock().unwrap().insert(h0, (0, 0));
    let mut frontier = vec![Item { w: start, trace: vec![] }];
    stats.states = 1;
    stats.levels.push(1);
    let transitions = AtomicU64::new(0);
    let failed = AtomicBool::new(false);
    let last_level = AtomicU64::new(0);
    for level in 1..=cfg.depth {
        let tl = std::time::Instant::now();
        let next: Vec<Mutex<Vec<Item>>> = (0..SHARDS).map(|_| Mutex::new(vec![])).collect();
        let chunk = 64usize;
        let nchunks = frontier.len().div_ceil(chunk);
        engine::par_for(nchunks, seed, |_w, ci| {
            let lo = ci * chunk;
            let hi = (lo + chunk).min(frontier.len());
            for it in &frontier[lo..hi] {
                let r = engine::catch(|| {
                    for ev in enabled_e1(&it.w, cfg, base_appends) {
                        let mut w = it.w.clone();
                        let viols = w.apply(ev).unwrap_or_else(|e| panic!("HARNESS: enabled event {} refused: {e}", ev.to_text()));
                        transitions.fetch_add(1, Ordering::Relaxed);
                        if !viols.is_empty() {
                            col.add(&viols, || {
                                let mut t = it.trace.clone();
                                t.push(ev);
                                Witness { regime: "E1", base: base.events.clone(), multiset: true, events: t, devs: vec![] }
                            });
                        }
                        let (h, hp) = w.hashes();
                        if let Some(d) = distinct {
                            d.insert(hp);
                        }
                        let s = (h % SHARDS as u128) as usize;
                        let mut vis = visited[s].lock().unwrap();
                        match vis.get(&h).cloned() {
                            None if level == cfg.depth => {
                                // last level: counted, never expanded, so nothing is kept
                                vis.insert(h, (level, u32::MAX));
                                last_level.fetch_add(1, Ordering::Relaxed);
                            }
                            None => {
                                let mut nx = next[s].lock().unwrap();
                                vis.insert(h, (level, nx.len() as u32));
                                let mut t = it.trace.clone();
                                t.push(ev);
                                nx.push(Item { w, trace: t });
                            }
                            Some((l, slot)) if l == level && slot != u32::MAX => {
                                // same level: keep the lexicographically smallest trace, so that the
                                // result does not depend on thread timing
                                let mut nx = next[s].lock().unwrap();
                                let cur = &mut nx[slot as usize];
                                let mut t = it.trace.clone();
                                t.push(ev);
                                if t < cur.trace {
                                    *cur = Item { w, trace: t };
                                }
                            }
                            Some(_) => {}
                        }
                    }
                });
                if let Err(p) = r {
                    if !failed.swap(true, Ordering::SeqCst) {
                        eprintln!("panic while expanding base={} trace={:?}: {} at {}", base.name, it.trace, p.message, p.location);
                    }
                }
            }
        });
        if failed.load(Ordering::SeqCst) {
            engine::machinery_failure("panic inside the explored code or the harness during E1 (see above)");
        }
        let t_expand = tl.elapsed().as_secs_f64();
        let mut nf: Vec<Item> = vec![];
        for s in next {
            nf.extend(s.into_inner().unwrap());
        }
        let n_new = nf.len() as u64 + last_level.load(Ordering::SeqCst);
        stats.states += n_new;
        stats.levels.push(n_new);
        stats.full_depth = level;
        stats.last_level_states = n_new;
        frontier = nf;
        if std::env::var("VERIF_RAFT_DEBUG").is_ok() {
            eprintln!("  level {level}: new={} expand={:.2}s total={:.2}s", n_new, t_expand, tl.elapsed().as_secs_f64());
        }
        if frontier.is_empty() {
            break;
        }
        if stats.states > cfg.state_cap && level < cfg.depth {
            stats.capped = true;
            break;
        }
    }
    stats.transitions = transitions.load(Ordering::SeqCst);
    stats
}

// ---------------------------------------------------------------------------
// E2

pub struct E2Cfg {
    pub k: u32,
    pub max_appends: u8,
    /// a walk on the default schedule is cut after this many steps without reaching a known state
    pub walk_cap: u32,
    pub state_cap: u64,
    /// states in which some node's term exceeds this are not expanded (runs in which elections never settle)
    pub term_cap: u64,
}

#[derive(Default, Debug)]
pub struct E2Stats {
    pub term_cap_hits: u64,
    pub states: u64,
    pub transitions: u64,
    pub executions: u64,
    pub per_layer_states: Vec<u64>,
    pub per_layer_executions: Vec<u64>,
    pub walk_cap_hits: u64,
    pub longest_walk: u64,
    pub capped: bool,
}

pub fn deviations(w: &World, cfg: &E2Cfg, base_appends: u8) -> Vec<Event> {
    let mut d = vec![];
    if let Some(_head) = w.net.first() {
        d.push(Event::Drop(0));
        d.push(Event::DeliverDup(0));
        // a request may be slow by one quantum (Delay); a reply may be held back without bound (Hold, below)
        if matches!(_head.msg, crate::world::Msg::Req(..)) {
            d.push(Event::Delay(0));
        }
        // unbounded delay: one reply at a time (requests are covered by Drop/Delay/Defer and, delayed
        // without bound, by E1)
        if w.held.is_empty() && matches!(_head.msg, crate::world::Msg::Resp(..)) {
            d.push(Event::Hold(0));
        }
        if w.net.len() >= 2 {
            d.push(Event::Defer(0));
        }
        // one storage fault per execution: the append that the head message is about to cause fails
        if let crate::world::Msg::Req(r) = &_head.msg {
            let t = r.v_fields()[2] as usize;
            if r.v_kind() == crate::raft::V_APPEND && w.storage_faults == 0 && !w.nodes[t].storage.fail_next_append {
                d.push(Event::FailAppend(t as u8));
            }
        }
    } else {
        for i in 0..N {
            d.push(Event::Skew(i as u8));
        }
    }
    if !w.held.is_empty() {
        d.push(Event::Release);
    }
    match w.isolated {
        None => {
            for i in 0..N {
                d.push(Event::Isolate(i as u8));
            }
        }
        Some(_) => d.push(Event::Heal),
    }
    // the budget is absolute (appends of the base prefix included): the walks of all bases share one
    // visited set, so what may follow a state must not depend on the base it was reached from
    let _ = base_appends;
    if w.appends < cfg.max_appends {
        for i in w.leaders() {
            d.push(Event::Append(i as u8));
        }
    }
    d
}

struct Seed {
    w: World,
    devs: Vec<(u32, Event)>,
    pos: u32,
    base: usize,
}

/// concrete event list of a deviation script: default steps with the deviations at their positions, `len` events
pub fn concretize(devs: &[(u32, Event)], len: u32) -> Vec<Event> {
    concretize_from(&World::new(false), devs, len)
}

pub fn concretize_from(start: &World, devs: &[(u32, Event)], len: u32) -> Vec<Event> {
    let mut w = start.clone();
    let mut out = vec![];
    let mut di = 0;
    while (out.len() as u32) < len {
        let ev = if di < devs.len() && devs[di].0 == out.len() as u32 {
            di += 1;
            devs[di - 1].1
        } else {
            default_event(&w)
        };
        w.apply(ev).unwrap_or_else(|e| panic!("HARNESS: concretize: {} refused: {e}", ev.to_text()));
        out.push(ev);
    }
    out
}

pub fn run_e2(bases: &[Base], cfg: &E2Cfg, col: &Collector, seed: i64, distinct: Option<&Distinct>) -> E2Stats {
    let mut stats = E2Stats::default();
    let visited: Vec<Mutex<HashMap<u128, ()>>> = (0..SHARDS).map(|_| Mutex::new(HashMap::new())).collect();
    let states = AtomicU64::new(0);
    let transitions = AtomicU64::new(0);
    let executions = AtomicU64::new(0);
    let cap_hits = AtomicU64::new(0);
    let term_hits = AtomicU64::new(0);
    let longest = AtomicU64::new(0);
    let failed = AtomicBool::new(false);
    let mut seeds: Vec<Seed> = bases.iter().enumerate().map(|(bi, b)| Seed { w: b.world.clone(), devs: vec![], pos: 0, base: bi }).collect();
    // layer 0 has one seed that is itself the start of a walk; later layers hold the states
    // from which deviations are applied
    let mut layer_is_start = true;
    for layer in 0..=cfg.k {
        let s0 = states.load(Ordering::SeqCst);
        let e0 = executions.load(Ordering::SeqCst);
        let next: Mutex<Vec<Seed>> = Mutex::new(vec![]);
        let walk = |mut w: World, devs: &Vec<(u32, Event)>, mut pos: u32, base: usize, local_next: &mut Vec<Seed>| {
            executions.fetch_add(1, Ordering::Relaxed);
            let mut steps = 0u32;
            loop {
                let (h, hp) = w.hashes();
                {
                    let mut vis = visited[(h % SHARDS as u128) as usize].lock().unwrap();
                    if vis.contains_key(&h) {
                        break;
                    }
                    vis.insert(h, ());
                }
                states.fetch_add(1, Ordering::Relaxed);
                if let Some(d) = distinct {
                    d.insert(hp);
                }
                if (0..N).any(|i| w.nodes[i].v_term() > cfg.term_cap) {
                    term_hits.fetch_add(1, Ordering::Relaxed);
                    break;
                }
                if layer < cfg.k {
                    local_next.push(Seed { w: w.clone(), devs: devs.clone(), pos, base });
                }
                let ev = default_event(&w);
                let viols = w.apply(ev).unwrap_or_else(|e| panic!("HARNESS: default event {} refused: {e}", ev.to_text()));
                transitions.fetch_add(1, Ordering::Relaxed);
                pos += 1;
                steps += 1;
                if !viols.is_empty() {
                    col.add(&viols, || Witness { regime: "E2", base: bases[base].events.clone(), multiset: false, events: concretize_from(&bases[base].world, devs, pos), devs: devs.clone() });
                }
                if steps >= cfg.walk_cap {
                    if cap_hits.fetch_add(1, Ordering::Relaxed) < 5 && std::env::var("VERIF_RAFT_DEBUG").is_ok() {
                        eprintln!("  walk cap hit: devs={devs:?} pos={pos} terms={:?} t={}", (0..N).map(|i| w.nodes[i].v_term()).collect::<Vec<_>>(), w.now);
                    }
                    break;
                }
            }
            longest.fetch_max(steps as u64, Ordering::Relaxed);
        };
        let chunk = 16usize;
        let nchunks = seeds.len().div_ceil(chunk);
        engine::par_for(nchunks, seed, |_wk, ci| {
            let lo = ci * chunk;
            let hi = (lo + chunk).min(seeds.len());
            let mut local_next = vec![];
            for sd in &seeds[lo..hi] {
                let r = engine::catch(|| {
                    if layer_is_start {
                        walk(sd.w.clone(), &sd.devs, sd.pos, sd.base, &mut local_next);
                    } else {
                        for d in deviations(&sd.w, cfg, bases[sd.base].world.appends) {
                            let mut w = sd.w.clone();
                            let viols = w.apply(d).unwrap_or_else(|e| panic!("HARNESS: deviation {} refused: {e}", d.to_text()));
                            transitions.fetch_add(1, Ordering::Relaxed);
                            let mut devs = sd.devs.clone();
                            devs.push((sd.pos, d));
                            if !viols.is_empty() {
                                col.add(&viols, || Witness { regime: "E2", base: bases[sd.base].events.clone(), multiset: false, events: concretize_from(&bases[sd.base].world, &devs, sd.pos + 1), devs: devs.clone() });
                            }
                            walk(w, &devs, sd.pos + 1, sd.base, &mut local_next);
                        }
                    }
                });
                if let Err(p) = r {
                    if !failed.swap(true, Ordering::SeqCst) {
                        eprintln!("panic in E2 after deviations {:?}: {} at {}", sd.devs, p.message, p.location);
                    }
                }
            }
            next.lock().unwrap().extend(local_next);
        });
        if failed.load(Ordering::SeqCst) {
            engine::machinery_failure("panic inside the explored code or the harness during E2 (see above)");
        }
        stats.per_layer_states.push(states.load(Ordering::SeqCst) - s0);
        stats.per_layer_executions.push(executions.load(Ordering::SeqCst) - e0);
        if layer_is_start {
            // the states of layer 0 are the seeds for the deviations of layer 1: run the loop body again
            // for the same layer number + 1 with the collected states
            layer_is_start = false;
        }
        seeds = next.into_inner().unwrap();
        if states.load(Ordering::SeqCst) > cfg.state_cap && layer < cfg.k {
            stats.capped = true;
            break;
        }
    }
    stats.states = states.load(Ordering::SeqCst);
    stats.transitions = transitions.load(Ordering::SeqCst);
    stats.executions = executions.load(Ordering::SeqCst);
    stats.walk_cap_hits = cap_hits.load(Ordering::SeqCst);
    stats.term_cap_hits = term_hits.load(Ordering::SeqCst);
    stats.longest_walk = longest.load(Ordering::SeqCst);
    stats
}
