//! C27 for other cluster sizes (N = 4, 5): ELECTION-ONLY exploration of the
//! real raft.rs (no client appends, empty logs), because quorum arithmetic
//! and vote counting differ from N = 3 (with 3 nodes one granted vote is
//! already a majority). Self-contained: own small world (any N at run time,
//! `ClusterSettings::size`), no ghost variables except the set of
//! (term, node) seen in state Leader, unordered network, breadth-first with
//! exact deduplication on the complete state.
//!   base "initial":      plain boot, events Tick / Proc(i) / Deliver(m), depth-bounded
//!   base "two-pre-vote-winners": the first and the last node expire together
//!       (the last node booted (N-1) s earlier), their pre-vote rounds are
//!       delivered FIFO: two Candidates of one term with all Vote requests in
//!       flight; then EVERY delivery order of requests and replies (loss =
//!       never delivered), no clock advance, to a depth bound.
//! Oracle: no two nodes are ever in state Leader with the same term.

use crate::mirror::MirrorStorage;
use crate::raft::{self, Cluster, ClusterSettings};
use crate::vclock;
use crate::world::{Event, Msg, Node, Packet, block_on, hash128, packet, state_name, ELECTION_FACTOR_MS, HEARTBEAT_MS, QUANTUM_MS, TERM_TIMEOUT_MS, CLUSTER_HASH};
use engine::{Args, Report};
use serde_json::{Value, json};
use std::collections::HashMap;
use std::time::Duration;

#[derive(Clone)]
struct W {
    n: usize,
    nodes: Vec<Node>,
    now: u64,
    skew: Vec<u64>,
    net: Vec<Packet>,
    leaders_seen: Vec<(u64, u8)>,
}

impl W {
    fn new(n: usize, skew: Vec<u64>) -> W {
        vclock::set_now(0);
        // every node starts its clock at its own boot: node i's timers are created at local time 0
        let nodes = (0..n as u64)
            .map(|index| {
                Cluster::new(
                    MirrorStorage::default(),
                    ClusterSettings { index, size: n as u64, hash: CLUSTER_HASH, election_factor_ms: ELECTION_FACTOR_MS, heartbeat_timeout: Duration::from_millis(HEARTBEAT_MS), term_timeout: Duration::from_millis(TERM_TIMEOUT_MS) },
                )
            })
            .collect();
        W { n, nodes, now: 0, skew, net: vec![], leaders_seen: vec![] }
    }
    fn age_cap(&self) -> u64 {
        TERM_TIMEOUT_MS.max(ELECTION_FACTOR_MS * (self.n as u64 - 1)).max(HEARTBEAT_MS) + QUANTUM_MS
    }
    fn clock(&self, i: usize) {
        vclock::set_now(self.now + self.skew[i]);
    }
    fn enc_node(&self, i: usize, nd: &Node, out: &mut Vec<u8>) {
        let local = self.now + self.skew[i];
        let (k, p) = nd.v_state();
        out.push(k);
        out.extend_from_slice(&p.to_le_bytes());
        out.extend_from_slice(&nd.v_term().to_le_bytes());
        out.extend_from_slice(&nd.v_election_timeout_ms().to_le_bytes());
        for j in 0..self.n {
            let v = nd.v_node(j);
            out.extend_from_slice(&v.log_index.to_le_bytes());
            out.extend_from_slice(&v.log_term.to_le_bytes());
            out.extend_from_slice(&v.log_commit.to_le_bytes());
            out.extend_from_slice(&((local - v.timer_ms).min(self.age_cap()) as u16).to_le_bytes());
            out.push(v.voted as u8);
        }
        assert!(nd.storage.entries.is_empty(), "election-only model: no log entries expected");
    }
    fn key(&self) -> Vec<u8> {
        let mut out = Vec::with_capacity(512);
        for i in 0..self.n {
            self.enc_node(i, &self.nodes[i], &mut out);
        }
        for p in &self.net {
            out.extend_from_slice(&(p.enc.len() as u32).to_le_bytes());
            out.extend_from_slice(&p.enc);
        }
        out.push(0xff);
        for l in &self.leaders_seen {
            out.extend_from_slice(&l.0.to_le_bytes());
            out.push(l.1);
        }
        out
    }
    fn push(&mut self, p: Packet) {
        let pos = self.net.partition_point(|q| q.enc <= p.enc);
        self.net.insert(pos, p);
    }
    fn proc_effective(&self, i: usize) -> bool {
        self.clock(i);
        let mut c = self.nodes[i].clone();
        let mut a = vec![];
        self.enc_node(i, &self.nodes[i], &mut a);
        if c.process().is_some() {
            return true;
        }
        let mut b = vec![];
        self.enc_node(i, &c, &mut b);
        a != b
    }
    /// returns Some(description) if the step creates a second leader for a term
    fn apply(&mut self, ev: Event) -> Option<String> {
        let acted: usize;
        match ev {
            Event::Tick => {
                self.now += QUANTUM_MS;
                return None;
            }
            Event::Proc(i) => {
                acted = i as usize;
                self.clock(acted);
                for r in self.nodes[acted].process().unwrap_or_default() {
                    self.push(packet(Msg::Req(r)));
                }
            }
            Event::Deliver(k) => {
                let p = self.net.remove(k as usize);
                match &p.msg {
                    Msg::Req(r) => {
                        acted = r.v_fields()[2] as usize;
                        self.clock(acted);
                        let resp = block_on(self.nodes[acted].request(r));
                        self.push(packet(Msg::Resp(r.clone(), resp)));
                    }
                    Msg::Resp(r, resp) => {
                        acted = r.v_fields()[1] as usize;
                        self.clock(acted);
                        let out = block_on(self.nodes[acted].response(r, resp)).unwrap_or_else(|e| panic!("HARNESS: response failed: {}", e.description));
                        for q in out.unwrap_or_default() {
                            self.push(packet(Msg::Req(q)));
                        }
                    }
                }
            }
            _ => panic!("HARNESS: event {} not part of the election-only model", ev.to_text()),
        }
        let (k, _) = self.nodes[acted].v_state();
        if k == raft::V_LEADER {
            let t = self.nodes[acted].v_term();
            if !self.leaders_seen.contains(&(t, acted as u8)) {
                let rival = self.leaders_seen.iter().find(|l| l.0 == t).cloned();
                self.leaders_seen.push((t, acted as u8));
                self.leaders_seen.sort();
                if let Some(rv) = rival {
                    let sim = self.nodes[rv.1 as usize].v_state().0 == raft::V_LEADER && self.nodes[rv.1 as usize].v_term() == t;
                    return Some(format!("node {} became Leader for term {} while node {} {} Leader for the same term|{}", acted, t, rv.1, if sim { "is" } else { "has been" }, if sim { "simultaneous" } else { "successive" }));
                }
            }
        }
        None
    }
    fn observe(&self) -> Value {
        json!({"n": self.n, "time_ms": self.now, "nodes": (0..self.n).map(|i| { let (k, p) = self.nodes[i].v_state(); format!("{}:t{}", state_name(k, p), self.nodes[i].v_term()) }).collect::<Vec<_>>(), "in_flight": self.net.iter().map(crate::world::describe_packet).collect::<Vec<_>>()})
    }
}

struct Base {
    name: &'static str,
    n: usize,
    skew: Vec<u64>,
    script: Vec<Event>,
    with_time: bool,
    depth: u32,
}

/// script of the base "two pre-vote winners": Proc(first), Proc(last), then deliver every PreVote request and
/// reply (never a Vote message) until only Vote requests are in flight
fn two_winners(n: usize) -> (Vec<u64>, Vec<Event>) {
    let mut skew = vec![0u64; n];
    skew[n - 1] = ELECTION_FACTOR_MS * (n as u64 - 1);
    let mut w = W::new(n, skew.clone());
    let mut evs = vec![Event::Proc(0), Event::Proc(n as u8 - 1)];
    for e in &evs {
        w.apply(*e);
    }
    loop {
        let k = w.net.iter().position(|p| match &p.msg {
            Msg::Req(r) => r.v_kind() == raft::V_PREVOTE,
            Msg::Resp(r, _) => r.v_kind() == raft::V_PREVOTE,
        });
        let Some(k) = k else { break };
        let e = Event::Deliver(k as u8);
        w.apply(e);
        evs.push(e);
        if evs.len() > 200 {
            engine::machinery_failure("election-only base two-pre-vote-winners does not finish");
        }
    }
    (skew, evs)
}

pub struct Stats {
    pub states: u64,
    pub transitions: u64,
    pub last_level: u64,
    pub per_base: Vec<Value>,
}

fn replay_events(n: usize, skew: &[u64], script: &[Event], events: &[Event]) -> (Vec<String>, Vec<String>, Value) {
    let mut w = W::new(n, skew.to_vec());
    let mut viols = vec![];
    let mut log = vec![];
    for (phase, list) in [("base", script), ("run ", events)] {
        for e in list {
            let what = if let Event::Deliver(k) = e { w.net.get(*k as usize).map(crate::world::describe_packet).unwrap_or_default() } else { String::new() };
            let r = w.apply(*e);
            let st: Vec<String> = (0..n).map(|i| { let (k, p) = w.nodes[i].v_state(); format!("{}:t{}", state_name(k, p), w.nodes[i].v_term()) }).collect();
            log.push(format!("{phase} t={} {} {} => {}{}", w.now, e.to_text(), what, st.join(" "), if r.is_some() { "  !! two leaders in one term" } else { "" }));
            if let Some(v) = r {
                viols.push(v);
            }
        }
    }
    (viols, log, w.observe())
}

pub fn explore(args: &Args, report: &Report, thorough: bool) -> Stats {
    let env = |k: &str, d: u32| std::env::var(k).ok().and_then(|s| s.parse().ok()).unwrap_or(d);
    let d_boot = env("VERIF_RAFT_N_BOOT_DEPTH", if thorough { 11 } else { 9 });
    let d_votes = env("VERIF_RAFT_N_VOTE_DEPTH", if thorough { 18 } else { 12 });
    let mut bases = vec![];
    for n in [4usize, 5] {
        bases.push(Base { name: "initial", n, skew: vec![0; n], script: vec![], with_time: true, depth: d_boot });
        let (skew, script) = two_winners(n);
        bases.push(Base { name: "two-pre-vote-winners", n, skew, script, with_time: false, depth: d_votes });
    }
    let _ = args;
    let mut stats = Stats { states: 0, transitions: 0, last_level: 0, per_base: vec![] };
    for b in &bases {
        let t0 = std::time::Instant::now();
        let mut start = W::new(b.n, b.skew.clone());
        for e in &b.script {
            if start.apply(*e).is_some() {
                report.violation(&format!("two-leaders-one-term|n={}|in-base-script|election-only", b.n), "two leaders for one term while building the base state", json!({"regime": "ELECTION-N", "n": b.n, "skew": b.skew, "base": b.script.iter().map(|e| e.to_text()).collect::<Vec<_>>(), "events": []}));
            }
        }
        let mut visited: HashMap<u128, ()> = HashMap::new();
        visited.insert(hash128(&start.key()), ());
        let mut frontier: Vec<(W, Vec<Event>)> = vec![(start, vec![])];
        let (mut states, mut trans) = (1u64, 0u64);
        let mut levels = vec![1u64];
        let mut complete = true;
        let mut best: HashMap<String, (u64, String, Vec<Event>)> = HashMap::new();
        for level in 1..=b.depth {
            let mut next = vec![];
            for (w, tr) in &frontier {
                let mut evs = vec![];
                if b.with_time {
                    evs.push(Event::Tick);
                    for i in 0..w.n {
                        if w.proc_effective(i) {
                            evs.push(Event::Proc(i as u8));
                        }
                    }
                }
                for k in 0..w.net.len() {
                    if k > 0 && w.net[k].enc == w.net[k - 1].enc {
                        continue;
                    }
                    evs.push(Event::Deliver(k as u8));
                }
                for ev in evs {
                    let mut w2 = w.clone();
                    let r = engine::catch(|| w2.apply(ev)).unwrap_or_else(|p| engine::machinery_failure(&format!("panic in the election-only exploration (n={} base={} trace={:?} + {}): {} at {}", b.n, b.name, tr, ev.to_text(), p.message, p.location)));
                    trans += 1;
                    let mut t2 = tr.clone();
                    t2.push(ev);
                    if let Some(v) = r {
                        let (what, kind) = v.rsplit_once('|').unwrap();
                        let sig = format!("two-leaders-one-term|n={}|{}|election-only|from={}", b.n, kind, b.name);
                        let e = best.entry(sig).or_insert((0, what.to_string(), t2.clone()));
                        e.0 += 1;
                        if t2.len() < e.2.len() || (t2.len() == e.2.len() && t2 < e.2) {
                            e.1 = what.to_string();
                            e.2 = t2.clone();
                        }
                    }
                    if visited.insert(hash128(&w2.key()), ()).is_none() {
                        states += 1;
                        if level < b.depth {
                            next.push((w2, t2));
                        } else {
                            complete = false;
                            stats.last_level += 1;
                        }
                    }
                }
            }
            levels.push(next.len() as u64);
            frontier = next;
            if frontier.is_empty() {
                break;
            }
        }
        // a space that ran out of events before the depth bound is covered completely
        let exhausted = complete;
        for (sig, (count, what, tr)) in best {
            let j0 = json!({"regime": "ELECTION-N", "n": b.n, "skew": b.skew, "base": b.script.iter().map(|e| e.to_text()).collect::<Vec<_>>(), "events": tr.iter().map(|e| e.to_text()).collect::<Vec<_>>()});
            let a = replay_events(b.n, &b.skew, &b.script, &tr);
            let c = replay_events(b.n, &b.skew, &b.script, &tr);
            if a.0 != c.0 || a.1 != c.1 || a.0.is_empty() {
                engine::machinery_failure(&format!("election-only witness for {sig} does not reproduce deterministically"));
            }
            let mut j = j0;
            j["steps"] = json!(a.1);
            j["observation"] = a.2;
            j["expect_signature"] = json!(sig);
            report.violation(&sig, &what, j);
            for _ in 1..count {
                report.violation(&sig, &what, Value::Null);
            }
        }
        stats.states += states;
        stats.transitions += trans;
        stats.per_base.push(json!({"n": b.n, "base": b.name, "base_script_events": b.script.len(), "events": if b.with_time { "Tick, Proc(i), Deliver(m)" } else { "Deliver(m) only (every order of requests and replies; loss = never delivered)" }, "depth_bound": b.depth, "space_exhausted_before_the_bound": exhausted, "states": states, "transitions": trans, "states_per_level": levels, "wall_s": t0.elapsed().as_secs_f64()}));
        eprintln!("N-size n={} base={} states={} transitions={} depth={} exhausted={} {:.1}s", b.n, b.name, states, trans, b.depth, exhausted, t0.elapsed().as_secs_f64());
    }
    stats
}

pub fn replay(r: &Value) -> i32 {
    let evs = |x: &Value| -> Vec<Event> { x.as_array().map(|a| a.iter().map(|e| Event::parse(e.as_str().unwrap_or("")).unwrap_or_else(|| engine::machinery_failure("replay file: bad event"))).collect()).unwrap_or_default() };
    let n = r["n"].as_u64().unwrap_or(5) as usize;
    let skew: Vec<u64> = r["skew"].as_array().map(|a| a.iter().map(|v| v.as_u64().unwrap_or(0)).collect()).unwrap_or_else(|| vec![0; n]);
    let (viols, log, obs) = replay_events(n, &skew, &evs(&r["base"]), &evs(&r["events"]));
    for l in &log {
        println!("{l}");
    }
    println!("final observation: {}", serde_json::to_string_pretty(&obs).unwrap());
    if viols.is_empty() {
        println!("REPLAY property=C27 no violation on this trace");
        0
    } else {
        println!("REPLAY-VIOLATION property=C27 {}", viols[0]);
        1
    }
}
