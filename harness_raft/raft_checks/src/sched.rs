//! The fault-free default schedule: deliver in FIFO order until the network
//! is empty, then let every node poll `process()` (node order), then advance
//! the clock one quantum.

use crate::world::{Event, N, World};

pub fn default_event(w: &World) -> Event {
    if !w.net.is_empty() {
        return Event::Deliver(0);
    }
    for i in 0..N {
        if w.proc_effective(i) {
            return Event::Proc(i as u8);
        }
    }
    Event::Tick
}
